"""Experiment: minimal fuel needed by the Gallina model of unify (depth of the mutual recursion)
versus the model's formula 6*(asize es + asize fs) + 10, on random typed patterns with sharing."""
import random, sys
sys.setrecursionlimit(100000)

# axes: ('P', uid, n) | ('X', [factors]) | ('S', b, t, a)
def numel(e):
    if e[0] == 'P': return e[2]
    if e[0] == 'X':
        r = 1
        for x in e[1]: r *= numel(x)
        return r
    return e[1] + numel(e[2]) + e[3]
def asize(e):
    if e[0] == 'P': return 1
    if e[0] == 'X': return 1 + sum(asize(x) for x in e[1])
    return 1 + asize(e[2])
def productAxis(fs):
    out = []
    for f in fs:
        if f[0] == 'X': out.extend(f[1])
        else: out.append(f)
    return out[0] if len(out) == 1 else ('X', out)
unit = ('X', [])

class St:
    def __init__(s, nxt): s.sub = {}; s.nxt = nxt; s.warn = False
def lookup(st, e):
    while e[0] == 'P' and e[1] in st.sub: e = st.sub[e[1]]
    return e
def zero(e):
    if e[0] == 'P': return e[2] == 0
    if e[0] == 'X': return any(zero(x) for x in e[1])
    return e[1] == 0 and e[3] == 0 and zero(e[2])

# returns (bool, depth needed): depth = minimal fuel for this call
def unify(e, f, st):
    e = lookup(st, e); f = lookup(st, f)
    if e[0] == 'P' and f[0] == 'P' and e[1] == f[1]: return True, 1
    if numel(e) != numel(f): st.warn = True
    if e[0] == 'X' and f[0] == 'X':
        if zero(e): return True, 1
        b, d = loop(list(reversed(e[1])), list(reversed(f[1])), st)
        return b, d + 1
    if e[0] == 'S' and f[0] == 'S':
        if e[1] == f[1] and e[3] == f[3]:
            b, d = unify(e[2], f[2], st); return b, d + 1
        if f[1] < e[1] + numel(e[2]) and e[1] < f[1] + numel(f[2]): st.warn = True
        return False, 1
    if e[0] == 'P': st.sub[e[1]] = f; return True, 1
    if f[0] == 'P': st.sub[f[1]] = e; return True, 1
    st.warn = True
    return False, 1

def loop(esr, fsr, st):
    # one unit of fuel per round; nested calls get fuel-1
    if not esr or not fsr:
        dmax = 0
        for x in list(reversed(esr)) + list(reversed(fsr)):
            b, d = unify(x, unit, st); dmax = max(dmax, d)
            if not b: return False, dmax + 1
        return True, dmax + 1
    e9, f9 = esr[0], fsr[0]; m, n = numel(e9), numel(f9)
    if m == n:
        b, d = unify(e9, f9, st)
        if not b: return False, d + 1
        b2, d2 = loop(esr[1:], fsr[1:], st)
        return b2, max(d, d2) + 1
    if m < n:
        if n % m: st.warn = True; return False, 1
        k = ('P', st.nxt, n // m); st.nxt += 1
        b, d = unify(f9, productAxis([k, e9]), st)
        if not b: return False, d + 1
        b2, d2 = loop(esr[1:], [k] + fsr[1:], st)
        return b2, max(d, d2) + 1
    if m % n: st.warn = True; return False, 1
    k = ('P', st.nxt, m // n); st.nxt += 1
    b, d = unify(e9, productAxis([k, f9]), st)
    if not b: return False, d + 1
    b2, d2 = loop([k] + esr[1:], fsr[1:], st)
    return b2, max(d, d2) + 1

# types: ('A', n) | ('T', [types]) (product) | ('U', [types]) (sum)
def tsize(t):
    if t[0] == 'A': return t[1]
    if t[0] == 'T':
        r = 1
        for x in t[1]: r *= tsize(x)
        return r
    return sum(tsize(x) for x in t[1])
def tprimes(t):
    if t[0] == 'A': return [t]
    if t[0] == 'T': return [p for x in t[1] for p in tprimes(x)]
    return [t]
def rand_type(rng, depth):
    r = rng.random()
    if depth == 0 or r < 0.3: return ('A', rng.choice([2, 3]))
    if r < 0.7: return ('T', [rand_type(rng, depth - 1) for _ in range(rng.randint(2, 4))])
    return ('U', [rand_type(rng, depth - 1) for _ in range(rng.randint(2, 3))])

class Gen:
    def __init__(s, rng, start): s.rng = rng; s.nxt = start; s.pool = {}   # key: repr(primes) -> [uids]
    def var(s, ps, pshare):
        key = repr(ps); n = 1
        for p in ps: n *= tsize(p)
        if key in s.pool and s.rng.random() < pshare: return ('P', s.rng.choice(s.pool[key]), n)
        u = s.nxt; s.nxt += 1; s.pool.setdefault(key, []).append(u); return ('P', u, n)
    def axis_of_primes(s, ps, pvar, pshare):
        # an axis of flattened product type ps (normal form)
        if not ps: return unit
        if s.rng.random() < pvar: return s.var(ps, pshare)
        if len(ps) == 1:
            p = ps[0]
            if p[0] == 'A': return s.var(ps, pshare)
            j = s.rng.randrange(len(p[1]))
            b = sum(tsize(x) for x in p[1][:j]); a = sum(tsize(x) for x in p[1][j + 1:])
            return ('S', b, s.axis_of_primes(tprimes(p[1][j]), pvar, pshare), a)
        # split into >= 2 groups
        cuts = sorted(s.rng.sample(range(1, len(ps)), s.rng.randint(1, len(ps) - 1)))
        groups = [ps[i:j] for i, j in zip([0] + cuts, cuts + [len(ps)])]
        fs = []
        for g in groups:
            if len(g) == 1: fs.append(s.axis_of_primes(g, pvar, pshare))
            else: fs.append(s.var(g, pshare))    # a factor spanning several primes must be physical
        return ('X', fs)

def experiment(seed, trials):
    rng = random.Random(seed); worst = (0, None); warned = 0
    for _ in range(trials):
        ndim = rng.randint(1, 4); ts = [rand_type(rng, rng.randint(1, 4)) for _ in range(ndim)]
        if rng.random() < 0.5: ts = [ts[0]] * ndim          # same type everywhere: maximal sharing
        g = Gen(rng, 1); pv = rng.choice([0.1, 0.3, 0.6]); psh = rng.choice([0.0, 0.5, 0.9])
        es = [g.axis_of_primes(tprimes(t), pv, psh) for t in ts]
        g2 = Gen(rng, 1000) if rng.random() < 0.7 else g
        fs = [g2.axis_of_primes(tprimes(t), pv, psh) for t in ts]
        st = St(100000); need = 0; ok = True
        for e, f in zip(es, fs):
            b, d = unify(e, f, st); need = max(need, d)
            if not b: break
        if st.warn: warned += 1
        fuel = 6 * (sum(map(asize, es)) + sum(map(asize, fs))) + 10
        ratio = need / fuel
        if ratio > worst[0]: worst = (ratio, (need, fuel, es, fs))
    return worst, warned

if __name__ == '__main__':
    for seed in range(8):
        w, warned = experiment(seed, 4000)
        print(seed, 'worst need/fuel = %.3f' % w[0], 'need', w[1][0], 'fuel', w[1][1], 'warned', warned)

def experiment2(seed, trials):
    rng = random.Random(seed); worst = -10**9; arg = None
    for _ in range(trials):
        ndim = rng.randint(1, 5); ts = [rand_type(rng, rng.randint(2, 5)) for _ in range(ndim)]
        if rng.random() < 0.6: ts = [ts[0]] * ndim
        g = Gen(rng, 1); pv = rng.choice([0.05, 0.2, 0.5]); psh = rng.choice([0.3, 0.7, 0.95])
        es = [g.axis_of_primes(tprimes(t), pv, psh) for t in ts]
        g2 = Gen(rng, 1000) if rng.random() < 0.5 else g
        fs = [g2.axis_of_primes(tprimes(t), pv, psh) for t in ts]
        st = St(100000); need = 0
        for e, f in zip(es, fs):
            b, d = unify(e, f, st); need = max(need, d)
            if not b: break
        A = sum(map(asize, es)) + sum(map(asize, fs))
        if need - A > worst: worst = need - A; arg = (need, A)
    return worst, arg
if __name__ == '__main__':
    for seed in range(6):
        print('need - A worst:', experiment2(100 + seed, 3000))
