"""Check the new fuel formula  3 * ((S + 1) * (L + 1)) + 2  (S = number of Sum nodes of both patterns,
L = floor(log2(max numel of a dimension))) against the minimal fuel on: random typed patterns (the
generator of unify_fuel_experiment.py), word equations, the conjugacy family and nested conjugacy."""
import os, sys, random
here = os.path.dirname(os.path.abspath(__file__))
src = open(os.path.join(here, 'unify_fuel_experiment.py')).read()
src = src.replace("if __name__ == '__main__':", "if False:")
exec(src)


def nsum(e):
    if e[0] == 'P': return 0
    if e[0] == 'X': return sum(nsum(x) for x in e[1])
    return 1 + nsum(e[2])


def newfuel(es, fs):
    S = sum(map(nsum, es)) + sum(map(nsum, fs))
    N = max([numel(x) for x in es + fs] + [1])
    L = N.bit_length() - 1
    return 3 * ((S + 1) * (L + 1)) + 2


def run(es, fs):
    st = St(100000); need = 0; b = True
    for e, f in zip(es, fs):
        b, d = unify(e, f, st); need = max(need, d)
        if not b: break
    return need, st.warn, b


def nested_conj(depth, w):
    # Sum(0, Prod[a; X], 1) against Sum(0, Prod[X; a'], 1), nested `depth` times through a product
    uid = [1]
    def fresh(n):
        uid[0] += 1; return ('P', uid[0], n)
    def build(d):
        X = fresh(2 ** w); a = fresh(2); a2 = fresh(2)
        if d == 0:
            return ('X', [a, X]), ('X', [X, a2])
        e, f = build(d - 1)
        n = numel(e)
        return ('X', [a, X, ('S', 0, e, 1)]), ('X', [X, a2, ('S', 0, f, 1)])
    e, f = build(depth)
    return [e], [f]


if __name__ == '__main__':
    worst = 0
    for seed in range(6):
        rng = random.Random(seed)
        for _ in range(3000):
            ndim = rng.randint(1, 5); ts = [rand_type(rng, rng.randint(1, 5)) for _ in range(ndim)]
            if rng.random() < 0.5: ts = [ts[0]] * ndim
            g = Gen(rng, 1); pv = rng.choice([0.05, 0.2, 0.5]); psh = rng.choice([0.0, 0.5, 0.95])
            es = [g.axis_of_primes(tprimes(t), pv, psh) for t in ts]
            g2 = Gen(rng, 1000) if rng.random() < 0.5 else g
            fs = [g2.axis_of_primes(tprimes(t), pv, psh) for t in ts]
            need, warn, b = run(es, fs)
            assert not warn
            nf = newfuel(es, fs)
            assert need <= nf, (need, nf, es, fs)
            worst = max(worst, need / nf)
    print('random typed: worst need/newfuel %.3f' % worst)
    for w in (1, 5, 16, 40, 80):
        X = ('P', 1, 2 ** w); a = ('P', 2, 2); a2 = ('P', 3, 2)
        es, fs = [('X', [a, X])], [('X', [X, a2])]
        need, warn, b = run(es, fs)
        print('conjugacy w=%d need %d new %d old %d' % (w, need, newfuel(es, fs), 6 * 6 + 10))
    for d in (1, 2, 4, 8):
        for w in (3, 10, 30):
            es, fs = nested_conj(d, w)
            need, warn, b = run(es, fs)
            A = sum(map(asize, es)) + sum(map(asize, fs))
            print('nested conjugacy depth %d w %d: need %d new %d old %d warn %s ok %s' % (d, w, need, newfuel(es, fs), 6 * A + 10, warn, b))
