From Coq Require Import QArith Qcanon List.
Import ListNotations.
Open Scope Qc_scope.
Inductive ereal := Fin (q : Qc) | PInf.
Definition eadd (x y : ereal) : ereal := match x, y with Fin a, Fin b => Fin (a + b) | _, _ => PInf end.
Definition emul (x y : ereal) : ereal :=
  match x, y with
  | Fin a, Fin b => Fin (a * b)
  | Fin a, PInf => if Qc_eq_dec a 0 then Fin 0 else PInf
  | PInf, Fin b => if Qc_eq_dec b 0 then Fin 0 else PInf
  | PInf, PInf => PInf
  end.
Definition estar (x : ereal) : ereal :=
  match x with Fin a => if Qclt_le_dec a 1 then Fin (/ (1 - a)) else PInf | PInf => PInf end.
Fixpoint dot (l1 l2 : list ereal) : ereal := match l1, l2 with a::l1, b::l2 => eadd (emul a b) (dot l1 l2) | _, _ => Fin 0 end.
Definition mkq (n : Z) (d : positive) : ereal := Fin (Q2Qc (n # d)).
Definition test := estar (dot [mkq 1 2; mkq 1 4; PInf] [mkq 1 3; mkq 1 5; mkq 0 1]).
Eval vm_compute in match test with Fin q => Some (this q) | PInf => None end.
Require Extraction. Require ExtrOcamlBasic.
Extraction "ex.ml" test dot mkq estar.
