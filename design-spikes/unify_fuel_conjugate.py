"""The conjugacy equation  a.X = X.a'  (X a shared physical axis of size 2^w, a, a' of size 2):
the unifier must discover X = a^w one factor at a time; the recursion depth of the model grows
linearly with w (the weight of the TYPE of X) while asize es + asize fs = 6 stays constant."""
import os, sys
here = os.path.dirname(os.path.abspath(__file__))
src = open(os.path.join(here, 'unify_fuel_experiment.py')).read()
src = src.replace("if __name__ == '__main__':", "if False:")
exec(src)


def run(es, fs):
    st = St(100000); need = 0; b = True
    for e, f in zip(es, fs):
        b, d = unify(e, f, st); need = max(need, d)
        if not b: break
    A = sum(map(asize, es)) + sum(map(asize, fs))
    return need, A, 6 * A + 10, st.warn, b, len(st.sub)


if __name__ == '__main__':
    for w in list(range(1, 12)) + [20, 40, 80]:
        X = ('P', 1, 2 ** w); a = ('P', 2, 2); a2 = ('P', 3, 2)
        print(w, run([('X', [a, X])], [('X', [X, a2])]))
