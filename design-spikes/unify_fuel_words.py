"""Adversarial search for the fuel of the model of unify: systems of 'word equations'.
Every variable v has size 2^w(v) and type [TAtom 2]^w(v); every dimension is a product of variables
of total exponent W on both sides.  Every such system is a typed pattern pair (ty in Axis_typed.v).
Searches (random + hill climbing) for the largest need / A, A = asize es + asize fs."""
import os, sys, random
here = os.path.dirname(os.path.abspath(__file__))
src = open(os.path.join(here, 'unify_fuel_experiment.py')).read()
src = src.replace("if __name__ == '__main__':", "if False:")
exec(src)


def run(es, fs):
    st = St(100000); need = 0; b = True
    for e, f in zip(es, fs):
        b, d = unify(e, f, st); need = max(need, d)
        if not b: break
    A = sum(map(asize, es)) + sum(map(asize, fs))
    return need, A, st.warn, b


def mk(word, w):
    fs = [('P', v, 2 ** w[v]) for v in word]
    return fs[0] if len(fs) == 1 else ('X', fs)


def rand_word(rng, w, total, vars_by_w):
    # random composition of `total` with parts that are weights of existing variables
    word = []
    left = total
    while left > 0:
        cands = [v for v in w if w[v] <= left]
        v = rng.choice(cands)
        word.append(v); left -= w[v]
    return word


def rand_system(rng, nvars, maxw, ndim):
    w = {1: 1}
    for v in range(2, nvars + 1): w[v] = rng.randint(1, maxw)
    dims = []
    for _ in range(ndim):
        total = rng.randint(2, 2 * maxw)
        dims.append((rand_word(rng, w, total, None), rand_word(rng, w, total, None)))
    return w, dims


def evaluate(w, dims):
    es = [mk(a, w) for a, b in dims]; fs = [mk(b, w) for a, b in dims]
    need, A, warn, b = run(es, fs)
    return need, A, warn, b


def mutate(rng, w, dims, maxw):
    dims = [(list(a), list(b)) for a, b in dims]
    i = rng.randrange(len(dims))
    total = sum(w[v] for v in dims[i][0])
    if rng.random() < 0.5:
        dims[i] = (rand_word(rng, w, total, None), dims[i][1])
    else:
        dims[i] = (dims[i][0], rand_word(rng, w, total, None))
    if rng.random() < 0.2 and len(dims) > 1:
        j = rng.randrange(len(dims)); dims[i], dims[j] = dims[j], dims[i]
    return dims


if __name__ == '__main__':
    best = (0, None)
    for seed in range(int(sys.argv[1]) if len(sys.argv) > 1 else 200):
        rng = random.Random(seed)
        nvars = rng.randint(2, 8); maxw = rng.randint(2, 12); ndim = rng.randint(1, 8)
        w, dims = rand_system(rng, nvars, maxw, ndim)
        need, A, warn, b = evaluate(w, dims)
        assert not warn
        cur = need / A
        for _ in range(300):
            d2 = mutate(rng, w, dims, maxw)
            n2, A2, warn2, b2 = evaluate(w, d2)
            assert not warn2
            if n2 / A2 >= cur: dims, cur, need, A = d2, n2 / A2, n2, A2
        if cur > best[0]:
            best = (cur, (need, A, w, dims)); print(seed, 'ratio %.3f' % cur, need, A, w, dims)
    print('best', best)
