From Coq Require Import List Arith Lia PeanoNat Bool PArith.
Import ListNotations.

Inductive axis : Type :=
| Phys (k : positive) (n : nat)
| Prod (l : list axis)
| Sum (b : nat) (t : axis) (a : nat).

(* induction principle for the nested type *)
Section AxisInd.
  Variable P : axis -> Prop.
  Hypothesis HPhys : forall k n, P (Phys k n).
  Hypothesis HProd : forall l, Forall P l -> P (Prod l).
  Hypothesis HSum : forall b t a, P t -> P (Sum b t a).
  Fixpoint axis_ind' (e : axis) : P e :=
    match e with
    | Phys k n => HPhys k n
    | Prod l => HProd l ((fix go (l : list axis) : Forall P l :=
                            match l with [] => Forall_nil _ | x :: l => Forall_cons _ (axis_ind' x) (go l) end) l)
    | Sum b t a => HSum b t a (axis_ind' t)
    end.
End AxisInd.

Fixpoint numel (e : axis) : nat :=
  match e with
  | Phys _ n => n
  | Prod l => fold_right (fun e acc => numel e * acc) 1 l
  | Sum b t a => b + numel t + a
  end.

Definition env := positive -> nat.

Fixpoint eval (rho : env) (e : axis) : nat :=
  match e with
  | Phys k _ => rho k
  | Prod l => fold_left (fun acc e => acc * numel e + eval rho e) l 0
  | Sum b t _ => b + eval rho t
  end.

(* in-range environments *)
Fixpoint inrange (rho : env) (e : axis) : Prop :=
  match e with
  | Phys k n => rho k < n
  | Prod l => (fix go l := match l with [] => True | x :: l => inrange rho x /\ go l end) l
  | Sum _ t _ => inrange rho t
  end.

Lemma inrange_Prod rho l : inrange rho (Prod l) <-> Forall (inrange rho) l.
Proof.
  induction l as [|x l IH]; simpl; split; intros H.
  - constructor.
  - exact I.
  - destruct H as [Hx Hl]. constructor; [exact Hx|apply IH; exact Hl].
  - inversion H as [|? ? Hx Hl]; subst. split; [exact Hx|apply IH; exact Hl].
Qed.

Definition prodn (l : list axis) := fold_right (fun e acc => numel e * acc) 1 l.

Lemma fold_left_eval_acc rho l acc :
  fold_left (fun acc e => acc * numel e + eval rho e) l acc
  = acc * prodn l + fold_left (fun acc e => acc * numel e + eval rho e) l 0.
Proof.
  revert acc. induction l as [|x l IH]; intros acc; simpl; [lia|].
  rewrite IH. rewrite (IH (eval rho x)). unfold prodn; simpl. fold (prodn l). nia.
Qed.

Theorem eval_bound rho e : inrange rho e -> eval rho e < numel e.
Proof.
  induction e as [k n|l IH|b t a IH] using axis_ind'; simpl; intros H; [exact H| |specialize (IH H); lia].
  apply inrange_Prod in H. fold (prodn l).
  induction l as [|x l IHl]; simpl; [lia|].
  inversion IH as [|? ? Hx Hl]; subst. inversion H as [|? ? Hrx Hrl]; subst.
  rewrite fold_left_eval_acc. specialize (IHl Hl Hrl). specialize (Hx Hrx).
  fold (prodn l). nia.
Qed.

(* affine form *)
Definition lin := list (positive * nat).
Definition lin_eval (rho : env) (s : lin) : nat := fold_right (fun kc acc => snd kc * rho (fst kc) + acc) 0 s.
Fixpoint lin_add1 (s : lin) (k : positive) (c : nat) : lin :=
  match s with [] => [(k, c)] | (k', c') :: s => if Pos.eqb k' k then (k', c' + c) :: s else (k', c') :: lin_add1 s k c end.
Definition lin_merge (s1 s2 : lin) : lin := fold_left (fun s kc => lin_add1 s (fst kc) (snd kc)) s2 s1.
Definition lin_scale (n : nat) (s : lin) : lin := map (fun kc => (fst kc, snd kc * n)) s.

Lemma lin_add1_eval rho s k c : lin_eval rho (lin_add1 s k c) = lin_eval rho s + c * rho k.
Proof. induction s as [|[k' c'] s IH]; simpl; [lia|]. destruct (Pos.eqb_spec k' k); simpl; [subst; lia|rewrite IH; lia]. Qed.
Lemma lin_merge_eval rho s1 s2 : lin_eval rho (lin_merge s1 s2) = lin_eval rho s1 + lin_eval rho s2.
Proof. unfold lin_merge. revert s1. induction s2 as [|[k c] s2 IH]; intros s1; simpl; [lia|]. rewrite IH, lin_add1_eval. simpl. lia. Qed.
Lemma lin_scale_eval rho n s : lin_eval rho (lin_scale n s) = n * lin_eval rho s.
Proof. induction s as [|[k c] s IH]; simpl; [lia|]. rewrite IH. nia. Qed.

(* stride, as in ProductAxis.stride / SumAxis.stride *)
Fixpoint stride (e : axis) : nat * lin :=
  match e with
  | Phys k _ => (0, [(k, 1)])
  | Prod l => fold_left (fun os e => let n := numel e in let '(o, s) := stride e in
                                     (fst os * n + o, lin_merge (lin_scale n (snd os)) s)) l (0, [])
  | Sum b t _ => let '(o, s) := stride t in (o + b, s)
  end.

Theorem stride_affine rho e : eval rho e = fst (stride e) + lin_eval rho (snd (stride e)).
Proof.
  induction e as [k n|l IH|b t a IH] using axis_ind'; simpl.
  - lia.
  - (* generalise the accumulator *)
    assert (G : forall acc os, acc = fst os + lin_eval rho (snd os) ->
      fold_left (fun acc e => acc * numel e + eval rho e) l acc
      = fst (fold_left (fun os e => let n := numel e in let '(o, s) := stride e in
                                     (fst os * n + o, lin_merge (lin_scale n (snd os)) s)) l os)
        + lin_eval rho (snd (fold_left (fun os e => let n := numel e in let '(o, s) := stride e in
                                     (fst os * n + o, lin_merge (lin_scale n (snd os)) s)) l os))).
    { induction l as [|x l IHl]; intros acc os Hacc; simpl; [exact Hacc|].
      inversion IH as [|? ? Hx Hl]; subst. apply IHl; [exact Hl|].
      destruct (stride x) as [o s] eqn:E. simpl in *. rewrite lin_merge_eval, lin_scale_eval, Hx. ring. }
    apply G. reflexivity.
  - destruct (stride t) as [o s]; simpl in *. lia.
Qed.

Lemma mixed_radix_inj P a1 r1 a2 r2 : r1 < P -> r2 < P -> a1 * P + r1 = a2 * P + r2 -> a1 = a2 /\ r1 = r2.
Proof.
  intros H1 H2 E.
  assert (a1 = a2).
  { destruct (Nat.lt_trichotomy a1 a2) as [L|[L|L]]; [|exact L|]; exfalso; nia. }
  subst. split; [reflexivity|lia].
Qed.

(* injectivity on free variables *)
Fixpoint fv (e : axis) : list positive :=
  match e with Phys k _ => [k] | Prod l => flat_map fv l | Sum _ t _ => fv t end.

Theorem eval_inj rho1 rho2 e :
  inrange rho1 e -> inrange rho2 e -> eval rho1 e = eval rho2 e -> forall k, In k (fv e) -> rho1 k = rho2 k.
Proof.
  induction e as [k n|l IH|b t a IH] using axis_ind'; simpl; intros H1 H2 E k' Hk.
  - destruct Hk as [<-|[]]; exact E.
  - apply inrange_Prod in H1, H2.
    induction l as [|x l IHl]; simpl in *; [contradiction|].
    inversion IH as [|? ? Hx Hl]; subst. inversion H1 as [|? ? H1x H1l]; subst. inversion H2 as [|? ? H2x H2l]; subst.
    rewrite (fold_left_eval_acc rho1), (fold_left_eval_acc rho2) in E.
    pose proof (eval_bound rho1 (Prod l) (proj2 (inrange_Prod _ _) H1l)) as B1.
    pose proof (eval_bound rho2 (Prod l) (proj2 (inrange_Prod _ _) H2l)) as B2.
    simpl in B1, B2. fold (prodn l) in *.
    assert (eval rho1 x = eval rho2 x /\
            fold_left (fun acc e => acc * numel e + eval rho1 e) l 0 = fold_left (fun acc e => acc * numel e + eval rho2 e) l 0) as [Ex El].
    { apply (mixed_radix_inj (prodn l)); [exact B1|exact B2|]. lia. }
    apply in_app_or in Hk. destruct Hk as [Hk|Hk]; [apply Hx; assumption|apply IHl; assumption].
  - apply IH; try assumption. lia.
Qed.
Print Assumptions eval_inj.
Print Assumptions stride_affine.
