From Coq Require Import List Arith Lia Ring Setoid Morphisms.
Import ListNotations.

Section Elim.
Variable S : Type.
Variables (zero one : S) (add mul : S -> S -> S) (star : S -> S) (le : S -> S -> Prop).
Infix "+" := add. Infix "*" := mul. Infix "<=" := le.
Hypothesis SRth : semi_ring_theory zero one add mul (@eq S).
Add Ring Sring : SRth.
Hypothesis le_refl : forall x, x <= x.
Hypothesis le_trans : forall x y z, x <= y -> y <= z -> x <= z.
Hypothesis add_mono : forall a b c d, a <= b -> c <= d -> a + c <= b + d.
Hypothesis mul_mono : forall a b c, b <= c -> a * b <= a * c.
Hypothesis star_unfold : forall a, star a = one + a * star a.
Hypothesis star_ind : forall a b x, a * x + b <= x -> star a * b <= x.

Variable K : Type.
Variable K_eq_dec : forall a b : K, {a = b} + {a <> b}.

Fixpoint sumS (l : list K) (f : K -> S) : S :=
  match l with [] => zero | k :: l => f k + sumS l f end.

Lemma sumS_ext l f g : (forall k, In k l -> f k = g k) -> sumS l f = sumS l g.
Proof. induction l as [|k l IH]; simpl; intros H; [reflexivity|]. rewrite H by now left. rewrite IH; [reflexivity|]. intros; apply H; now right. Qed.
Lemma sumS_add l f g : sumS l (fun k => f k + g k) = sumS l f + sumS l g.
Proof. induction l as [|k l IH]; simpl; [ring|rewrite IH; ring]. Qed.
Lemma sumS_mul_l l c f : sumS l (fun k => c * f k) = c * sumS l f.
Proof. induction l as [|k l IH]; simpl; [ring|rewrite IH; ring]. Qed.
Lemma sumS_mono l f g : (forall k, In k l -> f k <= g k) -> sumS l f <= sumS l g.
Proof. induction l as [|k l IH]; simpl; intros H; [apply le_refl|]. apply add_mono; [apply H; now left|apply IH; intros; apply H; now right]. Qed.

Definition upd (x : K -> S) (k : K) (v : S) : K -> S := fun i => if K_eq_dec i k then v else x i.

Fixpoint solve (vs : list K) (A : K -> K -> S) (b : K -> S) : K -> S :=
  match vs with
  | [] => b
  | k :: vs =>
      let s := star (A k k) in
      let A' := fun i j => A i j + A i k * (s * A k j) in
      let b' := fun i => b i + A i k * (s * b k) in
      let x' := solve vs A' b' in
      upd x' k (s * (sumS vs (fun j => A k j * x' j) + b k))
  end.

Definition is_sol (vs : list K) A b (x : K -> S) := forall i, In i vs -> x i = sumS vs (fun j => A i j * x j) + b i.
Definition is_presol (vs : list K) A b (y : K -> S) := forall i, In i vs -> sumS vs (fun j => A i j * y j) + b i <= y i.

Lemma star_sol a r : star a * r = a * (star a * r) + r.
Proof. rewrite (star_unfold a) at 1. ring. Qed.

Theorem solve_sol vs : NoDup vs -> forall A b, is_sol vs A b (solve vs A b).
Proof.
  induction vs as [|k vs IH]; intros ND A b; [intros i []|].
  inversion ND as [|? ? Hk ND']; subst. cbn [solve].
  set (s := star (A k k)). set (A' := fun i j => A i j + A i k * (s * A k j)).
  set (b' := fun i => b i + A i k * (s * b k)). set (x' := solve vs A' b').
  set (r := sumS vs (fun j => A k j * x' j) + b k).
  assert (Hx' : is_sol vs A' b' x') by (apply IH; assumption).
  assert (Hupd : forall j, In j vs -> upd x' k (s * r) j = x' j).
  { intros j Hj. unfold upd. destruct (K_eq_dec j k); [subst; contradiction|reflexivity]. }
  assert (Hk' : upd x' k (s * r) k = s * r) by (unfold upd; destruct (K_eq_dec k k); congruence).
  intros i Hi. cbn [sumS]. rewrite Hk'.
  rewrite (sumS_ext vs (fun j => A i j * upd x' k (s * r) j) (fun j => A i j * x' j)) by (intros; rewrite Hupd; auto).
  destruct Hi as [<-|Hi].
  - rewrite Hk'. fold r. unfold s. rewrite star_sol at 1. fold s. unfold r. ring.
  - rewrite (Hupd i Hi). rewrite (Hx' i Hi). unfold A', b'.
    rewrite (sumS_ext vs (fun j => (A i j + A i k * (s * A k j)) * x' j) (fun j => A i j * x' j + (A i k * s) * (A k j * x' j))) by (intros; ring).
    rewrite sumS_add, sumS_mul_l. unfold r. ring.
Qed.

Theorem solve_least vs : NoDup vs -> forall A b y, is_presol vs A b y -> forall i, In i vs -> solve vs A b i <= y i.
Proof.
  induction vs as [|k vs IH]; intros ND A b y Hy; [intros i []|].
  inversion ND as [|? ? Hk ND']; subst. cbn [solve].
  set (s := star (A k k)). set (A' := fun i j => A i j + A i k * (s * A k j)).
  set (b' := fun i => b i + A i k * (s * b k)). set (x' := solve vs A' b').
  set (ry := sumS vs (fun j => A k j * y j) + b k).
  (* from row k: s * ry <= y k *)
  assert (Hyk : s * ry <= y k).
  { apply star_ind. pose proof (Hy k (or_introl eq_refl)) as H. cbn [sumS] in H.
    replace (A k k * y k + ry) with (A k k * y k + sumS vs (fun j => A k j * y j) + b k) by (unfold ry; ring). exact H. }
  assert (Hy' : is_presol vs A' b' y).
  { intros i Hi. pose proof (Hy i (or_intror Hi)) as H. cbn [sumS] in H.
    unfold A', b'.
    rewrite (sumS_ext vs (fun j => (A i j + A i k * (s * A k j)) * y j) (fun j => A i j * y j + (A i k * s) * (A k j * y j))) by (intros; ring).
    rewrite sumS_add, sumS_mul_l.
    eapply le_trans; [|exact H].
    replace (sumS vs (fun j => A i j * y j) + A i k * s * sumS vs (fun j => A k j * y j) + (b i + A i k * (s * b k)))
      with (A i k * (s * ry) + (sumS vs (fun j => A i j * y j) + b i)) by (unfold ry; ring).
    replace (A i k * y k + sumS vs (fun j : K => A i j * y j) + b i) with (A i k * y k + (sumS vs (fun j : K => A i j * y j) + b i)) by ring.
    apply add_mono; [apply mul_mono; exact Hyk|apply le_refl]. }
  assert (Hx' : forall j, In j vs -> x' j <= y j) by (apply IH; assumption).
  intros i [<-|Hi]; unfold upd.
  - destruct (K_eq_dec k k) as [_|]; [|congruence].
    eapply le_trans; [|exact Hyk]. apply mul_mono. unfold ry. apply add_mono; [|apply le_refl].
    apply sumS_mono. intros j Hj. apply mul_mono. apply Hx'; exact Hj.
  - destruct (K_eq_dec i k); [subst; contradiction|]. apply Hx'; exact Hi.
Qed.
End Elim.
Check solve_sol. Check solve_least.
Print Assumptions solve_least.
