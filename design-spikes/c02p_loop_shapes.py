"""C02P one-off cross-check of the loop-shape models in coq/theories/Proofs/Kleene_control.v against the REAL
fixed_point / newton of /repo/fggs/sum_product.py run on a mocked MultiTensor (an int counter; F = +1;
shouldStop := c <= x0).  Prints, for (kmax, c) in 6 x 9: (x0, x1, warned) of fixed_point; (x0, warned) of newton;
(x0, Some warned | None = UnboundLocalError) of the pre-repair newton (`if k > kmax` after the for loop).
The same three lists come out of Coq from
  fixed_point_loop S (fun x0 _ => c <=? x0) kmax 0,  newton_loop (fun n => (S n, c <=? n)) kmax 0,  newton_loop_old ... 
(Eval vm_compute over flat_map (fun kmax => map (fun c => (kmax, c)) (seq 0 9)) (seq 0 6)); they agreed on all 54 points."""
import sys, warnings, inspect, re
sys.path.insert(0, "/repo")
import fggs, importlib; sp = sys.modules["fggs.sum_product"]

class St:
    """mock MultiTensor: an int counter; shouldStop(x0, x1) := c <= x0.v"""
    c = 0
    def __init__(self, v=0, *a, **k):
        self.v = v if isinstance(v, int) else 0
        self.semiring = None; self.shapes = None
    def shouldStop(self, other, tol): return St.c <= self.v
    def copy_(self, other): self.v = other.v
    def maximum_(self, other): return self
    def __sub__(self, other): return self
    def __iadd__(self, other): return self

def run_fp(kmax, c):
    St.c = c
    x0 = St(0)
    with warnings.catch_warnings(record=True) as wl:
        warnings.simplefilter("always")
        # F(x) = x + 1; the code keeps x1 as a separate object
        x1holder = {}
        def F(x): return St(x.v + 1)
        # fixed_point does: k, x1 = 0, F(x0); loop; we need x1 afterwards: wrap F to remember last result
        last = {}
        def F2(x):
            r = F(x); last.setdefault("objs", []).append(r); return r
        sp.fixed_point(F2, x0, tol=0., kmax=kmax)
    x1 = last["objs"][0]  # x1 object is the first F result, updated in place by copy_
    return (x0.v, x1.v, len(wl) > 0)

# newton: state counter lives in F: body n = (S n, c <= n).  stop = F0.shouldStop(x0): F0 = F(x0).maximum_(x0)
# we make F(x0) return an object whose shouldStop tests c <= x0.v, and x0 += dX increments x0.v
class NS(St):
    def __iadd__(self, other): self.v += 1; return self

def newton_src(old):
    src = inspect.getsource(sp.newton)
    if old:
        assert "    else:\n        warnings.warn" in src
        src = src.replace("    else:\n        warnings.warn", "\n    if k > kmax:\n        warnings.warn")
    return src

def run_newton(kmax, c, old):
    St.c = c
    ns = dict(sp.__dict__)
    ns["MultiTensor"] = lambda *a, **k: NS(0)
    ns["multi_solve"] = lambda J, b: None
    exec(newton_src(old), ns)
    x0 = NS(0)
    def F(x):
        r = NS(x.v)  # F0.shouldStop(x0) := c <= (value of x0 before the update)
        return r
    with warnings.catch_warnings(record=True) as wl:
        warnings.simplefilter("always")
        try:
            ns["newton"](F, lambda x: None, x0, tol=0., kmax=kmax)
            w = len(wl) > 0
        except UnboundLocalError:
            w = None
    return (x0.v, w)

fmt = lambda b: {True: "true", False: "false"}[b]
grid = [(kmax, c) for kmax in range(6) for c in range(9)]
fp = "=[" + ";".join("(%d,%d,%s)" % (a, b, fmt(w)) for a, b, w in (run_fp(*g) for g in grid)) + "]"
nw = "=[" + ";".join("(%d,%s)" % (a, fmt(w)) for a, w in (run_newton(k, c, False) for k, c in grid)) + "]"
nwo = "=[" + ";".join("(%d,%s)" % (a, "None" if w is None else "Some" + fmt(w)) for a, w in (run_newton(k, c, True) for k, c in grid)) + "]"
print(); print(fp); print(nw); print(nwo)
