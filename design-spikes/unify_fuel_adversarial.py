"""Adversarial inputs for the fuel of the model of unify (towers of shared variables, misaligned):
need (minimal fuel) against A = asize es + asize fs and the model's 6*A + 10."""
import os, sys
here = os.path.dirname(os.path.abspath(__file__))
src = open(os.path.join(here, 'unify_fuel_experiment.py')).read()
src = src.replace("if __name__ == '__main__':", "if False:")
exec(src)


def run(es, fs):
    st = St(100000); need = 0; b = True
    for e, f in zip(es, fs):
        b, d = unify(e, f, st); need = max(need, d)
        if not b: break
    A = sum(map(asize, es)) + sum(map(asize, fs))
    return need, A, 6 * A + 10, st.warn, b


def tower(n, s=2):
    # X_j has size s^(2^(n-j)); X_j := [X_{j+1}; X_{j+1}]
    X = [('P', 1 + j, s ** (2 ** (n - j))) for j in range(n + 1)]
    Y = [('P', 101 + j, s ** (2 ** (n - j))) for j in range(n + 1)]
    a = ('P', 500, s); a2 = ('P', 501, s)
    es = []; fs = []
    for j in range(n):
        es.append(X[j]); fs.append(('X', [X[j + 1], X[j + 1]]))
        es.append(Y[j]); fs.append(('X', [Y[j + 1], Y[j + 1]]))
    es.append(('X', [a, X[0]])); fs.append(('X', [Y[0], a2]))
    return es, fs


if __name__ == '__main__':
    for n in range(1, 8):
        print(n, run(*tower(n)))
