From Coq Require Import List Arith Lia Bool PeanoNat.
Import ListNotations.

(* graph: adjacency as association list in dict order; vertices are nat *)
Definition graph := list (nat * list nat).
Fixpoint succs (g : graph) (v : nat) : list nat :=
  match g with [] => [] | (u, ws) :: g => if Nat.eqb u v then ws else succs g v end.

Record st := { idx : nat; indexof : list (nat * nat); lowlink : list (nat * nat);
               stack : list nat; comps : list (list nat) }.
Fixpoint get (m : list (nat * nat)) (k : nat) : option nat :=
  match m with [] => None | (a, b) :: m => if Nat.eqb a k then Some b else get m k end.
Definition getd m k := match get m k with Some x => x | None => 0 end.
Fixpoint set (m : list (nat * nat)) (k v : nat) : list (nat * nat) :=
  match m with [] => [(k, v)] | (a, b) :: m => if Nat.eqb a k then (a, v) :: m else (a, b) :: set m k v end.
Definition mem (l : list nat) (x : nat) := existsb (Nat.eqb x) l.

(* pop until v inclusive: returns (component in pop order, rest) *)
Fixpoint pop_until (v : nat) (s : list nat) : list nat * list nat :=
  match s with [] => ([], []) | w :: s => if Nat.eqb w v then ([w], s) else let (c, r) := pop_until v s in (w :: c, r) end.

Fixpoint visit (fuel : nat) (g : graph) (v : nat) (s : st) : option st :=
  match fuel with 0 => None | S fuel =>
    let s := {| idx := S (idx s); indexof := set (indexof s) v (idx s); lowlink := set (lowlink s) v (idx s);
                stack := v :: stack s; comps := comps s |} in
    let fix go (ws : list nat) (s : st) : option st :=
      match ws with
      | [] => Some s
      | w :: ws =>
        match get (indexof s) w with
        | None => match visit fuel g w s with
                  | None => None
                  | Some s' => go ws {| idx := idx s'; indexof := indexof s';
                                        lowlink := set (lowlink s') v (Nat.min (getd (lowlink s') v) (getd (lowlink s') w));
                                        stack := stack s'; comps := comps s' |}
                  end
        | Some iw => if mem (stack s) w
                     then go ws {| idx := idx s; indexof := indexof s;
                                   lowlink := set (lowlink s) v (Nat.min (getd (lowlink s) v) iw);
                                   stack := stack s; comps := comps s |}
                     else go ws s
        end
      end in
    match go (succs g v) s with
    | None => None
    | Some s => if Nat.eqb (getd (lowlink s) v) (getd (indexof s) v)
                then let (c, r) := pop_until v (stack s) in
                     Some {| idx := idx s; indexof := indexof s; lowlink := lowlink s; stack := r; comps := comps s ++ [c] |}
                else Some s
    end
  end.

Definition scc (g : graph) : option (list (list nat)) :=
  let fuel := S (length g) in
  let fix loop (vs : list nat) (s : st) : option st :=
    match vs with [] => Some s | v :: vs =>
      match get (indexof s) v with Some _ => loop vs s | None =>
        match visit fuel g v s with None => None | Some s => loop vs s end end end in
  match loop (map fst g) {| idx := 0; indexof := []; lowlink := []; stack := []; comps := [] |} with
  | None => None | Some s => Some (comps s) end.

Eval vm_compute in scc [(0,[1]); (1,[2]); (2,[0;3]); (3,[4]); (4,[3]); (5, [])].

(* naive spec checker *)
Fixpoint reach_step (g : graph) (r : list nat) : list nat :=
  fold_left (fun acc v => fold_left (fun acc w => if mem acc w then acc else acc ++ [w]) (succs g v) acc) r r.
Fixpoint reach_n (n : nat) g r := match n with 0 => r | S n => reach_n n g (reach_step g r) end.
Definition reaches g u v := mem (reach_n (length g) g [u]) v.
Definition same_scc g u v := reaches g u v && reaches g v u.
Definition scc_ok (g : graph) (cs : list (list nat)) : bool :=
  let vs := map fst g in
  let flat := concat cs in
  (Nat.eqb (length flat) (length vs)) && forallb (mem flat) vs && forallb (fun c => negb (Nat.eqb (length c) 0)) cs &&
  forallb (fun c => forallb (fun u => forallb (fun v => same_scc g u v) c) c) cs &&
  (* different comps not same scc, and no edge from earlier comp to later comp *)
  (fix ord (cs : list (list nat)) : bool :=
     match cs with [] => true | c :: rest =>
       forallb (fun u => forallb (fun d => forallb (fun v => negb (same_scc g u v) && negb (mem (succs g u) v)) d) rest) c && ord rest end) cs.

(* all digraphs on n vertices (with self loops): adjacency given by bit lists *)
Fixpoint sublists (l : list nat) : list (list nat) :=
  match l with [] => [[]] | x :: l => let r := sublists l in r ++ map (cons x) r end.
Fixpoint all_graphs (vs all : list nat) : list graph :=
  match vs with [] => [[]] | v :: vs => flat_map (fun ws => map (cons (v, ws)) (all_graphs vs all)) (sublists all) end.
Definition check n := let vs := seq 0 n in
  forallb (fun g => match scc g with Some cs => scc_ok g cs | None => false end) (all_graphs vs vs).
Time Eval vm_compute in (check 3, length (all_graphs (seq 0 3) (seq 0 3))).
Time Eval vm_compute in (check 4).
