From Coq Require Import QArith Qcanon Lia Lqa Bool.
Open Scope Qc_scope.
(* bridge tactics Qc -> Q *)
Lemma Qc_eq_iff (a b : Qc) : a = b <-> (this a == this b)%Q.
Proof. split; [intros ->; reflexivity | apply Qc_is_canon]. Qed.
Lemma this_plus a b : (this (a + b) == this a + this b)%Q. Proof. unfold Qcplus, Q2Qc; cbn [this]; apply Qred_correct. Qed.
Lemma this_mult a b : (this (a * b) == this a * this b)%Q. Proof. unfold Qcmult, Q2Qc; cbn [this]; apply Qred_correct. Qed.
Lemma this_opp a : (this (- a) == - this a)%Q. Proof. unfold Qcopp, Q2Qc; cbn [this]; apply Qred_correct. Qed.
Lemma this_minus a b : (this (a - b) == this a - this b)%Q. Proof. unfold Qcminus. rewrite this_plus, this_opp. reflexivity. Qed.
Lemma this_inv a : (this (/ a) == / this a)%Q. Proof. unfold Qcinv, Q2Qc; cbn [this]; apply Qred_correct. Qed.
Lemma this_0 : (this 0 == 0)%Q. Proof. reflexivity. Qed.
Lemma this_1 : (this 1 == 1)%Q. Proof. reflexivity. Qed.
Ltac qc2q :=
  repeat match goal with
  | H : @eq Qc _ _ |- _ => apply Qc_eq_iff in H
  | H : ~ @eq Qc _ _ |- _ => rewrite Qc_eq_iff in H
  | H : Qcle _ _ |- _ => unfold Qcle in H
  | H : Qclt _ _ |- _ => unfold Qclt in H
  end;
  try apply Qc_eq_iff; unfold Qcle, Qclt;
  repeat (rewrite ?this_plus, ?this_mult, ?this_minus, ?this_opp, ?this_inv in * );
  change (this 0) with 0%Q in *; change (this 1) with 1%Q in *.

Goal forall b c : Qc, 0 <= b -> 0 <= c -> b + c = 0 -> b = 0.
Proof. intros. qc2q. lra. Qed.
Goal forall a b c : Qc, a * (b + c) = a*b + a*c.
Proof. intros. qc2q. ring. Qed.
Goal forall a x b : Qc, 0 <= a -> a < 1 -> 0 <= x -> 0<= b -> a * x + b <= x -> / (1 - a) * b <= x.
Proof. intros. qc2q.
  set (A := this a) in *. set (X := this x) in *. set (B := this b) in *.
  assert (HA: (0 < 1 - A)%Q) by lra.
  assert (E : (B <= X * (1 - A))%Q) by lra.
  assert (/ (1 - A) * B <= / (1-A) * (X * (1-A)))%Q.
  { apply Qmult_le_l. apply Qinv_lt_0_compat; lra. exact E. }
  assert ((/ (1-A) * (X * (1-A)) == X)%Q) by (field; lra).
  lra.
Qed.
