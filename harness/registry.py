"""Registry of properties -> harness modules, and of model check functions."""
import importlib

import os, glob
PROPS = sorted(os.path.basename(f)[:-3] for f in glob.glob(os.path.join(os.path.dirname(__file__), "props", "C[0-9][0-9].py")))

def module(pid):
    return importlib.import_module("harness.props." + pid)

def all_checkfns():
    fns, seen = [], set()
    for pid in PROPS:
        for cf in getattr(module(pid), "CHECKFNS", []):
            if cf.kind in seen: continue
            seen.add(cf.kind); fns.append(cf)
    return fns

def glue_ml(fns):
    import re
    pre = []; seen = {}
    for pid in PROPS:
        g = getattr(module(pid), "GLUE_PREAMBLE", "")
        if g in pre: continue          # the same preamble shared by several properties
        for name in re.findall(r"let rec (\w+)", g):
            if name in seen:
                raise RuntimeError("OCaml decoder name %s defined by both %s and %s" % (name, seen[name], pid))
            seen[name] = pid
        pre.append(g)
    arms = "".join('  | "%s" -> int_of_nat (%s (%s s))\n' % (cf.kind, cf.ocaml_name, cf.ty.dec()) for cf in fns)
    return ("\n".join(p for p in pre if p) + "\nlet dispatch (kind : string) (s : sexp) : int = match kind with\n" + arms +
            '  | _ -> failwith ("unknown kind " ^ kind)\n\n'
            "let () =\n  try while true do\n    let line = input_line stdin in\n"
            "    let i = String.index line ' ' in\n"
            "    let kind = String.sub line 0 i in\n"
            "    let s = parse (String.sub line (i + 1) (String.length line - i - 1)) in\n"
            "    print_int (dispatch kind s); print_newline ()\n  done with End_of_file -> ()\n")

NOT_YET = {}
HOOK_COMMITS = []
