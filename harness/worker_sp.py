"""Worker: runs fggs.sum_products jobs read from stdin (one JSON list), prints one JSON list of
results.  Run under the normal interpreter and under `python -OO` (C11).  Floats are exchanged
as float.hex() strings so that the two interpreters' outputs can be compared bit for bit."""
import sys, os, json, warnings, math
sys.path.insert(0, os.path.dirname(os.path.dirname(os.path.abspath(__file__))))
sys.path.insert(0, os.environ.get("FGGS_REPO", "/repo"))
from fractions import Fraction

def main():
    from harness import gen
    from harness.props._sp_util import SR, dense_list
    import fggs, torch
    jobs = json.load(sys.stdin)
    out = []
    for j in jobs:
        spec = gen.spec_from_json(j["spec"])
        vexp = (j["sr"] == "viterbi_exp")
        sr = SR("log" if vexp else j["sr"], j["dtype"], Fraction(j.get("scale", "1")))
        if vexp:
            sr.semiring = lambda: fggs.ViterbiSemiring(dtype=sr.torch_dtype())
        res = dict(debug=__debug__)
        try:
            b = gen.build_fgg(spec, sr.wconv, ids=j.get("ids", "explicit"), dtype=sr.torch_dtype(), patterned=bool(j.get("patterned")))
            if j.get("grad"):
                for f in b.factors.values(): f.weights.requires_grad_()
            with warnings.catch_warnings(record=True) as wl:
                warnings.simplefilter("always")
                opts = dict(method=j["method"], semiring=sr.semiring(), tol=j["tol"], kmax=j["kmax"])
                if j.get("j_precompute"): opts["j_precompute"] = True
                zs = fggs.sum_products(b.fgg, **opts)
            res["warned"] = any("maximum iteration exceeded" in str(w.message) for w in wl)
            vals = {}
            for i, e in enumerate(spec["elabels"]):
                if e["term"] or b.els[i] not in zs: continue
                vals[str(i)] = [float(x).hex() if not isinstance(x, bool) else x for x in dense_list(zs[b.els[i]])]
            res["values"] = vals
            if j.get("grad"):
                z = zs[b.els[spec["start"]]].to_dense()
                z.sum().backward()
                grads = {}
                for el, f in b.factors.items():
                    g = f.weights.grad
                    if g is None: grads[str(el)] = None
                    else: grads[str(el)] = [float(x).hex() for x in dense_list(g)]
                res["grads"] = grads
        except Exception as e:
            res["error"] = type(e).__name__ + ": " + str(e)[:200]
        out.append(res)
    json.dump(out, sys.stdout)

if __name__ == "__main__":
    main()
