"""Generators.  A grammar is first generated as plain data (a *spec*, integers only), from
which both the fggs objects (build_hrg / build_fgg) and the model-side values are derived.

spec = dict(
  nlabels = [domain size, ...]                      node labels N0, N1, ...
  elabels = [dict(term=bool, type=[nl, ...]), ...]  edge labels E0, E1, ...
  start   = edge label index,
  rules   = [dict(lhs=el, nodes=[nl, ...], edges=[(el, [node index, ...]), ...], ext=[node index, ...]), ...]
  weights = {el: nested list over the label's type of Fraction | 'inf'}   (terminals; Real reading)
  features = [names of forced shapes present]
)
"""
from __future__ import annotations
import random, itertools
from fractions import Fraction

REAL_GRID = [Fraction(0), Fraction(1, 2), Fraction(1), Fraction(2), Fraction(3), Fraction(1, 4), "inf"]
REAL_GRID_P = [0.22, 0.2, 0.2, 0.12, 0.08, 0.12, 0.06]

def nested(shape, f):
    if not shape: return f()
    return [nested(shape[1:], f) for _ in range(shape[0])]

def nested_map(x, f):
    if isinstance(x, list): return [nested_map(y, f) for y in x]
    return f(x)

def flat(x):
    if isinstance(x, list):
        for y in x: yield from flat(y)
    else:
        yield x

def random_spec(rng: random.Random, recursive=False, max_nt=4, max_rules=3, max_nodes=4, max_edges=4,
                max_dom=3, p_feature=0.15, linear=None, allow_inf=True, start_arity0=False, dup_ext=True,
                p_empty=0.0):
    """p_empty > 0: with that probability per grammar one node label gets the EMPTY domain (size 0) and, with
    probability 1/2 each, a node of that label that is attached to no edge is appended to one or two rules
    (features empty_dom / isolated_int_empty ...).  p_empty = 0 draws nothing extra from rng."""
    feats = []
    n_nl = rng.choice([1, 1, 2])
    nlabels = [rng.randint(1, max_dom) for _ in range(n_nl)]
    if rng.random() < 0.5: nlabels[0] = max(2, nlabels[0])
    empty_nl = None
    if p_empty and rng.random() < p_empty:
        if n_nl == 1 and rng.random() < 0.7:
            nlabels.append(0); n_nl = 2; empty_nl = 1      # a label of its own, so that the other nodes keep their values
        else:
            empty_nl = rng.randrange(n_nl); nlabels[empty_nl] = 0
        feats.append("empty_dom")
    n_nt = rng.randint(1, max_nt)
    n_t = rng.randint(1, 3)
    elabels = []
    for i in range(n_nt):
        ar = rng.choice([0, 0, 1, 1, 2]) if i > 0 else (0 if (start_arity0 or rng.random() > p_feature) else rng.choice([1, 2]))
        elabels.append(dict(term=False, type=[rng.randrange(n_nl) for _ in range(ar)]))
    if elabels[0]["type"]: feats.append("start_arity>0")
    for i in range(n_t):
        ar = rng.choice([0, 1, 1, 2, 2]) if rng.random() < 0.9 else 3
        elabels.append(dict(term=True, type=[rng.randrange(n_nl) for _ in range(ar)]))
    terms = list(range(n_nt, n_nt + n_t))
    rules = []
    for x in range(n_nt):
        nr = rng.randint(1, max_rules)
        if x > 0 and rng.random() < p_feature * 0.6:
            nr = 0; feats.append("ruleless_nt")
        for _ in range(nr):
            lt = elabels[x]["type"]
            nodes = []; ext = []
            for nl in lt:
                if dup_ext and ext and rng.random() < p_feature * 0.5 and any(nodes[e] == nl for e in ext):
                    ext.append(rng.choice([e for e in ext if nodes[e] == nl])); feats.append("dup_ext")
                else:
                    nodes.append(nl); ext.append(len(nodes) - 1)
            for _ in range(rng.randint(0, max(0, max_nodes - len(nodes)))):
                nodes.append(rng.randrange(n_nl))
            ne = rng.randint(0, max_edges)
            edges = []
            if recursive:
                cand_nt = list(range(n_nt))
            else:
                cand_nt = list(range(x + 1, n_nt))
            n_comp_edges = 0
            for _ in range(ne):
                use_nt = cand_nt and rng.random() < 0.4
                if use_nt and linear is True and n_comp_edges >= 1 and recursive:
                    use_nt = False
                el = rng.choice(cand_nt) if use_nt else rng.choice(terms)
                if use_nt: n_comp_edges += 1
                att = []
                ok = True
                for nl in elabels[el]["type"]:
                    cands = [i for i, l in enumerate(nodes) if l == nl]
                    if not cands:
                        if len(nodes) >= max_nodes + 1: ok = False; break
                        nodes.append(nl); cands = [len(nodes) - 1]
                    att.append(rng.choice(cands))
                if not ok: continue
                if len(set(att)) < len(att): feats.append("repeated_attachment")
                if not att and elabels[el]["term"]: feats.append("nullary_factor")
                edges.append((el, att))
            if empty_nl is not None and rng.random() < 0.5:
                nodes.append(empty_nl)                          # attached to no edge, not external
            used = {i for _, att in edges for i in att}
            for i in range(len(nodes)):
                if i not in used:
                    feats.append("isolated_ext" if i in ext else "isolated_int")
                    if nlabels[nodes[i]] == 0: feats.append("isolated_ext_empty" if i in ext else "isolated_int_empty")
                elif nlabels[nodes[i]] == 0:
                    feats.append("attached_empty")
            rules.append(dict(lhs=x, nodes=nodes, edges=edges, ext=ext))
    if recursive and linear is False and rules:
        # force genuinely non-linear recursion: some rule gets two edges labelled by its own lhs
        if not any(sum(1 for el, _ in r["edges"] if not elabels[el]["term"]) >= 2 for r in rules):
            r = rng.choice(rules)
            x = r["lhs"]
            for _ in range(2):
                att = []
                for nl in elabels[x]["type"]:
                    cands = [i for i, l in enumerate(r["nodes"]) if l == nl]
                    att.append(rng.choice(cands))
                r["edges"].append((x, att))
            # and a base rule so that the nonterminal is productive
            if not any(rr["lhs"] == x and all(elabels[el]["term"] for el, _ in rr["edges"]) for rr in rules):
                nodes = list(elabels[x]["type"])
                rules.append(dict(lhs=x, nodes=nodes, edges=[], ext=list(range(len(nodes)))))
    # reachability from start
    reach = {0}; todo = [0]
    while todo:
        x = todo.pop()
        for r in rules:
            if r["lhs"] == x:
                for el, _ in r["edges"]:
                    if not elabels[el]["term"] and el not in reach:
                        reach.add(el); todo.append(el)
    if len(reach) < n_nt: feats.append("unreachable_nt")
    weights = {}
    grid = REAL_GRID if allow_inf else REAL_GRID[:-1]
    gp = REAL_GRID_P if allow_inf else REAL_GRID_P[:-1]
    for el in terms:
        shape = [nlabels[nl] for nl in elabels[el]["type"]]
        weights[el] = nested(shape, lambda: rng.choices(grid, gp)[0])
        vs = list(flat(weights[el]))
        if any(v == 0 for v in vs): feats.append("zero_weight")
        if any(v == "inf" for v in vs): feats.append("inf_weight")
    return dict(nlabels=nlabels, elabels=elabels, start=0, rules=rules, weights=weights,
                features=sorted(set(feats)), recursive=recursive)

def spec_stats(spec):
    return dict(nt=sum(1 for e in spec["elabels"] if not e["term"]), rules=len(spec["rules"]),
                nodes=sum(len(r["nodes"]) for r in spec["rules"]), edges=sum(len(r["edges"]) for r in spec["rules"]),
                features=spec["features"])

def spec_jsonable(spec):
    s = dict(spec)
    s["weights"] = {str(k): nested_map(v, lambda x: x if x == "inf" else str(x)) for k, v in spec["weights"].items()}
    s["rules"] = [dict(r, edges=[[el, list(att)] for el, att in r["edges"]]) for r in spec["rules"]]
    return s

def spec_from_json(s):
    spec = dict(s)
    spec["weights"] = {int(k): nested_map(v, lambda x: x if x == "inf" else Fraction(x)) for k, v in s["weights"].items()}
    spec["rules"] = [dict(r, edges=[(el, list(att)) for el, att in r["edges"]]) for r in s["rules"]]
    return spec

# ----------------------------------------------------------------------------
# building fggs objects

def nl_name(i): return "N%d" % i
def el_name(spec, i): return ("t%d" if spec["elabels"][i]["term"] else "X%d") % i

class Built:
    """fggs objects built from a spec, with the index maps back to the spec"""
    pass

def build_hrg(spec, ids="explicit", rng=None, cls=None, rule_order=None, names=None):
    """ids: 'explicit' | 'implicit' | 'mixed'.  Returns Built with .hrg, .nls, .els, .rules (list of
    (HRGRule, [Node...], [Edge...]) in spec order)"""
    import fggs
    rng = rng or random.Random(0)
    names = names or {}
    b = Built()
    b.nls = [fggs.NodeLabel(names.get(("nl", i), nl_name(i))) for i in range(len(spec["nlabels"]))]
    b.els = []
    for i, e in enumerate(spec["elabels"]):
        b.els.append(fggs.EdgeLabel(names.get(("el", i), el_name(spec, i)), [b.nls[nl] for nl in e["type"]],
                                    is_terminal=e["term"], is_nonterminal=not e["term"]))
    cls = cls or fggs.HRG
    h = cls(b.els[spec["start"]])
    for nl in b.nls: h.add_node_label(nl)
    for el in b.els: h.add_edge_label(el)
    b.rules = []
    order = rule_order if rule_order is not None else list(range(len(spec["rules"])))
    built = {}
    for ri in order:
        r = spec["rules"][ri]
        g = fggs.Graph()
        def expl():
            return ids == "explicit" or (ids == "mixed" and rng.random() < 0.5)
        nodes = [fggs.Node(b.nls[nl], id=("n%d" % k) if expl() else None) for k, nl in enumerate(r["nodes"])]
        for n in nodes: g.add_node(n)
        edges = []
        for k, (el, att) in enumerate(r["edges"]):
            e = fggs.Edge(b.els[el], [nodes[i] for i in att], id=("e%d" % k) if expl() else None)
            g.add_edge(e); edges.append(e)
        g.ext = [nodes[i] for i in r["ext"]]
        rule = fggs.HRGRule(b.els[r["lhs"]], g)
        h.add_rule(rule)
        built[ri] = (rule, nodes, edges)
    b.rules = [built[i] for i in range(len(spec["rules"]))]
    b.hrg = h
    return b

def patternize(t, zero, rng):
    """a PatternedTensor denoting the dense tensor t with a sparse pattern where the values allow
    it: a square matrix whose off-diagonal entries all equal `zero` becomes a diagonal pattern
    (one shared physical axis); a tensor constant along its first axis becomes an expanded
    (stride-0) view; otherwise dense."""
    import torch
    from fggs.indices import PatternedTensor, PhysicalAxis
    if t.ndim == 2 and t.shape[0] == t.shape[1] and t.shape[0] >= 2:
        n = t.shape[0]
        off = t[~torch.eye(n, dtype=torch.bool)]
        if bool((off == zero).all()):
            k = PhysicalAxis(n)
            return PatternedTensor(torch.diagonal(t).clone(), (k,), (k, k), default=zero)
    if t.ndim >= 1 and t.shape[0] >= 2 and bool((t == t[0:1]).all()) and t.dtype != torch.bool:
        return PatternedTensor(t[0].clone()).unsqueeze(0).expand(*t.shape)
    return PatternedTensor(t)

def weight_tensor(spec, el, wconv, dtype=None):
    """the dense torch tensor of terminal el's weights; the shape is taken from the label's type (a nested
    list cannot express a shape with a 0 before the last axis)"""
    import torch
    shape = [spec["nlabels"][nl] for nl in spec["elabels"][el]["type"]]
    vals = [wconv(v) for v in flat(spec["weights"][el])]
    t = torch.tensor(vals, dtype=dtype) if (dtype is not None or vals) else torch.tensor(vals)
    if dtype is None and not vals: t = torch.zeros(0)
    return t.reshape(shape)

def build_fgg(spec, wconv, ids="explicit", rng=None, rule_order=None, names=None, dtype=None, patterned=False, stage=None):
    """wconv: value (Fraction | 'inf') -> python float/bool for the semiring at hand.
    patterned: True = give factors sparse PatternedTensor weights where their values allow it;
    "zero_default" = dense PatternedTensor weights whose default is the semiring zero wconv(0).
    stage: None, or a callable(fgg) invoked after only a prefix of the rules has been added
    (the remaining rules are added afterwards): exercises caches keyed on the grammar object."""
    import fggs, torch
    if stage is not None and len(spec["rules"]) >= 2:
        cut = (rng or random.Random(0)).randint(1, len(spec["rules"]) - 1)
        part = dict(spec, rules=spec["rules"][:cut])
        b = build_hrg(part, ids=ids, rng=rng, cls=fggs.FGG, names=names)
        rest = list(range(cut, len(spec["rules"])))
    else:
        b = build_hrg(spec, ids=ids, rng=rng, cls=fggs.FGG, rule_order=rule_order, names=names)
        rest = []
    g = b.hrg
    for i, size in enumerate(spec["nlabels"]):
        g.add_domain(b.nls[i], fggs.FiniteDomain(["v%d_%d" % (i, k) for k in range(size)]))
    b.factors = {}
    for el, w in spec["weights"].items():
        t = weight_tensor(spec, el, wconv, dtype)
        doms = [g.domains[b.nls[nl].name] for nl in spec["elabels"][el]["type"]]
        if patterned == "zero_default":
            # dense storage whose default already is the semiring's zero (what PatternedTensor.log() produces):
            # einsum keeps such an operand as it is, PhysicalAxes included, instead of re-densifying it
            from fggs.indices import PatternedTensor
            t = PatternedTensor(t, default=wconv(Fraction(0)))
        elif patterned:
            t = patternize(t, wconv(Fraction(0)), rng)
        fac = fggs.FiniteFactor(doms, t)
        g.add_factor(b.els[el], fac)
        b.factors[el] = fac
    b.fgg = g
    if rest:
        try:
            stage(g)
        except Exception:
            pass
        # now add the remaining rules to the same object
        erng = rng or random.Random(0)
        for ri in rest:
            r = spec["rules"][ri]
            gr = fggs.Graph()
            nodes = [fggs.Node(b.nls[nl], id=("n%d" % k) if ids == "explicit" else None) for k, nl in enumerate(r["nodes"])]
            for nd in nodes: gr.add_node(nd)
            edges = []
            for k, (el, att) in enumerate(r["edges"]):
                e = fggs.Edge(b.els[el], [nodes[i] for i in att], id=("e%d" % k) if ids == "explicit" else None)
                gr.add_edge(e); edges.append(e)
            gr.ext = [nodes[i] for i in r["ext"]]
            rule = fggs.HRGRule(b.els[r["lhs"]], gr)
            g.add_rule(rule)
            b.rules.append((rule, nodes, edges))
    return b

def chain_spec(rng, n_nt=None, dom=None):
    """mutually recursive chain A1 -> A2 -> ... -> An -> A1 over one node label: each Ai(u) ->
    step_i(u,v) A_{i+1}(v); A1(u) -> stop(u).  The best derivation is deep: stop is good only in
    one state that is reached after several steps.  Start S -> init(u) A1(u)."""
    n_nt = n_nt or rng.randint(2, 3)
    d = dom or rng.randint(2, 3)
    nlabels = [d]
    elabels = [dict(term=False, type=[])] + [dict(term=False, type=[0]) for _ in range(n_nt)]
    t_init = len(elabels); elabels.append(dict(term=True, type=[0]))
    t_stop = len(elabels); elabels.append(dict(term=True, type=[0]))
    steps = []
    for i in range(n_nt):
        steps.append(len(elabels)); elabels.append(dict(term=True, type=[0, 0]))
    rules = [dict(lhs=0, nodes=[0], edges=[(t_init, [0]), (1, [0])], ext=[])]
    for i in range(n_nt):
        nxt = 1 + (i + 1) % n_nt
        rules.append(dict(lhs=1 + i, nodes=[0, 0], edges=[(steps[i], [0, 1]), (nxt, [1])], ext=[0]))
    stop_rule = dict(lhs=1, nodes=[0], edges=[(t_stop, [0])], ext=[0])
    rules.insert(rng.randint(1, len(rules)), stop_rule)
    good = rng.randrange(d)
    half, quarter, one, zero = Fraction(1, 2), Fraction(1, 4), Fraction(1), Fraction(0)
    weights = {t_init: [one if u == (good + 1) % d else quarter for u in range(d)],
               t_stop: [one if u == good else (zero if rng.random() < 0.5 else quarter) for u in range(d)]}
    for i in range(n_nt):
        # a cyclic shift with weight 1 (log-weight 0) so that walking around the chain is free
        weights[steps[i]] = [[one if v == (u + 1) % d else (quarter if rng.random() < 0.5 else zero) for v in range(d)] for u in range(d)]
    return dict(nlabels=nlabels, elabels=elabels, start=0, rules=rules, weights=weights, features=["chain"], recursive=True)

def random_hrg(rng):
    spec = random_spec(rng, recursive=rng.random() < 0.6)
    b = build_hrg(spec, ids=rng.choice(["explicit", "implicit", "mixed"]), rng=rng)
    return b.hrg, spec_jsonable(spec)

# ----------------------------------------------------------------------------
# presentations (C12): the same grammar written down differently

def _perm(rng, n):
    p = list(range(n)); rng.shuffle(p); return p

def _index_nested(w, idx):
    for i in idx: w = w[i]
    return w

def present(spec, rng):
    """Returns (spec2, names, back): spec2 is `spec` with rules, nodes, edges reordered, label
    indices permuted (=> different insertion order of the label tables), domain values permuted
    together with the factor axes; names = random label names; back(out2) maps observations
    {label index in spec2: flat row-major list} to the canonical spec's indexing."""
    n_nl, n_el = len(spec["nlabels"]), len(spec["elabels"])
    pnl = _perm(rng, n_nl)          # canonical nl -> new nl index
    pel = _perm(rng, n_el)
    # keep the start symbol's index free to move as well
    rho = [_perm(rng, s) for s in spec["nlabels"]]   # per canonical node label: canonical value -> new value
    inv_nl = [0] * n_nl
    for a, b in enumerate(pnl): inv_nl[b] = a
    inv_el = [0] * n_el
    for a, b in enumerate(pel): inv_el[b] = a
    nlabels2 = [spec["nlabels"][inv_nl[j]] for j in range(n_nl)]
    elabels2 = [dict(term=spec["elabels"][inv_el[j]]["term"], type=[pnl[nl] for nl in spec["elabels"][inv_el[j]]["type"]]) for j in range(n_el)]
    rules2 = []
    for r in spec["rules"]:
        sig = _perm(rng, len(r["nodes"]))      # old node position -> new position
        nodes2 = [None] * len(sig)
        for old, new in enumerate(sig): nodes2[new] = pnl[r["nodes"][old]]
        edges2 = [(pel[el], [sig[i] for i in att]) for el, att in r["edges"]]
        rng.shuffle(edges2)
        rules2.append(dict(lhs=pel[r["lhs"]], nodes=nodes2, edges=edges2, ext=[sig[i] for i in r["ext"]]))
    rng.shuffle(rules2)
    weights2 = {}
    for el, w in spec["weights"].items():
        typ = spec["elabels"][el]["type"]
        shape = [spec["nlabels"][nl] for nl in typ]
        inv_rho = []
        for nl in typ:
            inv = [0] * len(rho[nl])
            for a, b in enumerate(rho[nl]): inv[b] = a
            inv_rho.append(inv)
        def build(prefix, d):
            if d == len(shape):
                return _index_nested(w, [inv_rho[k][prefix[k]] for k in range(len(shape))])
            return [build(prefix + [i], d + 1) for i in range(shape[d])]
        weights2[pel[el]] = build([], 0)
    spec2 = dict(nlabels=nlabels2, elabels=elabels2, start=pel[spec["start"]], rules=rules2, weights=weights2,
                 features=spec["features"], recursive=spec.get("recursive", False))
    alphabet = "abcdefghijklmnopqrstuvwxyzABCDEFGH"
    used = set(); names = {}
    for kind, n in (("nl", n_nl), ("el", n_el)):
        for j in range(n):
            while True:
                s = "".join(rng.choice(alphabet) for _ in range(rng.randint(1, 6)))
                if s not in used: break
            used.add(s); names[(kind, j)] = s
    perm = dict(pnl=pnl, pel=pel, rho=rho)
    back = make_back(spec, perm)
    back.perm = perm
    return spec2, names, back

def make_back(spec, perm):
    import itertools
    pnl, pel, rho = perm["pnl"], perm["pel"], perm["rho"]
    n_el = len(spec["elabels"])
    def back(out2):
        out = {}
        for el in range(n_el):
            if spec["elabels"][el]["term"]: continue
            if pel[el] not in out2: continue
            typ = spec["elabels"][el]["type"]
            shape = [spec["nlabels"][nl] for nl in typ]
            flat2 = out2[pel[el]]
            vals = []
            for xi in itertools.product(*[range(s) for s in shape]):
                xi2 = [rho[nl][v] for nl, v in zip(typ, xi)]
                pos = 0
                for s, v in zip(shape, xi2): pos = pos * s + v
                vals.append(flat2[pos])
            out[el] = vals
        return out
    return back

def pattern_chain_spec(rng, dom=None):
    """S -> init(a) X(a,b) final(b);  X(a,b) -> eq(a,b) | T(a,c) X(c,b)  with eq the identity
    matrix (a diagonal PatternedTensor when built with patterned=True) and T dense: the sparsity
    pattern of X's value changes from diagonal to dense during the iteration."""
    d = dom or rng.randint(2, 3)
    one, zero = Fraction(1), Fraction(0)
    elabels = [dict(term=False, type=[]), dict(term=False, type=[0, 0]),
               dict(term=True, type=[0]), dict(term=True, type=[0]), dict(term=True, type=[0, 0]), dict(term=True, type=[0, 0])]
    INIT, FINAL, EQ, T = 2, 3, 4, 5
    rules = [dict(lhs=0, nodes=[0, 0], edges=[(INIT, [0]), (1, [0, 1]), (FINAL, [1])], ext=[]),
             dict(lhs=1, nodes=[0, 0], edges=[(EQ, [0, 1])], ext=[0, 1]),
             dict(lhs=1, nodes=[0, 0, 0], edges=[(T, [0, 2]), (1, [2, 1])], ext=[0, 1])]
    if rng.random() < 0.5: rules[1], rules[2] = rules[2], rules[1]
    vals = [Fraction(1, 4), Fraction(1, 2), Fraction(1), zero]
    weights = {INIT: [rng.choice(vals[:3]) for _ in range(d)], FINAL: [rng.choice(vals[:3]) for _ in range(d)],
               EQ: [[one if i == j else zero for j in range(d)] for i in range(d)],
               T: [[rng.choice(vals) for _ in range(d)] for _ in range(d)]}
    return dict(nlabels=[d], elabels=elabels, start=0, rules=rules, weights=weights, features=["pattern_chain"], recursive=True)

LAYER_GRID = [Fraction(1, 2), Fraction(1), Fraction(2), Fraction(3), Fraction(1, 4), Fraction(0)]
LAYER_GRID_P = [0.22, 0.2, 0.2, 0.15, 0.15, 0.08]

def layered_spec(rng, max_dom=3, p_empty=0.0):
    """Non-recursive grammars in which the VALUE of a nonterminal is an einsum result over the very weight
    tensors that its parents use again: few terminal labels reused on every level; mid-level nonterminals
    of arity 1-3 with (mostly) a single rule all of whose nodes are attached (so their value is handed on
    as one einsum output, storage axes included); parents that mix terminals and nonterminals in random
    edge order, the same label possibly several times.  Mostly non-zero weights, domain sizes >= 2 mostly,
    so that an index identified with another one or summed twice changes the value."""
    feats = ["layered"]
    n_nl = rng.choice([1, 1, 2])
    nlabels = [min(rng.choice([2, 2, 3, 3, 1]), max_dom) for _ in range(n_nl)]
    empty_nl = None
    if p_empty and rng.random() < p_empty:
        nlabels.append(0); empty_nl = n_nl; n_nl += 1; feats.append("empty_dom")
    live = [i for i in range(n_nl) if i != empty_nl]
    n_mid = rng.randint(1, 3)
    elabels = [dict(term=False, type=[rng.choice(live) for _ in range(rng.choice([0, 0, 1, 1, 2]))])]
    for _ in range(n_mid):
        elabels.append(dict(term=False, type=[rng.choice(live) for _ in range(rng.choice([1, 2, 2, 2, 3]))]))
    n_nt = 1 + n_mid
    unary = {}
    for nl in live:                                   # one unary terminal per label, so that every node can be covered
        unary[nl] = len(elabels); elabels.append(dict(term=True, type=[nl]))
    for _ in range(rng.randint(1, 2)):
        elabels.append(dict(term=True, type=[rng.choice(live) for _ in range(rng.choice([1, 1, 2]))]))
    terms = [i for i, e in enumerate(elabels) if e["term"]]
    def attach(nodes, el, fresh_ok):
        att = []
        for nl in elabels[el]["type"]:
            cands = [i for i, l in enumerate(nodes) if l == nl]
            if not cands or (fresh_ok and len(nodes) < 6 and rng.random() < 0.35):
                nodes.append(nl); cands = [len(nodes) - 1]
            unused = [i for i in cands if i not in att]
            att.append(rng.choice(unused if unused and rng.random() < 0.85 else cands))
        return att
    rules = []
    for x in range(n_nt):
        mid = x > 0
        for _ in range(1 if (mid and rng.random() < 0.85) else rng.randint(1, 2)):
            nodes = list(elabels[x]["type"]); ext = list(range(len(nodes)))
            edges = []
            lower = list(range(max(x + 1, 1), n_nt))
            for _ in range(rng.randint(1, 3) if mid else rng.randint(2, 4)):
                el = rng.choice(lower) if (lower and rng.random() < (0.25 if mid else 0.55)) else rng.choice(terms)
                edges.append((el, attach(nodes, el, fresh_ok=True)))
            used = {i for _, att in edges for i in att}
            if rng.random() < (0.9 if mid else 0.6):  # cover the remaining nodes: no disconnected node in this rule
                for i in range(len(nodes)):
                    if i not in used:
                        edges.insert(rng.randint(0, len(edges)), (unary[nodes[i]], [i]))
            if empty_nl is not None and rng.random() < 0.4:
                nodes.append(empty_nl)
            used = {i for _, att in edges for i in att}
            for i in range(len(nodes)):
                if i not in used:
                    feats.append("isolated_ext" if i in ext else "isolated_int")
                    if nlabels[nodes[i]] == 0: feats.append("isolated_int_empty")
            if any(len(set(att)) < len(att) for _, att in edges): feats.append("repeated_attachment")
            rules.append(dict(lhs=x, nodes=nodes, edges=edges, ext=ext))
    # feature: some rule has a terminal edge followed (in edge order) by a nonterminal of arity >= 2 whose single
    # rule uses the same terminal
    for r in rules:
        seen_t = set()
        for el, att in r["edges"]:
            if elabels[el]["term"]: seen_t.add(el); continue
            rs = rules_of(rules, el)
            if len(elabels[el]["type"]) >= 2 and len(rs) == 1 and any(t in seen_t for t, _ in rs[0]["edges"]):
                feats.append("terminal_then_nt_sharing_it")
    weights = {}
    for el in terms:
        shape = [nlabels[nl] for nl in elabels[el]["type"]]
        weights[el] = nested(shape, lambda: rng.choices(LAYER_GRID, LAYER_GRID_P)[0])
        if any(v == 0 for v in flat(weights[el])): feats.append("zero_weight")
    return dict(nlabels=nlabels, elabels=elabels, start=0, rules=rules, weights=weights,
                features=sorted(set(feats)), recursive=False)

def rules_of(rules, x):
    return [r for r in rules if r["lhs"] == x]

LINSYS_VALS = [Fraction(0), Fraction(1, 4), Fraction(1, 2), Fraction(1)]

def linear_system_spec(rng, nonlinear=False, max_flat=9):
    """A linearly recursive system of k in {2,3} nonterminals, most of them NON-scalar (arity 1 or 2
    over domains of size 1..3, possibly different node labels => rectangular Jacobian blocks):

        S      -> init(u) Xa(u)                       (one or two such rules)
        Xi(u)  -> T(u,v) Xj(v) [q(v)]                 dense block with exact zeros next to non-zeros
        Xi(u)  -> D(u) Xj(u)                          diagonal block (same type only)
        Xi(a,b)-> T(a,c) Xj(c,b)                      arity 2: block = T (x) I
        Xi(u)  -> p(u)                                base rules, some cells exactly zero

    for a random set of ordered pairs (i,j) -- self-loops (diagonal blocks J[i,i]) on a random subset,
    usually a cycle through all Xi (one SCC eliminated block by block by multi_solve: a[x,z] :=
    a[x,z] a[z,z]* is a solve with a MATRIX right-hand side), otherwise a block-triangular system
    (several SCCs).  Pairs may get two rules (blocks accumulate).  Rule order and the positions of the
    nonterminals are shuffled so that every elimination order occurs.  Weights are in {0, 1/4, 1/2,
    1}, about 45% exact zeros, whole zero rows/columns/blocks included.
    nonlinear=True adds one rule Xi -> Xj Xk c with two component edges (for the Newton stream)."""
    functional = rng.random() < 0.5
    n_nl = rng.choice([1, 1, 2])
    nlabels = [rng.choice([2, 3, 3] if functional else [1, 2, 2, 2, 3]) for _ in range(n_nl)]
    if max(nlabels) < 2: nlabels[0] = 2
    k = rng.choice([2, 2, 3])
    big = [i for i, s in enumerate(nlabels) if s >= 2]
    types = []
    for i in range(k):
        r = rng.random()
        if i < 2 or r < 0.6:
            types.append([rng.choice(big)] if i < 2 else [rng.randrange(n_nl)])    # the first two are non-scalar
        elif r < 0.8:
            types.append([])
        else:
            types.append([rng.randrange(n_nl), rng.randrange(n_nl)])
    if rng.random() < 0.25:
        nl = rng.choice(big)
        if nlabels[nl] == 2: types[rng.randrange(2)] = [nl, nl]
    def size(t):
        n = 1
        for nl in t: n *= nlabels[nl]
        return n
    while sum(size(t) for t in types) > max_flat:
        i = max(range(k), key=lambda i: size(types[i])); types[i] = types[i][:-1]
    pos = list(range(1, k + 1)); rng.shuffle(pos)           # Xi is edge label pos[i]
    elabels = [None] * (k + 1)
    elabels[0] = dict(term=False, type=[])
    for i in range(k): elabels[pos[i]] = dict(term=False, type=list(types[i]))
    weights = {}; feats = set(["linsys"])
    p_zero = rng.choice([0.3, 0.5, 0.65, 0.8])
    def val(): return Fraction(0) if rng.random() < p_zero else rng.choice(LINSYS_VALS[1:])
    def rows(shape): return nested(shape, val)
    def new_term(ty, w=None):
        elabels.append(dict(term=True, type=list(ty)))
        el = len(elabels) - 1
        weights[el] = w if w is not None else rows([nlabels[nl] for nl in ty])
        return el
    def mixed(w):
        vs = list(flat(w)); return any(v == 0 for v in vs) and any(v != 0 for v in vs)
    rules = []
    # which ordered pairs get a rule
    pairs = []
    if rng.random() < 0.75:
        cyc = list(range(k)); rng.shuffle(cyc)
        pairs += [(cyc[i], cyc[(i + 1) % k]) for i in range(k)]
        feats.add("linsys:one_scc")
    for i in range(k):
        if rng.random() < 0.65: pairs.append((i, i))
        for j in range(k):
            if i != j and rng.random() < 0.35: pairs.append((i, j))
    pairs = sorted(set(pairs))
    pairs += [p for p in pairs if rng.random() < 0.2]       # a second rule for the same block
    blockw = {}; basew = {}
    if functional:
        # a (nearly) functional transition graph on the states (i, cell): every state has ONE successor state or
        # terminates, so derivations are unique and every lost Jacobian entry shows in Bool and Viterbi as well
        feats.add("linsys:functional")
        import itertools
        cells = {i: list(itertools.product(*[range(nlabels[nl]) for nl in types[i]])) for i in range(k)}
        states = [(i, c) for i in range(k) for c in cells[i]]
        def zeros(t): return nested([nlabels[nl] for nl in t], lambda: Fraction(0))
        def put(w, idx, v):
            for a in idx[:-1]: w = w[a]
            w[idx[-1]] = v
        def entry(i, j, c, c2):
            if (i, j) not in blockw: blockw[(i, j)] = zeros(types[i] + types[j])
            if types[i] + types[j]: put(blockw[(i, j)], c + c2, rng.choice(LINSYS_VALS[1:]))
            else: blockw[(i, j)] = rng.choice(LINSYS_VALS[1:])
        for (i, j) in sorted(set(pairs)):
            if i == j:
                # walking inside Xi: a partial permutation of its cells (off-diagonal entries of the diagonal block)
                perm = list(cells[i]); rng.shuffle(perm)
                for c, c2 in zip(cells[i], perm):
                    if rng.random() < 0.8: entry(i, i, c, c2)
            else:
                # entering Xj from Xi: one or two entry points
                for _ in range(rng.choice([1, 1, 2])): entry(i, j, rng.choice(cells[i]), rng.choice(cells[j]))
        for _ in range(rng.choice([1, 1, 2])):
            (i, c) = rng.choice(states)
            if i not in basew: basew[i] = zeros(types[i])
            if types[i]: put(basew[i], c, rng.choice(LINSYS_VALS[1:]))
            else: basew[i] = rng.choice(LINSYS_VALS[1:])
        pairs = sorted(blockw)
    n_self = 0
    for (i, j) in pairs:
        ti, tj = types[i], types[j]
        r = rng.random()
        if functional:
            t = new_term(ti + tj, blockw[(i, j)])
            nodes = list(ti) + list(tj)
            edges = [(t, list(range(len(nodes)))), (pos[j], list(range(len(ti), len(nodes))))]
            rng.shuffle(edges)
            rules.append(dict(lhs=pos[i], nodes=nodes, edges=edges, ext=list(range(len(ti)))))
            if mixed(weights[t]) and len(ti) >= 1 and len(tj) >= 1: feats.add("linsys:mixed_zero_block")
        elif ti == tj and len(ti) == 1 and r < 0.25:
            d = new_term(ti)                                   # Xi(u) -> D(u) Xj(u)
            rules.append(dict(lhs=pos[i], nodes=list(ti), edges=[(d, [0]), (pos[j], [0])], ext=[0]))
            feats.add("linsys:diag_block")
        elif len(ti) == 2 and len(tj) == 2 and ti[1] == tj[1]:
            t = new_term([ti[0], tj[0]])                       # Xi(a,b) -> T(a,c) Xj(c,b)
            rules.append(dict(lhs=pos[i], nodes=[ti[0], ti[1], tj[0]], edges=[(t, [0, 2]), (pos[j], [2, 1])], ext=[0, 1]))
            feats.add("linsys:arity2_block")
        else:
            t = new_term(ti + tj)                              # Xi(u..) -> T(u.., v..) Xj(v..)
            nodes = list(ti) + list(tj)
            edges = [(t, list(range(len(nodes)))), (pos[j], list(range(len(ti), len(nodes))))]
            if tj and rng.random() < 0.2:
                edges.append((new_term([tj[0]]), [len(ti)]))
            rng.shuffle(edges)
            rules.append(dict(lhs=pos[i], nodes=nodes, edges=edges, ext=list(range(len(ti)))))
            if mixed(weights[t]) and len(ti) >= 1 and len(tj) >= 1: feats.add("linsys:mixed_zero_block")
        if i == j: n_self += 1
    if n_self: feats.add("linsys:self_loop")
    base = sorted(basew) if functional else ([i for i in range(k) if rng.random() < 0.6] or [rng.randrange(k)])
    for i in base:
        p = new_term(types[i], basew.get(i))
        rules.append(dict(lhs=pos[i], nodes=list(types[i]), edges=[(p, list(range(len(types[i]))))], ext=list(range(len(types[i])))))
    if nonlinear:
        i, j, l = rng.randrange(k), rng.randrange(k), rng.randrange(k)
        nodes = list(types[i]) + list(types[j]) + list(types[l])
        a, b = len(types[i]), len(types[i]) + len(types[j])
        c = new_term(nodes, nested([nlabels[nl] for nl in nodes], lambda: rng.choice([Fraction(0), Fraction(1, 4), Fraction(1, 2)])))
        rules.append(dict(lhs=pos[i], nodes=nodes, edges=[(pos[j], list(range(a, b))), (pos[l], list(range(b, len(nodes)))), (c, list(range(len(nodes))))],
                          ext=list(range(a))))
        feats.add("linsys:nonlinear_rule")
    rng.shuffle(rules)
    for a in rng.sample(range(k), rng.choice([1, 1, 2])):      # S -> init(u..) Xa(u..)
        init = new_term(types[a])
        n = len(types[a])
        rules.insert(rng.randint(0, len(rules)), dict(lhs=0, nodes=list(types[a]), edges=[(init, list(range(n))), (pos[a], list(range(n)))], ext=[]))
    if 1 in nlabels: feats.add("linsys:size1_domain")
    if any(t == [] for t in types): feats.add("linsys:scalar_member")
    if len({tuple(t) for t in types}) > 1: feats.add("linsys:rectangular_blocks")
    return dict(nlabels=nlabels, elabels=elabels, start=0, rules=rules, weights=weights, features=sorted(feats), recursive=True)

# ---- magnitudes: weights at the top and bottom of the floating-point range in terms that a zero annihilates ----
MAG_E = 100                                  # unit exponent of the spec's extreme weights 2^(+-e), e in MAG_EXPS
MAG_EXPS = [100, 110, 120]                   # float32 reading: 2^100 .. 2^120 (two of them overflow, two 2^-e underflow)

def mag_exponent(v):
    """e if the spec value v is an EXTREME weight 2^e (|e| >= MAG_E/2) of the magnitude stream, else None"""
    if v == "inf" or v == 0: return None
    v = Fraction(v)
    n, d = v.numerator, v.denominator
    if d == 1 and n > 1 and n & (n - 1) == 0 and n.bit_length() - 1 >= MAG_E // 2: return n.bit_length() - 1
    if n == 1 and d > 1 and d & (d - 1) == 0 and d.bit_length() - 1 >= MAG_E // 2: return -(d.bit_length() - 1)
    return None

def _nested_idx(shape, f, prefix=()):
    if not shape: return f(prefix)
    return [_nested_idx(shape[1:], f, prefix + (i,)) for i in range(shape[0])]

def magnitude_spec(rng, p_inf=0.03):
    """Non-recursive grammars whose EXACT sum-product is moderate although partial products overflow / underflow.
    Every node label has a set of HOT values (non-empty for label 0).  An entry of a terminal's weight tensor is
    hot if one of its indices is hot.  Terminals are KILLERS (hot entries 0, the others moderate and mostly
    non-zero) or EXTREME (hot entries drawn from 2^(+-e), e in MAG_EXPS -- finite, but two of them leave the
    float range in either direction -- and occasionally 0 / a moderate value / literal inf; the others moderate).
    In every rule every node is attached to a killer: a killer terminal or a nonterminal edge (whose value is 0 on
    hot entries by induction: the node is external in the child's rules and attached to a killer there).  Hence
    every term (assignment) with a hot value contains a zero factor and is worth exactly 0 by the definition
    (0 x anything = 0; theorem C01_rule_val_annihilated_terms), and the other terms only contain moderate weights.
    Rules have 2-4 extreme / nonterminal edges on few nodes (>= 3 factors on a node is the normal case) and the
    edges are in RANDOM order, so the zero comes before, between or after the factors whose product leaves the
    range."""
    feats = ["magnitude"]
    n_nl = rng.choice([1, 1, 2])
    nlabels = [rng.choice([2, 2, 3]) for _ in range(n_nl)]
    hot = []
    for i, d in enumerate(nlabels):
        k = rng.randint(1, d - 1) if (i == 0 or rng.random() < 0.6) else 0
        hot.append(set(rng.sample(range(d), k)))
    n_mid = rng.choice([0, 1, 1, 2])
    elabels = [dict(term=False, type=[rng.randrange(n_nl) for _ in range(rng.choice([0, 0, 0, 1]))])]
    for _ in range(n_mid):
        elabels.append(dict(term=False, type=[rng.randrange(n_nl) for _ in range(rng.choice([1, 1, 2]))]))
    n_nt = 1 + n_mid
    killer = {}
    for nl in range(n_nl):
        killer[nl] = len(elabels); elabels.append(dict(term=True, type=[nl]))
    kill2 = None
    if rng.random() < 0.4:
        kill2 = len(elabels); elabels.append(dict(term=True, type=[rng.randrange(n_nl) for _ in range(2)]))
    killers = set(killer.values()) | ({kill2} if kill2 is not None else set())
    extreme = []
    for _ in range(rng.randint(2, 3)):
        extreme.append(len(elabels)); elabels.append(dict(term=True, type=[0] + [rng.randrange(n_nl) for _ in range(rng.choice([0, 0, 1]))]))
        if rng.random() < 0.5: elabels[-1]["type"].reverse()
    def attach(nodes, el):
        att = []
        for nl in elabels[el]["type"]:
            cands = [i for i, l in enumerate(nodes) if l == nl]
            if not cands or (len(nodes) < 3 and rng.random() < 0.2):
                nodes.append(nl); cands = [len(nodes) - 1]
            unused = [i for i in cands if i not in att]
            att.append(rng.choice(unused if unused and rng.random() < 0.85 else cands))
        return att
    rules = []
    for x in range(n_nt):
        for _ in range(1 if rng.random() < 0.75 else 2):
            nodes = list(elabels[x]["type"]); ext = list(range(len(nodes)))
            edges = []
            lower = list(range(x + 1, n_nt))
            for _ in range(rng.randint(2, 4)):
                el = rng.choice(lower) if (lower and rng.random() < 0.3) else rng.choice(extreme)
                edges.append((el, attach(nodes, el)))
            if kill2 is not None and rng.random() < 0.5:
                edges.append((kill2, attach(nodes, kill2)))
            covered = {i for el, att in edges if (not elabels[el]["term"] or el == kill2) for i in att}
            for i in range(len(nodes)):
                if i not in covered: edges.append((killer[nodes[i]], [i]))
            rng.shuffle(edges)
            if any(len(set(att)) < len(att) for _, att in edges): feats.append("repeated_attachment")
            rules.append(dict(lhs=x, nodes=nodes, edges=edges, ext=ext))
    def is_hot(idx, el):
        return any(i in hot[nl] for i, nl in zip(idx, elabels[el]["type"]))
    def moderate(p_zero):
        return Fraction(0) if rng.random() < p_zero else rng.choice(LAYER_GRID[:5])
    def extreme_value():
        u = rng.random()
        if u < p_inf: return "inf"
        if u < 0.50: return Fraction(2) ** rng.choice(MAG_EXPS)
        if u < 0.78: return Fraction(1, 2 ** rng.choice(MAG_EXPS))
        if u < 0.86: return Fraction(0)
        return moderate(0)
    weights = {}
    for el, e in enumerate(elabels):
        if not e["term"]: continue
        shape = [nlabels[nl] for nl in e["type"]]
        def entry(idx, el=el):
            if is_hot(idx, el): return Fraction(0) if el in killers else extreme_value()
            return moderate(0.08)
        weights[el] = _nested_idx(shape, entry)
    for r in rules:
        # features: two factors of one rule with extreme entries of the same sign, and where the zeros stand
        pos = {}
        for k, (el, att) in enumerate(r["edges"]):
            if el in extreme:
                for v in flat(weights[el]):
                    e = mag_exponent(v)
                    if e is not None: pos.setdefault(e > 0, set()).add(k)
        kz = [k for k, (el, _) in enumerate(r["edges"]) if el in killers or not elabels[el]["term"]]
        for up, ks in pos.items():
            ks = sorted(ks)
            if len(ks) >= 2:
                name = "overflow" if up else "underflow"
                feats.append(name + "_pair")
                if kz and max(kz) > ks[1]: feats.append(name + "_then_zero")
                if kz and min(kz) < ks[0]: feats.append("zero_then_" + name)
    if any(v == "inf" for w in weights.values() for v in flat(w)): feats.append("inf_weight")
    return dict(nlabels=nlabels, elabels=elabels, start=0, rules=rules, weights=weights, hot=[sorted(h) for h in hot],
                features=sorted(set(feats)), recursive=False)

def magnitude_killed(spec):
    """self-check of the generator's invariant: in every rule every node whose label has hot values is attached
    to a killer terminal (all hot entries 0) or to a nonterminal edge"""
    hot = [set(h) for h in spec["hot"]]
    def is_killer(el):
        ty = spec["elabels"][el]["type"]
        shape = [spec["nlabels"][nl] for nl in ty]
        return all(v == 0 for idx, v in zip(itertools.product(*[range(s) for s in shape]), flat(spec["weights"][el]))
                   if any(i in hot[nl] for i, nl in zip(idx, ty)))
    for r in spec["rules"]:
        cov = {i for el, att in r["edges"] if (not spec["elabels"][el]["term"] or is_killer(el)) for i in att}
        if any(hot[nl] and i not in cov for i, nl in enumerate(r["nodes"])): return False
    return True
