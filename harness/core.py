"""Shared machinery of the /verif checks.

 * Ty descriptors: render one Python value three ways -- Coq term text (for the
   in-kernel vm_compute run), s-expression text (for the extracted OCaml
   driver) and an OCaml decoder expression (used by bin/setup to generate the
   driver glue).
 * model runners: run_coq (coqc + vm_compute) and run_ocaml (extracted code).
 * evidence / replay / known-findings / VIOLATION plumbing.

Every model-side "check function" has the Coq type  T -> nat  for one
descriptor T; the nat is a verdict code: 0 = the implementation's observation
agrees with the model and every verified oracle accepts it; other codes are
listed per property (by convention 1..9 = a verified oracle rejects the
implementation's output, i.e. a concrete failing input; 10.. = model and
implementation differ although no oracle rejects).
"""
from __future__ import annotations
import os, sys, json, time, hashlib, subprocess, re, random, shutil, fcntl
from fractions import Fraction

VERIF = os.path.dirname(os.path.dirname(os.path.abspath(__file__)))
REPO = os.environ.get("FGGS_REPO", "/repo")
COQDIR = os.path.join(VERIF, "coq")
BUILD = os.path.join(VERIF, "build")
# evidence is committed only from runs against /repo; runs against another tree (seeded changes) write elsewhere
EVID = os.path.join(VERIF, "evidence") if REPO == "/repo" else os.path.join(BUILD, "evidence-other-tree")
REPLAYS = os.path.join(VERIF, "replays") if REPO == "/repo" else os.path.join(BUILD, "replays-other-tree")
DRIVER = os.path.join(BUILD, "ocaml", "driver.exe")

# ----------------------------------------------------------------------------
# type descriptors

def _bits(n: int) -> str:
    assert n >= 0
    return "b" + bin(n)[2:]

class Ty:
    def coq(self, v) -> str: raise NotImplementedError
    def sexp(self, v) -> str: raise NotImplementedError
    def dec(self) -> str: raise NotImplementedError       # OCaml decoder expr
    def coqty(self) -> str: raise NotImplementedError

class _Nat(Ty):
    def coq(self, v):
        assert isinstance(v, int) and 0 <= v < 5000, v
        return "%d%%nat" % v
    def sexp(self, v): return str(int(v))
    def dec(self): return "d_nat"
    def coqty(self): return "nat"
Nat = _Nat()

class _N(Ty):
    def coq(self, v):
        assert isinstance(v, int) and v >= 0
        return "%d%%N" % v
    def sexp(self, v): return _bits(v)
    def dec(self): return "d_n"
    def coqty(self): return "N"
NN = _N()

class _Pos(Ty):
    def coq(self, v):
        assert isinstance(v, int) and v >= 1
        return "%d%%positive" % v
    def sexp(self, v): return _bits(v)
    def dec(self): return "d_pos"
    def coqty(self): return "positive"
Pos = _Pos()

class _Z(Ty):
    def coq(self, v):
        assert isinstance(v, int)
        return "(%d)%%Z" % v
    def sexp(self, v): return ("-" if v < 0 else "") + _bits(abs(v))
    def dec(self): return "d_z"
    def coqty(self): return "Z"
ZZ = _Z()

class _Bool(Ty):
    def coq(self, v): return "true" if v else "false"
    def sexp(self, v): return "T" if v else "F"
    def dec(self): return "d_bool"
    def coqty(self): return "bool"
Bool = _Bool()

class _Q(Ty):
    """exact rational; Python side: Fraction (or int)"""
    def coq(self, v):
        v = Fraction(v)
        return "(Qmake (%d)%%Z %d%%positive)" % (v.numerator, v.denominator)
    def sexp(self, v):
        v = Fraction(v)
        return "(%s %s)" % (ZZ.sexp(v.numerator), _bits(v.denominator))
    def dec(self): return "d_q"
    def coqty(self): return "Q"
QQ = _Q()

class List(Ty):
    def __init__(self, t): self.t = t
    def coq(self, v): return "[" + "; ".join(self.t.coq(x) for x in v) + "]"
    def sexp(self, v): return "(" + " ".join(self.t.sexp(x) for x in v) + ")"
    def dec(self): return "(d_list %s)" % self.t.dec()
    def coqty(self): return "(list %s)" % self.t.coqty()

class Tup(Ty):
    """n-ary tuple, n >= 2, rendered as left-nested Coq pairs (a, b, c)"""
    def __init__(self, *ts): assert len(ts) >= 2; self.ts = ts
    def coq(self, v):
        assert len(v) == len(self.ts), (v, len(self.ts))
        return "(" + ", ".join(t.coq(x) for t, x in zip(self.ts, v)) + ")"
    def sexp(self, v):
        assert len(v) == len(self.ts)
        return "(" + " ".join(t.sexp(x) for t, x in zip(self.ts, v)) + ")"
    def dec(self):
        return "(d_tup%d %s)" % (len(self.ts), " ".join(t.dec() for t in self.ts))
    def coqty(self): return "(" + " * ".join(t.coqty() for t in self.ts) + ")"

class Option(Ty):
    def __init__(self, t): self.t = t
    def coq(self, v): return "None" if v is None else "(Some %s)" % self.t.coq(v)
    def sexp(self, v): return "N" if v is None else "(S %s)" % self.t.sexp(v)
    def dec(self): return "(d_option %s)" % self.t.dec()
    def coqty(self): return "(option %s)" % self.t.coqty()

class Enum(Ty):
    """a Coq enumeration type; Python value = constructor name (str)"""
    def __init__(self, coqname, ocaml_module, ctors):
        self.coqname, self.mod, self.ctors = coqname, ocaml_module, list(ctors)
    def coq(self, v): assert v in self.ctors, v; return v
    def sexp(self, v): assert v in self.ctors, v; return v
    def dec(self):
        arms = " | ".join('Atom "%s" -> %s.%s' % (c, self.mod, c) for c in self.ctors)
        return '(function %s | _ -> failwith "enum %s")' % (arms, self.coqname)
    def coqty(self): return self.coqname

class Sum(Ty):
    """a Coq inductive with constructors taking one (possibly tuple) argument each:
       ctors = {name: Ty or None}; Python value = (name, payload) or (name,)"""
    def __init__(self, coqname, ocaml_module, ctors):
        self.coqname, self.mod, self.ctors = coqname, ocaml_module, dict(ctors)
    def coq(self, v):
        name = v[0]; t = self.ctors[name]
        if t is None: return name
        if isinstance(t, Tup):
            return "(" + name + " " + " ".join(tt.coq(x) for tt, x in zip(t.ts, v[1])) + ")"
        return "(%s %s)" % (name, t.coq(v[1]))
    def sexp(self, v):
        name = v[0]; t = self.ctors[name]
        if t is None: return name
        return "(%s %s)" % (name, t.sexp(v[1]))
    def dec(self):
        arms = []
        for name, t in self.ctors.items():
            if t is None:
                arms.append('Atom "%s" -> %s.%s' % (name, self.mod, name))
            elif isinstance(t, Tup):
                n = len(t.ts)
                vs = ["x%d" % i for i in range(n)]
                pat = vs[0]
                for x in vs[1:]: pat = "(%s, %s)" % (pat, x)
                arms.append('L [Atom "%s"; p] -> (match %s p with %s -> %s.%s (%s))'
                            % (name, t.dec(), pat, self.mod, name, ", ".join(vs)))
            else:
                arms.append('L [Atom "%s"; p] -> %s.%s (%s p)' % (name, self.mod, name, t.dec()))
        return '(function %s | _ -> failwith "sum %s")' % (" | ".join(arms), self.coqname)
    def coqty(self): return self.coqname

class Rec(Ty):
    """recursive reference to a named type (decoder defined by name in glue preamble)"""
    def __init__(self, coqname, decname, target_getter):
        self.coqname, self.decname, self.get = coqname, decname, target_getter
    def coq(self, v): return self.get().coq(v)
    def sexp(self, v): return self.get().sexp(v)
    def dec(self): return self.decname
    def coqty(self): return self.coqname

# ----------------------------------------------------------------------------
# registry of model check functions (consumed by bin/setup and by the runners)

class CheckFn:
    def __init__(self, kind, module, fn, ty, imports=None):
        """kind: short name used on the wire; module: Coq module path under Fggs
        (e.g. 'Model.SCC'); fn: function name in it; ty: descriptor of its one argument"""
        self.kind, self.module, self.fn, self.ty = kind, module, fn, ty
        self.imports = imports or []
    @property
    def ocaml_name(self):
        base = self.module.split(".")[-1]
        return base[0].upper() + base[1:] + "." + self.fn
    @property
    def coq_name(self):
        return "Fggs.%s.%s" % (self.module, self.fn)

# ----------------------------------------------------------------------------
# running things

def sh(cmd, timeout=600, cwd=None, env=None, input=None):
    p = subprocess.run(cmd, shell=isinstance(cmd, str), cwd=cwd, env=env, input=input,
                       stdout=subprocess.PIPE, stderr=subprocess.STDOUT, timeout=timeout, text=True)
    return p.returncode, p.stdout

class BuildError(Exception):
    pass

def ensure_built(log=None):
    """(Re)build the Coq development and the extracted driver if stale. Serialised by a lock."""
    os.makedirs(BUILD, exist_ok=True)
    with open(os.path.join(BUILD, ".lock"), "w") as lk:
        fcntl.flock(lk, fcntl.LOCK_EX)
        rc, out = sh([os.path.join(VERIF, "bin", "setup")], timeout=3000)
        if log is not None: log.append(out[-4000:])
        if rc != 0:
            raise BuildError(out[-6000:])

_CODE_RE = re.compile(r"\d+")

def run_coq(cf: CheckFn, values, shard=300, jobs=8, timeout=900, tag="cases"):
    """Evaluate cf on every value inside Coq (vm_compute). Returns list of int codes."""
    d = os.path.join(BUILD, "cases", tag)
    shutil.rmtree(d, ignore_errors=True); os.makedirs(d)
    files = []
    for k in range(0, len(values), shard):
        chunk = values[k:k + shard]
        name = "Cases_%s_%d" % (cf.kind.replace("-", "_"), k // shard)
        path = os.path.join(d, name + ".v")
        with open(path, "w") as f:
            f.write("From Coq Require Import List ZArith QArith.\nImport ListNotations.\n")
            for imp in [cf.module] + cf.imports:
                f.write("Require Import Fggs.%s.\n" % imp)
            f.write("Definition cases : list %s := [\n" % cf.ty.coqty())
            f.write(";\n".join(cf.ty.coq(v) for v in chunk))
            f.write("\n].\nDefinition res := List.map %s cases.\n" % cf.coq_name)
            f.write("Eval vm_compute in res.\n")
        files.append((path, len(chunk)))
    codes = []
    procs = []
    def launch(path):
        return subprocess.Popen(["timeout", str(timeout), "coqc", "-q", "-R",
                                 os.path.join(COQDIR, "theories"), "Fggs", path],
                                stdout=subprocess.PIPE, stderr=subprocess.STDOUT, text=True, cwd=d)
    results = {}
    pending = list(files)
    running = []
    while pending or running:
        while pending and len(running) < jobs:
            p, n = pending.pop(0)
            running.append((p, n, launch(p)))
        p, n, pr = running.pop(0)
        out, _ = pr.communicate()
        if pr.returncode != 0:
            raise BuildError("coqc failed on %s:\n%s" % (p, out[-3000:]))
        i = out.rfind("= ")
        body = out[i:]
        j = body.rfind(":")
        cs = [int(x) for x in _CODE_RE.findall(body[:j])]
        if len(cs) != n:
            raise BuildError("could not parse coqc output for %s (%d codes for %d cases):\n%s"
                             % (p, len(cs), n, out[-2000:]))
        results[p] = cs
    for p, n in files:
        codes.extend(results[p])
    return codes

def run_ocaml(cf: CheckFn, values, timeout=1800):
    """Evaluate cf on every value with the extracted OCaml driver. Returns list of int codes."""
    if not values: return []
    inp = "".join("%s %s\n" % (cf.kind, cf.ty.sexp(v)) for v in values)
    # the extracted code is not tail-recursive everywhere: give it a large stack
    p = subprocess.run(["bash", "-c", "ulimit -s unlimited 2>/dev/null || ulimit -s 4000000 2>/dev/null; exec timeout %d %s" % (timeout, DRIVER)],
                       input=inp, stdout=subprocess.PIPE, stderr=subprocess.PIPE, text=True)
    if p.returncode != 0:
        raise BuildError("driver failed: rc=%s %s" % (p.returncode, p.stderr[-2000:]))
    lines = p.stdout.split()
    if len(lines) != len(values):
        raise BuildError("driver printed %d results for %d cases" % (len(lines), len(values)))
    return [int(x) for x in lines]

def run_model(cf: CheckFn, values, coq_sample=60, seed=0, tag=None):
    """Bulk run through the extracted code, plus a sample re-evaluated inside the kernel
    (vm_compute); both must give identical codes.  Returns (codes, n_coq_sample)."""
    codes = run_ocaml(cf, values)
    rng = random.Random(seed * 7919 + 13)
    idx = list(range(len(values)))
    # always include every non-zero case in the kernel re-evaluation
    bad = [i for i in idx if codes[i] != 0][:40]
    rest = [i for i in idx if codes[i] == 0]
    rng.shuffle(rest)
    pick = sorted(set(bad + rest[:coq_sample]))
    if pick:
        ccodes = run_coq(cf, [values[i] for i in pick], tag=tag or cf.kind)
        for i, c in zip(pick, ccodes):
            if c != codes[i]:
                raise BuildError("extracted code and vm_compute disagree on %s case %d: %d vs %d"
                                 % (cf.kind, i, codes[i], c))
    return codes, len(pick)

# ----------------------------------------------------------------------------
# assumptions audit of the property theorem file

ALLOWED_AXIOMS = {
    # standard-library axioms accepted when named in DESIGN.md section 10
    # (entries ending in "." are module prefixes: the primitive floats/integers and their specification)
    "FloatAxioms.", "Float64.", "PrimFloat.", "Uint63.", "PrimInt63.", "Sint63.",
    # EXACT names (no trailing dot: matched by equality, not by prefix): the standard library's axioms
    # of the real numbers, on which Flocq (IEEE-754 formats, rounding) rests -- DESIGN.md section 13.6.
    # Accepted only in the theorem files of the properties listed in AXIOM_SCOPE.
    "ClassicalDedekindReals.sig_forall_dec",       # Coq.Reals: limited principle of omniscience on nat -> Prop
    "ClassicalDedekindReals.sig_not_dec",          # Coq.Reals: decidability of negated propositions in Set
    "Classical_Prop.classic",                      # excluded middle (Coq.Logic.Classical_Prop, via Coq.Reals)
    "FunctionalExtensionality.functional_extensionality_dep",   # via Coq.Reals.ClassicalDedekindReals
}
AXIOM_SCOPE = {
    # exact-name axiom -> the properties whose Props file may depend on it
    "ClassicalDedekindReals.sig_forall_dec": ("C08",),
    "ClassicalDedekindReals.sig_not_dec": ("C08",),
    "Classical_Prop.classic": ("C08",),
    "FunctionalExtensionality.functional_extensionality_dep": ("C08",),
}

def axiom_allowed(name: str, pid: str) -> bool:
    for p in ALLOWED_AXIOMS:
        if p.endswith("."):
            if name.startswith(p): return True
        elif name == p and pid in AXIOM_SCOPE.get(p, ()):
            return True
    return False

def audit_props(pid: str):
    """Compile theories/Props/<pid>.v afresh, parse its Print Assumptions output.
    Returns dict(theorems=[...], axioms=[...], closed=int, obligations=int, ok=bool, log=str)."""
    src = os.path.join(COQDIR, "theories", "Props", pid + ".v")
    if not os.path.exists(src):
        return dict(ok=False, log="missing " + src, theorems=[], axioms=[], closed=0, obligations=0)
    tmpd = os.path.join(BUILD, "audit", pid)
    shutil.rmtree(tmpd, ignore_errors=True); os.makedirs(tmpd)
    dst = os.path.join(tmpd, pid + "_audit.v")
    shutil.copy(src, dst)
    rc, out = sh(["timeout", "600", "coqc", "-q", "-R", os.path.join(COQDIR, "theories"), "Fggs", dst], cwd=tmpd)
    text = open(src).read()
    theorems = re.findall(r"^\s*(?:Theorem|Lemma|Corollary|Example)\s+([A-Za-z0-9_']+)", text, re.M)
    n_print = len(re.findall(r"^\s*Print Assumptions", text, re.M))
    closed = out.count("Closed under the global context")
    axioms = []
    for m in re.finditer(r"Axioms:\n((?:.+\n?)+?)(?:\n\n|\Z|(?=Closed under))", out):
        for line in m.group(1).splitlines():
            # an axiom starts at column 0; its type follows on the same line or, when long, on
            # indented continuation lines ("name\n  : type")
            mm = re.match(r"^([A-Za-z0-9_.']+)\s*(?::|$)", line)
            if mm and mm.group(1) != "Axioms": axioms.append(mm.group(1))   # header of the next block (consecutive non-closed theorems)
    bad = [a for a in axioms if not axiom_allowed(a, pid)]
    forbidden = re.findall(r"\b(Admitted|admit|Axiom|Parameter|Conjecture|Unset Guard|bypass_check)\b", text)
    ok = (rc == 0) and not bad and not forbidden and (closed + (1 if axioms else 0) >= 1) and n_print >= 1
    return dict(ok=ok, rc=rc, log=out[-3000:], theorems=theorems, axioms=axioms, bad_axioms=bad,
                closed=closed, n_print=n_print, obligations=len(theorems))

def count_obligations(pid: str):
    """Number of Theorem/Lemma statements in the .v files that Props/<pid>.v depends on
    (transitively, inside this development), and how many of those files have a fresh .vo."""
    th = os.path.join(COQDIR, "theories")
    seen, todo = set(), [os.path.join(th, "Props", pid + ".v")]
    while todo:
        f = todo.pop()
        if f in seen or not os.path.exists(f): continue
        seen.add(f)
        for name in set(re.findall(r"\bFggs\.([A-Za-z0-9_]+(?:\.[A-Za-z0-9_]+)*)", open(f).read())):
            todo.append(os.path.join(th, *name.split(".")) + ".v")
    n_obl = n_dis = 0
    files = []
    for f in sorted(seen):
        n = len(re.findall(r"^\s*(?:Theorem|Lemma|Corollary|Example|Fact|Proposition)\s+", open(f).read(), re.M))
        vo = f[:-2] + ".vo"
        fresh = os.path.exists(vo) and os.path.getmtime(vo) >= os.path.getmtime(f)
        n_obl += n
        if fresh: n_dis += n
        files.append(os.path.relpath(f, th))
    return n_obl, n_dis, files

# ----------------------------------------------------------------------------
# known findings

def load_known():
    p = os.path.join(VERIF, "known_findings.json")
    if not os.path.exists(p): return []
    return json.load(open(p))

# ----------------------------------------------------------------------------
# result plumbing

class Violation:
    def __init__(self, what, case, observed=None, expected=None, oracle=None, corr=None,
                 failing_input_found=True, call=None, finding_key=None):
        self.what, self.case, self.observed, self.expected = what, case, observed, expected
        self.oracle, self.corr, self.found, self.call = oracle, corr, failing_input_found, call
        self.finding_key = finding_key     # name of a known-finding predicate this case satisfies

def _jsonable(x):
    if isinstance(x, Fraction): return str(x)
    if isinstance(x, (list, tuple)): return [_jsonable(y) for y in x]
    if isinstance(x, dict): return {str(k): _jsonable(v) for k, v in x.items()}
    if isinstance(x, float):
        if x != x: return "nan"
        if x in (float("inf"), float("-inf")): return "inf" if x > 0 else "-inf"
        return x
    if isinstance(x, (int, str, bool)) or x is None: return x
    return repr(x)

def write_replay(pid, tier, seed, v: Violation):
    os.makedirs(REPLAYS, exist_ok=True)
    body = dict(property=pid, tier=tier, seed=seed, what=v.what, case=_jsonable(v.case), call=v.call,
                observed=_jsonable(v.observed), expected=_jsonable(v.expected), oracle=v.oracle,
                theorem_or_correspondence=v.corr, failing_input_found=v.found,
                how_to_replay="bin/check %s --replay <this file>" % pid)
    h = hashlib.sha1(json.dumps(body, sort_keys=True).encode()).hexdigest()[:12]
    path = os.path.join(REPLAYS, "%s-%s.json" % (pid, h))
    with open(path, "w") as f: json.dump(body, f, indent=1, sort_keys=True)
    return path

def finish(pid, tier, seed, t0, level, coverage, violations, assumptions=None, max_report=3):
    """Apply known findings, write evidence, print lines, return exit status."""
    known = [k for k in load_known() if k.get("property") == pid and k.get("status") == "known"]
    real, knownhits = [], {}
    for v in violations:
        hit = None
        for k in known:
            if v.finding_key is not None and v.finding_key == k.get("match", {}).get("predicate"):
                hit = k; break
        if hit is not None:
            knownhits.setdefault(hit["what"], 0); knownhits[hit["what"]] += 1
        else:
            real.append(v)
    for what, n in knownhits.items():
        print("KNOWN-FINDING: property=%s %s (%d case(s) this run)" % (pid, what, n))
    paths = []
    real.sort(key=lambda v: (not v.found, len(repr(v.case))))
    # report the smallest cases of every distinct kind of violation (at most max_report per kind)
    seen_kind = {}
    report = []
    for v in real:
        k = v.what
        seen_kind[k] = seen_kind.get(k, 0) + 1
        if seen_kind[k] <= max_report and len(report) < 4 * max_report:
            report.append(v)
    for k, n_k in seen_kind.items():
        print("violation kind: %s  (x%d)" % (k, n_k))
    for v in report:
        path = write_replay(pid, tier, seed, v)
        paths.append(path)
        print("VIOLATION property=%s replay=%s%s" % (pid, path, "" if v.found else " no-failing-input-found"))
    coverage = dict(coverage)
    coverage["known_finding_hits"] = knownhits
    coverage["code_under_check"] = _repo_state()
    ev = dict(property_id=pid, tier=tier, seed=seed, level=level, coverage=_jsonable(coverage),
              assumptions=assumptions or [], wall_s=round(time.time() - t0, 2), violations=len(real))
    os.makedirs(EVID, exist_ok=True)
    with open(os.path.join(EVID, pid + ".json"), "w") as f:
        json.dump(ev, f, indent=1, sort_keys=True)
    print("%s %s: %d evaluations, %d violation(s), %d known-finding hit(s), %.1fs"
          % (pid, tier, coverage.get("evaluations", 0), len(real), sum(knownhits.values()), time.time() - t0))
    return 1 if real else 0

def _repo_state():
    """which source tree this run was tied to: HEAD commit, uncommitted changes, and a digest of the package sources"""
    import hashlib, glob
    def git(*a):
        try: return subprocess.run(["git", "-C", REPO] + list(a), capture_output=True, text=True, timeout=30).stdout.strip()
        except Exception: return "?"
    h = hashlib.sha256()
    files = sorted(glob.glob(os.path.join(REPO, "fggs", "*.py")) + glob.glob(os.path.join(REPO, "bin", "*.py")))
    for f in files:
        with open(f, "rb") as fh: h.update(f[len(REPO):].encode() + b"\0" + fh.read())
    return dict(path=REPO, head=git("rev-parse", "--short", "HEAD"), modified_files=[l[3:] for l in git("status", "--porcelain", "--untracked-files=no").splitlines()],
                sources_sha256=h.hexdigest(), source_files=len(files))

TRUSTED_BASE = [
    "Coq 8.16.1 kernel and its bytecode VM (vm_compute); no native_compute",
    "no axioms declared in the development; Print Assumptions of every property theorem is re-parsed on every run",
    "extraction to OCaml with ExtrOcamlBasic only (bool/option/unit/list/prod/sumbool/sumor mapped, andb/orb inlined); nat/positive/Z/Q kept as extracted inductives; hand-written s-expression driver (ocaml/driver.ml) and generated glue; cross-checked against vm_compute on a sample and on every non-zero verdict",
    "hand-written Gallina models tied to /repo by the correspondence harness (harness/*.py): generators, canonicalisation of Python objects to integers, exception enum, tolerance policy",
]
