"""Negative / positive self-test of the translator's fail-closed behaviour:
   /venv/bin/python -m harness.translate.selftest
Every snippet replaces the body of `scc` (after the six initialisations); the expected outcome is either a
translation or Untranslatable with the given fragment in its message."""
import sys
from harness.translate.py2gallina import Translator, Untranslatable

HEAD = '''
def scc(g: Dict[T, Dict[T, None]]) -> List[Dict[T, None]]:
    index = 0
    indexof = {}
    stack = []
    onstack = set()
    comps = []
    indexof[0] = 0
    stack.append(0)
    onstack.add(0)
'''
CASES = [
    # (body, None = must translate | fragment of the Untranslatable message)
    ("    return comps\n", None),
    ("    for v in g:\n        indexof[v] = index\n        index += 1\n    return comps\n", None),
    ("    for v in g:\n        if v in indexof and indexof[v] < 3:\n            stack.append(v)\n    return comps\n", None),
    ("    try:\n        index = 1\n    except KeyError:\n        pass\n    return comps\n", "statement kind"),
    ("    xs = [v for v in g]\n    return comps\n", "expression kind"),
    ("    while True:\n        index += 1\n    return comps\n", "no termination bound"),
    ("    while len(stack) < 3:\n        stack.append(index)\n        w = stack.pop()\n    return comps\n", "no termination bound"),
    ("    for v in onstack:\n        index += 1\n    return comps\n", "iteration over a set"),
    ("    for v in g:\n        g[v] = {}\n    return comps\n", "being iterated"),
    ("    other = stack\n    return comps\n", "aliasing"),
    ("    comp = dict()\n    comps.append(comp)\n    comp[index] = None\n    return comps\n", "aliasing"),
    ("    index = index - 1\n    return comps\n", "binary operator Sub"),
    ("    index = -1\n    return comps\n", "unary operator USub"),
    ("    if index:\n        index = 1\n    return comps\n", "type mismatch"),
    ("    if index == 0:\n        return comps\n    return comps\n", "tail position"),
    ("    index = stack.index(0)\n    return comps\n", "method index"),
    ("    print(index)\n    return comps\n", "unknown function print"),
    ("    if index == 0:\n        w = 1\n    index = w\n    return comps\n", "may be unbound"),
    ("    x = sorted(g)\n    return comps\n", "unknown function sorted"),
    ("    lam = lambda v: v\n    return comps\n", "expression kind"),
    ("    index = indexof.get(0, 1)\n    return comps\n", "method get"),
    ("    del indexof[0]\n    return comps\n", "statement kind"),
    ("    for v in g:\n        for w in g[v]:\n            if w == v:\n                continue\n    return comps\n", "statement kind"),
]

def main():
    bad = 0
    for body, expect in CASES:
        src = HEAD + body
        try:
            Translator(src, {"scc": "gen_scc"}).run()
            got = None
        except Untranslatable as e:
            got = str(e)
        ok = (got is None) if expect is None else (got is not None and expect in got)
        if not ok: bad += 1
        print("%s  expected %-28r got %s" % ("ok  " if ok else "FAIL", expect, got))
    print("%d case(s), %d failure(s)" % (len(CASES), bad))
    return 1 if bad else 0

if __name__ == "__main__":
    sys.exit(main())
