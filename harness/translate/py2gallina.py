"""py2gallina -- a FAIL-CLOSED translator from a small subset of Python to Gallina.

Used for property C19: translates `scc` and `nonterminal_graph` of $FGGS_REPO/fggs/utils.py
(read at run time) to Coq definitions in module Fggs.Generated.SCC_gen.  The hand-written
file coq/theories/GeneratedProofs/SCC_gen_refines.v proves that the generated functions
compute the same results as the hand-written model (Fggs.Model.SCC), so that the property
theorems hold of what the source says NOW.

THIS FILE IS PART OF THE TRUSTED BASE (together with coq/theories/Model/PyRT.v, the meaning
given to the Python container operations, and the INTERFACE table below, the data abstraction
of the fggs objects that `nonterminal_graph` touches).

Design (a general statement/expression walker over the subset, not a template):
  * pass 0  scopes: parameters, locals (in order of first occurrence), `nonlocal`, closures
  * pass 1  type inference by unification over  int | bool | None | dict[k,v] | list[e] | set[e]
            | interface objects
  * pass 2  emission, shallow embedding in state-passing style:
       - every function F gets a record  F_frame  of its parameters and locals; a closure
         runs on the pair (o, l) = (frame of the enclosing function, own frame) and returns
         the updated enclosing frame
       - everything that can raise (d[k], l.pop(), s.remove(x), l[i]) has an `option` result,
         None = the exception; sequencing is an explicit  match .. with None => None | Some ..
       - a self-recursive closure is a Fixpoint on explicit fuel (None = out of fuel)
       - `for x in e: body`  = PyRT.py_for  (fun x st => body) e st     (structural on the list)
       - `while c: body`     = PyRT.py_while fuel (fun st => c) (fun st => body) st, where the
         fuel is S (length L) for a list L that the body pops unconditionally and never
         extends (then the fuel provably suffices: the next pop raises IndexError anyway)
  * names are alpha-normalised: fields are named by the kind of their type and the order of
    first occurrence (n0, d0, d1, l0, ...), closures f0, f1, ...; docstrings, comments and
    annotations are dropped.  A pure renaming / re-commenting of the source therefore
    regenerates the same definitions.
  * anything not understood raises Untranslatable(node, lineno); nothing is guessed or skipped.
    Static side conditions that the value-semantics embedding needs are checked and also raise:
    possibly-unbound locals, aliasing of mutable containers, mutation of a container while it
    is iterated, iteration over a `set`, negative integers, `return` not in tail position.
"""
from __future__ import annotations
import ast, hashlib, os, sys

class Untranslatable(Exception):
    def __init__(self, node, lineno=None, why=""):
        self.node = node
        self.lineno = lineno if lineno is not None else getattr(node, "lineno", None)
        self.why = why
        kind = type(node).__name__ if not isinstance(node, str) else node
        super().__init__("Untranslatable: %s at line %s%s" % (kind, self.lineno, (": " + why) if why else ""))

# ----------------------------------------------------------------------------------------
# types

class Ty:
    pass

class TCon(Ty):
    def __init__(self, name, *args): self.name, self.args = name, list(args)
    def __repr__(self): return self.name + ("[%s]" % ", ".join(map(repr, self.args)) if self.args else "")

class TVar(Ty):
    n = 0
    def __init__(self):
        TVar.n += 1; self.id = TVar.n; self.ref = None
    def __repr__(self): return "?%d" % self.id if self.ref is None else repr(self.ref)

TInt, TBool, TNone = TCon("int"), TCon("bool"), TCon("None")
def TDict(k, v): return TCon("dict", k, v)
def TList(e): return TCon("list", e)
def TSet(e): return TCon("set", e)
def TObj(name): return TCon("obj:" + name)

def prune(t):
    while isinstance(t, TVar) and t.ref is not None: t = t.ref
    return t

def occurs(v, t):
    t = prune(t)
    if t is v: return True
    return isinstance(t, TCon) and any(occurs(v, a) for a in t.args)

def unify(a, b, node):
    a, b = prune(a), prune(b)
    if a is b: return
    if isinstance(a, TVar):
        if occurs(a, b): raise Untranslatable(node, why="recursive type")
        a.ref = b; return
    if isinstance(b, TVar): return unify(b, a, node)
    if a.name != b.name or len(a.args) != len(b.args):
        raise Untranslatable(node, why="type mismatch %r vs %r" % (a, b))
    for x, y in zip(a.args, b.args): unify(x, y, node)

def resolved(t):
    t = prune(t)
    if isinstance(t, TVar): return False
    return all(resolved(a) for a in t.args)

# The data abstraction of the fggs objects seen by nonterminal_graph (TRUSTED; checked on every
# run only by evaluating the generated function on the harness's encoding of random HRGs):
#   HRG      = (nonterminals in label-table order, rules in all_rules() order)
#   HRGRule  = (lhs, rhs edges in edge order)
#   Edge / EdgeLabel = (canonical number of the label, is_nonterminal); as a dict key: the number
INTERFACE = {
    "HRG": dict(coq="(list nat * list (nat * list (nat * bool)))", default="([], [])", members={
        "nonterminals()": (TList(TInt), "(fst %s)"),
        "all_rules()": (TList(TObj("HRGRule")), "(snd %s)")}),
    "HRGRule": dict(coq="(nat * list (nat * bool))", default="(0, [])", members={
        "lhs": (TInt, "(fst %s)"),
        "rhs": (TObj("RhsGraph"), "(snd %s)")}),
    "RhsGraph": dict(coq="(list (nat * bool))", default="[]", members={
        "edges()": (TList(TObj("Edge")), "%s")}),
    "Edge": dict(coq="(nat * bool)", default="(0, false)", members={
        "label": (TObj("EdgeLabel"), "%s")}),
    "EdgeLabel": dict(coq="(nat * bool)", default="(0, false)", askey="(fst %s)", members={
        "is_nonterminal": (TBool, "(snd %s)")}),
}
# names in annotations that denote a dict key (canonicalised to nat by the harness)
KEY_ANNOT = {"T", "EdgeLabel", "int"}

def is_keyset(t):
    t = prune(t)
    return isinstance(t, TCon) and t.name == "dict" and prune(t.args[1]) is TNone

def coq_type(t, node=None):
    t = prune(t)
    if t is TInt: return "nat"
    if t is TBool: return "bool"
    if isinstance(t, TCon):
        if t.name.startswith("obj:"): return INTERFACE[t.name[4:]]["coq"]
        if t.name == "dict":
            k, v = prune(t.args[0]), prune(t.args[1])
            if k is TInt and v is TNone: return "(list nat)"
            if k is TInt and (v is TInt or is_keyset(v)): return "(list (nat * %s))" % coq_type(v, node)
        if t.name == "list":
            e = prune(t.args[0])
            if e is TInt or is_keyset(e) or (isinstance(e, TCon) and e.name.startswith("obj:")):
                return "(list %s)" % coq_type(e, node)
        if t.name == "set" and prune(t.args[0]) is TInt: return "(list nat)"
    raise Untranslatable(node if node is not None else "type", why="no Coq representation for type %r" % (t,))

def kind_letter(t):
    t = prune(t)
    if t is TInt: return "n"
    if t is TBool: return "b"
    if t.name.startswith("obj:"): return "o"
    if t.name == "dict":
        if is_keyset(t): return "k"
        return "d" if prune(t.args[1]) is TInt else "m"
    if t.name == "list": return "l" if prune(t.args[0]) is TInt else "c"
    if t.name == "set": return "s"
    return "x"

def default_value(t):
    t = prune(t)
    if t is TInt: return "0"
    if t is TBool: return "false"
    if t.name.startswith("obj:"): return INTERFACE[t.name[4:]]["default"]
    return "[]"

def is_container(t):
    t = prune(t)
    return isinstance(t, TCon) and t.name in ("dict", "list", "set")

# ----------------------------------------------------------------------------------------
# scopes

class Var:
    def __init__(self, pyname, owner, node):
        self.pyname, self.owner, self.node = pyname, owner, node
        self.ty = TVar(); self.cname = None; self.is_param = False

class Func:
    def __init__(self, node, parent):
        self.node, self.parent = node, parent
        self.pyname = node.name
        self.vars = {}          # own locals incl. params, insertion = first occurrence
        self.params = []
        self.nonlocals = set()
        self.children = {}      # pyname -> Func
        self.ret = TVar()
        self.has_return = False
        self.calls = set()      # Funcs called directly
        self.mutates = set()    # Vars mutated directly
        self.captured = set()   # Vars of the parent referenced
        self.recursive = False
        self.needs_fuel = False
        self.cname = None

    def lookup(self, name):
        if name in self.vars: return self.vars[name]
        if self.parent is not None and name not in self.vars: return self.parent.lookup(name)
        return None
    def lookup_func(self, name):
        if name in self.children: return self.children[name]
        if self.parent is not None:
            if self.parent.children.get(name) is not None: return self.parent.children[name]
            return self.parent.lookup_func(name)
        return None

BUILTINS = {"min", "max", "len", "dict", "set", "list"}
SIMPLE_STMTS = (ast.Assign, ast.AugAssign, ast.AnnAssign, ast.Expr, ast.Return, ast.Pass, ast.Nonlocal)

class Translator:
    def __init__(self, source, entry):
        """entry: {python function name: Coq name of the generated entry point}"""
        self.source, self.entry = source, entry
        self.tree = ast.parse(source)
        self.out = []
        self.funcs = []     # all Funcs in emission order (closures before their parent)

    # ---------------------------------------------------------------- pass 0: scopes
    def build_scope(self, node, parent):
        f = Func(node, parent)
        a = node.args
        if a.vararg or a.kwarg or a.kwonlyargs or a.posonlyargs or a.defaults or a.kw_defaults:
            raise Untranslatable(node, why="only plain positional parameters")
        if node.decorator_list: raise Untranslatable(node, why="decorator")
        for arg in a.args:
            v = Var(arg.arg, f, arg); v.is_param = True
            if arg.annotation is not None: unify(v.ty, self.annot(arg.annotation), arg)
            f.vars[arg.arg] = v; f.params.append(v)
        if node.returns is not None: unify(f.ret, self.annot(node.returns), node)
        # nonlocal declarations first (they may follow uses textually only in odd code; Python
        # requires them before use, so one sweep is enough)
        for st in ast.walk(node):
            if isinstance(st, ast.Global): raise Untranslatable(st, why="global")
        self.scan_block(f, node.body, top=True)
        return f

    def scan_block(self, f, stmts, top=False):
        for st in stmts:
            if isinstance(st, ast.Nonlocal):
                if not top or f.parent is None: raise Untranslatable(st, why="nonlocal placement")
                for n in st.names:
                    if n in f.vars: raise Untranslatable(st, why="nonlocal after local binding")
                    f.nonlocals.add(n)
            elif isinstance(st, ast.FunctionDef):
                if not top: raise Untranslatable(st, why="nested def inside a compound statement")
                if f.parent is not None: raise Untranslatable(st, why="closures nested deeper than one level")
                if st.name in f.children or st.name in f.vars: raise Untranslatable(st, why="redefinition")
                f.children[st.name] = None      # placeholder keeps the order
                f.children[st.name] = self.build_scope(st, f)
            elif isinstance(st, (ast.Assign, ast.AnnAssign, ast.AugAssign)):
                targets = st.targets if isinstance(st, ast.Assign) else [st.target]
                for t in targets: self.bind_target(f, t)
            elif isinstance(st, ast.For):
                self.bind_target(f, st.target)
                self.scan_block(f, st.body); self.scan_block(f, st.orelse)
            elif isinstance(st, ast.While):
                self.scan_block(f, st.body); self.scan_block(f, st.orelse)
            elif isinstance(st, ast.If):
                self.scan_block(f, st.body); self.scan_block(f, st.orelse)
            elif isinstance(st, (ast.Expr, ast.Return, ast.Pass)):
                pass
            else:
                raise Untranslatable(st, why="statement kind not in the subset")

    def bind_target(self, f, t):
        if isinstance(t, ast.Name):
            if t.id in f.nonlocals: return
            if t.id in f.children: raise Untranslatable(t, why="assignment to a function name")
            if t.id not in f.vars: f.vars[t.id] = Var(t.id, f, t)
        elif isinstance(t, ast.Subscript):
            pass
        else:
            raise Untranslatable(t, why="assignment target")

    def annot(self, a):
        if isinstance(a, ast.Constant) and a.value is None: return TNone
        if isinstance(a, ast.Name):
            if a.id in KEY_ANNOT: return TInt
            if a.id in INTERFACE: return TObj(a.id)
            if a.id == "bool": return TBool
            raise Untranslatable(a, why="annotation %s" % a.id)
        if isinstance(a, ast.Subscript) and isinstance(a.value, ast.Name):
            args = a.slice.elts if isinstance(a.slice, ast.Tuple) else [a.slice]
            if a.value.id in ("Dict", "dict") and len(args) == 2: return TDict(self.annot(args[0]), self.annot(args[1]))
            if a.value.id in ("List", "list") and len(args) == 1: return TList(self.annot(args[0]))
            if a.value.id in ("Set", "set") and len(args) == 1: return TSet(self.annot(args[0]))
        raise Untranslatable(a, why="annotation")

    # ---------------------------------------------------------------- pass 1: types
    def infer_func(self, f):
        self.cur = f
        self.comp_env = []
        self.infer_block(f.node.body, tail=True)
        if not f.has_return: unify(f.ret, TNone, f.node)

    def infer_block(self, stmts, tail=False):
        for i, st in enumerate(stmts):
            self.infer_stmt(st, tail and i == len(stmts) - 1)

    def is_docstring(self, st):
        return isinstance(st, ast.Expr) and isinstance(st.value, ast.Constant) and isinstance(st.value.value, str)

    def infer_stmt(self, st, tail):
        f = self.cur
        if self.is_docstring(st) or isinstance(st, (ast.Pass, ast.Nonlocal)): return
        if isinstance(st, ast.FunctionDef):
            self.infer_func(f.children[st.name]); self.cur = f; return
        if isinstance(st, ast.Return):
            if not tail: raise Untranslatable(st, why="return not in tail position of the function body")
            f.has_return = True
            unify(f.ret, TNone if st.value is None else self.ty(st.value), st); return
        if isinstance(st, ast.AnnAssign):
            if st.value is None or not st.simple: raise Untranslatable(st, why="annotation without simple assignment")
            vt = self.ty(st.value)
            unify(self.ty_target(st.target, vt), self.annot(st.annotation), st); return
        if isinstance(st, ast.Assign):
            vt = self.ty(st.value)
            for t in st.targets: self.ty_target(t, vt)
            return
        if isinstance(st, ast.AugAssign):
            if not isinstance(st.op, ast.Add): raise Untranslatable(st, why="augmented operator")
            unify(self.ty(st.value), TInt, st)
            unify(self.ty_target(st.target, TInt), TInt, st); return
        if isinstance(st, ast.Expr):
            if not isinstance(st.value, ast.Call): raise Untranslatable(st, why="expression statement")
            self.ty(st.value); return
        if isinstance(st, ast.If):
            unify(self.ty(st.test), TBool, st.test)
            self.infer_block(st.body); self.infer_block(st.orelse); return
        if isinstance(st, ast.For):
            if st.orelse: raise Untranslatable(st, why="for-else")
            if not isinstance(st.target, ast.Name): raise Untranslatable(st.target, why="for target")
            it = prune(self.ty(st.iter))
            self.ty_target(st.target, self.elem_type(it, st.iter))
            self.infer_block(st.body); return
        if isinstance(st, ast.While):
            if st.orelse: raise Untranslatable(st, why="while-else")
            unify(self.ty(st.test), TBool, st.test)
            self.infer_block(st.body); return
        raise Untranslatable(st, why="statement kind not in the subset")

    def elem_type(self, it, node):
        it = prune(it)
        if isinstance(it, TCon) and it.name == "list": return it.args[0]
        if isinstance(it, TCon) and it.name == "dict": return it.args[0]
        if isinstance(it, TCon) and it.name == "set":
            raise Untranslatable(node, why="iteration over a set (order unspecified)")
        raise Untranslatable(node, why="iteration over %r" % (it,))

    def var_of(self, name, node):
        for env in reversed(self.comp_env):
            if name in env: return env[name]
        v = self.cur.lookup(name)
        if v is None: raise Untranslatable(node, why="unknown name %s" % name)
        if v.owner is not self.cur: self.cur.captured.add(v)
        return v

    def ty_target(self, t, vt):
        """type an assignment target receiving a value of type vt; returns the target's type"""
        if isinstance(t, ast.Name):
            v = self.var_of(t.id, t)
            if isinstance(v, Var): self.cur.mutates.add(v)
            unify(v.ty, vt, t); t._ty = v.ty
            return v.ty
        if isinstance(t, ast.Subscript):
            ct = prune(self.ty(t.value))
            if not (isinstance(ct, TCon) and ct.name == "dict"):
                raise Untranslatable(t, why="item assignment on %r" % (ct,))
            self.key_type(t.slice)
            unify(ct.args[1], vt, t)
            self.cur.mutates.add(self.base_var(t.value))
            t._ty = ct.args[1]
            return ct.args[1]
        raise Untranslatable(t, why="assignment target")

    def base_var(self, e):
        while isinstance(e, ast.Subscript): e = e.value
        if not isinstance(e, ast.Name): raise Untranslatable(e, why="mutated container is not a variable")
        v = self.var_of(e.id, e)
        if not isinstance(v, Var): raise Untranslatable(e, why="mutation of a comprehension variable")
        return v

    def key_type(self, e):
        """type of an expression in key position: int, or an interface object with a key view"""
        t = prune(self.ty(e))
        if isinstance(t, TCon) and t.name.startswith("obj:") and "askey" in INTERFACE[t.name[4:]]:
            e._askey = INTERFACE[t.name[4:]]["askey"]; return TInt
        unify(t, TInt, e)
        return TInt

    def ty(self, e):
        t = self.ty_(e); e._ty = t
        return t

    def ty_(self, e):
        f = self.cur
        if isinstance(e, ast.Constant):
            if e.value is None: return TNone
            if isinstance(e.value, bool): return TBool
            if isinstance(e.value, int):
                if e.value < 0 or e.value > 4000: raise Untranslatable(e, why="integer constant out of the nat range")
                return TInt
            raise Untranslatable(e, why="constant of type %s" % type(e.value).__name__)
        if isinstance(e, ast.Name):
            if not isinstance(e.ctx, ast.Load): raise Untranslatable(e)
            return self.var_of(e.id, e).ty
        if isinstance(e, ast.Dict):
            if e.keys: raise Untranslatable(e, why="non-empty dict display")
            return TDict(TInt, TVar())
        if isinstance(e, ast.List):
            t = TVar()
            for x in e.elts: unify(t, self.ty(x), x)
            return TList(t)
        if isinstance(e, ast.DictComp):
            if len(e.generators) != 1: raise Untranslatable(e, why="comprehension with several generators")
            g = e.generators[0]
            if g.ifs or g.is_async or not isinstance(g.target, ast.Name): raise Untranslatable(e, why="comprehension form")
            it = self.ty(g.iter)
            cv = Var(g.target.id, None, g.target); unify(cv.ty, self.elem_type(it, g.iter), g.iter)
            cv.cname = "x%d" % len(self.comp_env)
            self.comp_env.append({g.target.id: cv})
            self.key_type(e.key); vt = self.ty(e.value)
            self.comp_env.pop()
            e._cv = cv
            return TDict(TInt, vt)
        if isinstance(e, ast.Attribute):
            if not isinstance(e.ctx, ast.Load): raise Untranslatable(e)
            ot = prune(self.ty(e.value))
            if isinstance(ot, TCon) and ot.name.startswith("obj:"):
                m = INTERFACE[ot.name[4:]]["members"].get(e.attr)
                if m is None: raise Untranslatable(e, why="attribute %s of %s" % (e.attr, ot.name[4:]))
                e._view = m[1]; return m[0]
            raise Untranslatable(e, why="attribute %s of %r" % (e.attr, ot))
        if isinstance(e, ast.Subscript):
            if not isinstance(e.ctx, ast.Load): raise Untranslatable(e)
            if isinstance(e.slice, ast.Slice): raise Untranslatable(e, why="slice")
            ct = prune(self.ty(e.value))
            if isinstance(ct, TCon) and ct.name == "dict":
                self.key_type(e.slice); return ct.args[1]
            if isinstance(ct, TCon) and ct.name == "list":
                unify(self.ty(e.slice), TInt, e.slice); return ct.args[0]
            raise Untranslatable(e, why="subscript of %r" % (ct,))
        if isinstance(e, ast.Compare):
            if len(e.ops) != 1: raise Untranslatable(e, why="chained comparison")
            op, a, b = e.ops[0], e.left, e.comparators[0]
            if isinstance(op, (ast.In, ast.NotIn)):
                ct = prune(self.ty(b))
                if not (isinstance(ct, TCon) and ct.name in ("dict", "set", "list")):
                    raise Untranslatable(e, why="membership in %r" % (ct,))
                if ct.name != "dict": unify(ct.args[0], TInt, b)
                self.key_type(a); return TBool
            if isinstance(op, (ast.Eq, ast.NotEq, ast.Lt, ast.LtE, ast.Gt, ast.GtE)):
                unify(self.ty(a), TInt, a); unify(self.ty(b), TInt, b); return TBool
            raise Untranslatable(e, why="comparison operator %s" % type(op).__name__)
        if isinstance(e, ast.BoolOp):
            for x in e.values: unify(self.ty(x), TBool, x)
            return TBool
        if isinstance(e, ast.UnaryOp):
            if isinstance(e.op, ast.Not):
                unify(self.ty(e.operand), TBool, e.operand); return TBool
            raise Untranslatable(e, why="unary operator %s" % type(e.op).__name__)
        if isinstance(e, ast.BinOp):
            if isinstance(e.op, (ast.Add, ast.Mult)):
                unify(self.ty(e.left), TInt, e.left); unify(self.ty(e.right), TInt, e.right); return TInt
            raise Untranslatable(e, why="binary operator %s" % type(e.op).__name__)
        if isinstance(e, ast.Call):
            if e.keywords: raise Untranslatable(e, why="keyword arguments")
            fn = e.func
            if isinstance(fn, ast.Name):
                callee = None if f.lookup(fn.id) is not None else f.lookup_func(fn.id)
                if f.lookup(fn.id) is not None: raise Untranslatable(e, why="call of a variable")
                if callee is not None:
                    if len(e.args) != len(callee.params): raise Untranslatable(e, why="arity")
                    for a, p in zip(e.args, callee.params):
                        at = self.ty(a)
                        unify(at, p.ty, a)
                        if is_container(at): raise Untranslatable(a, why="container passed as an argument (aliasing)")
                    f.calls.add(callee); e._callee = callee
                    if callee is f or callee is f.parent and False: pass
                    return callee.ret
                if fn.id not in BUILTINS: raise Untranslatable(e, why="unknown function %s" % fn.id)
                if fn.id in ("dict", "set", "list"):
                    if e.args: raise Untranslatable(e, why="%s(...) with arguments" % fn.id)
                    return {"dict": TDict(TInt, TVar()), "set": TSet(TInt), "list": TList(TVar())}[fn.id]
                if fn.id in ("min", "max"):
                    if len(e.args) != 2: raise Untranslatable(e, why="%s needs exactly two int arguments" % fn.id)
                    for a in e.args: unify(self.ty(a), TInt, a)
                    return TInt
                if fn.id == "len":
                    if len(e.args) != 1 or not is_container(self.ty(e.args[0])): raise Untranslatable(e, why="len")
                    return TInt
            if isinstance(fn, ast.Attribute):
                rt = prune(self.ty(fn.value))
                if isinstance(rt, TCon) and rt.name.startswith("obj:"):
                    if e.args: raise Untranslatable(e, why="interface method with arguments")
                    m = INTERFACE[rt.name[4:]]["members"].get(fn.attr + "()")
                    if m is None: raise Untranslatable(e, why="method %s of %s" % (fn.attr, rt.name[4:]))
                    e._view = m[1]; return m[0]
                if not isinstance(rt, TCon): raise Untranslatable(e, why="method %s on a value of unknown type" % fn.attr)
                meth = (rt.name, fn.attr, len(e.args))
                if meth == ("list", "append", 1):
                    unify(rt.args[0], self.ty(e.args[0]), e); self.cur.mutates.add(self.base_var(fn.value)); return TNone
                if meth == ("list", "pop", 0):
                    self.cur.mutates.add(self.base_var(fn.value)); return rt.args[0]
                if meth == ("set", "add", 1):
                    self.key_type(e.args[0]); self.cur.mutates.add(self.base_var(fn.value)); return TNone
                if meth == ("set", "remove", 1):
                    self.key_type(e.args[0]); self.cur.mutates.add(self.base_var(fn.value)); return TNone
                raise Untranslatable(e, why="method %s/%d of %s" % (fn.attr, len(e.args), rt.name))
            raise Untranslatable(e, why="call form")
        raise Untranslatable(e, why="expression kind not in the subset")

    # ---------------------------------------------------------------- naming
    def assign_names(self, f, cname):
        f.cname = cname
        counts = {}
        for v in f.vars.values():
            if not resolved(v.ty): raise Untranslatable(v.node, why="type of %s not determined" % v.pyname)
            coq_type(v.ty, v.node)
            k = kind_letter(v.ty); i = counts.get(k, 0); counts[k] = i + 1
            v.cname = "%s_%s%d" % (cname, k, i)
        for i, c in enumerate(f.children.values()):
            self.assign_names(c, "%s_f%d" % (cname, i))

    # ---------------------------------------------------------------- pass 2: emission
    def emit_frame(self, f):
        w = self.out.append
        fr = f.cname + "_frame"
        names = ", ".join("%s = %s" % (v.cname, v.pyname) for v in f.vars.values())
        w("(* %s = Python `%s`%s; frame: %s *)" % (f.cname, f.pyname, " (closure of %s)" % f.parent.pyname if f.parent else "", names or "-"))
        fields = list(f.vars.values())
        if fields:
            w("Record %s := mk_%s { %s }." % (fr, f.cname, "; ".join("%s : %s" % (v.cname, coq_type(v.ty)) for v in fields)))
            for v in fields:
                w("Definition set_%s (r : %s) (x : %s) : %s := mk_%s %s." % (
                    v.cname, fr, coq_type(v.ty), fr, f.cname,
                    " ".join("x" if u is v else "(%s r)" % u.cname for u in fields)))
        else:
            w("Definition %s := unit. Definition mk_%s : %s := tt." % (fr, f.cname, fr))
        w("")

    def emit_func(self, f):
        if f.parent is None:
            self.emit_frame(f)
            for c in f.children.values(): self.emit_frame(c)
        for c in f.children.values(): self.emit_func(c)
        self.cur = f
        self.tmp = 0; self.loopn = 0; self.comp_env = []
        w = self.out.append
        fr = f.cname + "_frame"
        fields = list(f.vars.values())
        # recursion / fuel
        ret = prune(f.ret)
        retty = None if ret is TNone else coq_type(ret, f.node)
        params = " ".join("(a%d : %s)" % (i, coq_type(p.ty)) for i, p in enumerate(f.params))
        init = "mk_%s %s" % (f.cname, " ".join(("a%d" % f.params.index(v)) if v.is_param else default_value(v.ty) for v in fields)) if fields else "mk_" + f.cname
        self.da = set(f.params)
        self.escaped = set()
        self.in_loop_iter = []
        if f.parent is None:
            self.state_pat, self.state_ty = "l", fr
            final = (lambda t: "Some %s" % t)
            rty = "option %s" % (retty or "unit")
        else:
            pfr = f.parent.cname + "_frame"
            self.state_pat, self.state_ty = "(o, l)", "(%s * %s)" % (pfr, fr)
            final = (lambda t: "Some o" if retty is None else "Some (o, %s)" % t)
            rty = "option %s" % (pfr if retty is None else "(%s * %s)" % (pfr, retty))
        body = self.block(self.body_stmts(f), lambda: self.ret_code(f, final))
        fuelp = "(fuel : nat) " if f.needs_fuel else ""
        op = "(o : %s) " % (f.parent.cname + "_frame") if f.parent else ""
        name = f.cname if f.parent is not None else (f.cname + "_fuel" if f.needs_fuel else f.cname)
        if f.recursive:
            w("Fixpoint %s (fuel : nat) %s%s {struct fuel} : %s :=\n  match fuel with\n  | 0 => None\n  | S fuel =>\n  let l := %s in\n%s\n  end." % (name, op, params, rty, init, body))
        else:
            w("Definition %s %s%s%s : %s :=\n  let l := %s in\n%s." % (name, fuelp, op, params, rty, init, body))
        if f.parent is None and f.needs_fuel:
            conts = ["length a%d" % i for i, p in enumerate(f.params) if is_container(p.ty)]
            if not conts: raise Untranslatable(f.node, why="no bound for the recursion depth (no container parameter)")
            w("(* recursion fuel: one more than the total size of the container parameters *)")
            w("Definition %s %s : %s := %s_fuel (S (%s)) %s." % (f.cname, params, rty, f.cname, " + ".join(conts), " ".join("a%d" % i for i in range(len(f.params)))))
        w("")

    def body_stmts(self, f):
        return [st for st in f.node.body if not isinstance(st, ast.FunctionDef)]

    def ret_code(self, f, final):
        last = f.node.body[-1] if f.node.body else None
        if isinstance(last, ast.Return) and last.value is not None:
            return self.expr(last.value, final)
        return final("tt")

    def fresh(self):
        self.tmp += 1
        return "t%d" % self.tmp

    def some_state(self): return "Some " + self.state_pat
    def fun_state(self): return "fun l =>" if self.cur.parent is None else "fun '(o, l) =>"

    def bind_opt(self, code, pat, k):
        if k == "Some " + pat: return code        # match c with None => None | Some p => Some p end  =  c
        return "match %s with None => None | Some %s =>\n%s\nend" % (code, pat, k)

    def block(self, stmts, k):
        """code of the statements followed by the continuation k() (called exactly once)"""
        if not stmts: return k()
        st, rest = stmts[0], stmts[1:]
        return self.stmt(st, lambda: self.block(rest, k))

    def sub_block(self, stmts):
        """a nested block as a value of type option state"""
        return self.block(stmts, self.some_state)

    def read_var(self, v, node):
        if not isinstance(v, Var) or v.owner is None: return v.cname     # comprehension variable
        if v.owner is self.cur:
            if v not in self.da: raise Untranslatable(node, why="local %s may be unbound here" % v.pyname)
            return "(%s l)" % v.cname
        return "(%s o)" % v.cname

    def write_var(self, v, term):
        if v.owner is self.cur:
            self.da.add(v)
            return "let l := set_%s l %s in" % (v.cname, term)
        return "let o := set_%s o %s in" % (v.cname, term)

    def check_mutation(self, v, node):
        if v in self.escaped: raise Untranslatable(node, why="mutation of %s after it was stored in another container (aliasing)" % v.pyname)
        for itv in self.in_loop_iter:
            if itv is v: raise Untranslatable(node, why="mutation of %s while it is being iterated" % v.pyname)

    def stmt(self, st, k):
        f = self.cur
        if self.is_docstring(st) or isinstance(st, (ast.Pass, ast.Nonlocal)): return k()
        if isinstance(st, ast.Return): return k()         # tail position only (checked); value emitted by ret_code
        if isinstance(st, ast.AnnAssign):
            return self.assign([st.target], st.value, st, k)
        if isinstance(st, ast.Assign):
            return self.assign(st.targets, st.value, st, k)
        if isinstance(st, ast.AugAssign):
            t = st.target
            if isinstance(t, ast.Name):
                v = self.var_of(t.id, t)
                return self.expr(st.value, lambda b: self.write_var(v, "(%s + %s)" % (self.read_var(v, t), b)) + "\n" + k())
            if isinstance(t, ast.Subscript):
                # d[k] += e : d, k evaluated once; read, add, store
                return self.expr(t.value, lambda cont: self.expr(t.slice, lambda kk: self.read_item(t, cont, self.key(t.slice, kk), lambda old:
                       self.expr(st.value, lambda b: self.store_item(t, self.key(t.slice, kk), "(%s + %s)" % (old, b), st, k)))))
            raise Untranslatable(st)
        if isinstance(st, ast.Expr):
            return self.call_stmt(st.value, st, k)
        if isinstance(st, ast.If):
            def branches(c):
                da0, esc0 = set(self.da), set(self.escaped)
                a = self.sub_block(st.body); da1, esc1 = self.da, self.escaped
                self.da, self.escaped = set(da0), set(esc0)
                b = self.sub_block(st.orelse); da2, esc2 = self.da, self.escaped
                self.da, self.escaped = da1 & da2, esc1 | esc2
                return self.bind_opt("(if %s then\n%s\nelse\n%s)" % (c, a, b), self.state_pat, k())
            return self.expr(st.test, branches)
        if isinstance(st, ast.For):
            v = self.var_of(st.target.id, st.target)
            it = prune(st.iter._ty)
            base = self.iter_base(st.iter)
            if base is not None:
                muts = self.mutated_in(st.body)
                if base in muts: raise Untranslatable(st, why="the loop body mutates %s, which is being iterated" % base.pyname)
            def loop(xs):
                if it.name == "dict" and not is_keyset(it): xs = "(py_keys %s)" % xs
                da0 = set(self.da)
                self.escaped |= self.escaping_in(st.body)
                x = "x%d" % (len(self.comp_env) + self.loopn); self.loopn += 1
                self.da.add(v) if v.owner is self.cur else None
                body = "%s\n%s" % (self.write_var(v, x), self.sub_block(st.body))
                self.loopn -= 1
                self.da = da0
                code = "(py_for (fun %s => %s\n%s)\n %s %s)" % (x, self.fun_state(), body, xs, self.state_pat)
                return self.bind_opt(code, self.state_pat, k())
            return self.expr(st.iter, loop)
        if isinstance(st, ast.While):
            bound = self.while_bound(st)
            da0 = set(self.da)
            self.escaped |= self.escaping_in(st.body)
            cond = self.expr(st.test, lambda c: "Some %s" % c)
            self.da = set(da0)
            body = self.sub_block(st.body)
            self.da = da0
            code = "(py_while (S (length %s)) (%s %s) (%s\n%s)\n %s)" % (bound, self.fun_state(), cond, self.fun_state(), body, self.state_pat)
            return self.bind_opt(code, self.state_pat, k())
        raise Untranslatable(st, why="statement kind not in the subset")

    # --- static side conditions
    def iter_base(self, e):
        while isinstance(e, ast.Subscript): e = e.value
        if isinstance(e, ast.Name):
            v = self.var_of(e.id, e)
            return v if isinstance(v, Var) and v.owner is not None else None
        return None       # interface views are immutable snapshots

    def mutated_in(self, stmts):
        """variables possibly mutated by the statements, including through closure calls"""
        muts = set()
        for st in stmts:
            for n in ast.walk(st):
                if isinstance(n, (ast.Assign, ast.AugAssign, ast.AnnAssign)):
                    for t in (n.targets if isinstance(n, ast.Assign) else [n.target]):
                        while isinstance(t, ast.Subscript): t = t.value
                        if isinstance(t, ast.Name): muts.add(self.var_of(t.id, t))
                elif isinstance(n, ast.For) and isinstance(n.target, ast.Name):
                    muts.add(self.var_of(n.target.id, n.target))
                elif isinstance(n, ast.Call):
                    if getattr(n, "_callee", None) is not None: muts |= self.trans_mutates(n._callee)
                    elif isinstance(n.func, ast.Attribute) and n.func.attr in ("append", "pop", "add", "remove"):
                        t = n.func.value
                        while isinstance(t, ast.Subscript): t = t.value
                        if isinstance(t, ast.Name): muts.add(self.var_of(t.id, t))
        return muts

    def trans_mutates(self, f, seen=None):
        seen = seen or set()
        if f in seen: return set()
        seen.add(f)
        m = set(f.mutates)
        for c in f.calls: m |= self.trans_mutates(c, seen)
        return m

    def escaping_in(self, stmts):
        esc = set()
        for st in stmts:
            for n in ast.walk(st):
                vals = []
                if isinstance(n, ast.Call) and isinstance(n.func, ast.Attribute) and n.func.attr in ("append", "add"): vals = n.args
                elif isinstance(n, ast.Assign) and any(isinstance(t, ast.Subscript) for t in n.targets): vals = [n.value]
                for a in vals:
                    if isinstance(a, ast.Name) and is_container(a._ty): esc.add(self.var_of(a.id, a))
        return esc

    def while_bound(self, st):
        """a list variable L that the body pops unconditionally (top level of the body) and never extends or rebinds"""
        for s in st.body:
            call = s.value if isinstance(s, (ast.Expr, ast.Assign)) else None
            if isinstance(call, ast.Call) and isinstance(call.func, ast.Attribute) and call.func.attr == "pop" \
               and isinstance(call.func.value, ast.Name) and not call.args:
                L = self.var_of(call.func.value.id, call.func.value)
                ok = True
                for n in ast.walk(st):
                    if isinstance(n, ast.Call) and getattr(n, "_callee", None) is not None and L in self.trans_mutates(n._callee): ok = False
                    if isinstance(n, ast.Call) and isinstance(n.func, ast.Attribute) and n.func.attr != "pop" \
                       and isinstance(n.func.value, ast.Name) and self.cur.lookup(n.func.value.id) is L: ok = False
                    if isinstance(n, (ast.Assign, ast.AugAssign, ast.AnnAssign, ast.For)):
                        for t in (n.targets if isinstance(n, ast.Assign) else [n.target]):
                            while isinstance(t, ast.Subscript): t = t.value
                            if isinstance(t, ast.Name) and self.cur.lookup(t.id) is L: ok = False
                if ok: return self.read_var(L, call)
        raise Untranslatable(st, why="no termination bound known for this while loop (the body must pop a list unconditionally and never extend it)")

    # --- assignments
    def is_fresh_container(self, e):
        return (isinstance(e, (ast.Dict, ast.List, ast.DictComp)) or
                (isinstance(e, ast.Call) and isinstance(e.func, ast.Name) and e.func.id in ("dict", "set", "list")))

    def assign(self, targets, value, st, k):
        if is_container(value._ty):
            # value semantics is only right for containers that are not shared
            for t in targets:
                if isinstance(t, ast.Name) and not self.is_fresh_container(value):
                    raise Untranslatable(st, why="a variable bound to an existing container (aliasing)")
            if len(targets) > 1: raise Untranslatable(st, why="one container assigned to several targets (aliasing)")
            if isinstance(value, ast.Name): self.escaped.add(self.var_of(value.id, value))
        def go(val):
            def chain(ts):
                if not ts: return k()
                t = ts[0]
                if isinstance(t, ast.Name):
                    v = self.var_of(t.id, t)
                    self.escaped.discard(v)
                    return self.write_var(v, val) + "\n" + chain(ts[1:])
                if isinstance(t, ast.Subscript):
                    return self.expr(t.slice, lambda kk: self.store_item(t, self.key(t.slice, kk), val, st, lambda: chain(ts[1:])))
                raise Untranslatable(t, why="assignment target")
            return chain(list(targets))
        if len(targets) > 1 and prune(value._ty) is not TNone:
            # evaluate once, name it (the value of a chained assignment is computed once)
            t = self.fresh()
            return self.expr(value, lambda val: "let %s := %s in\n%s" % (t, val, go(t)))
        return self.expr(value, go)

    def store_item(self, t, key, val, st, k):
        """t: Subscript target `c[key] = val` with c a variable or one more subscript of a variable"""
        c = t.value
        ct = prune(c._ty)
        new_inner = (lambda old: "(py_kadd %s %s)" % (old, key)) if is_keyset(ct) else (lambda old: "(py_dset %s %s %s)" % (old, key, val))
        if is_keyset(ct) and prune(t._ty) is not TNone: raise Untranslatable(t)
        if isinstance(c, ast.Name):
            v = self.var_of(c.id, c)
            self.check_mutation(v, st)
            return self.write_var(v, new_inner(self.read_var(v, c))) + "\n" + k()
        if isinstance(c, ast.Subscript) and isinstance(c.value, ast.Name):
            # g[a][b] = val : read the inner container (KeyError if absent), update it, write it back
            v = self.var_of(c.value.id, c.value)
            self.check_mutation(v, st)
            return self.expr(c.slice, lambda k1: self.bind_opt(
                "py_dget %s %s" % (self.read_var(v, c.value), self.key(c.slice, k1)), self.fresh_keep(),
                self.write_var(v, "(py_dset %s %s %s)" % (self.read_var(v, c.value), self.key(c.slice, k1), new_inner(self.last_tmp))) + "\n" + k()))
        raise Untranslatable(t, why="item assignment nested deeper than two levels")

    def fresh_keep(self):
        self.last_tmp = self.fresh()
        return self.last_tmp

    def key(self, e, term):
        ak = getattr(e, "_askey", None)
        return (ak % term) if ak else term

    # --- calls in statement position
    def call_stmt(self, call, st, k):
        fn = call.func
        callee = getattr(call, "_callee", None)
        if callee is not None:
            return self.call_closure(call, callee, lambda _r: k())
        if isinstance(fn, ast.Attribute) and not hasattr(call, "_view"):
            rt = prune(fn.value._ty)
            recv = fn.value
            if not isinstance(recv, ast.Name): raise Untranslatable(call, why="method call on a non-variable container (aliasing)")
            v = self.var_of(recv.id, recv)
            self.check_mutation(v, st)
            cur = self.read_var(v, recv)
            if (rt.name, fn.attr) == ("list", "append"):
                a = call.args[0]
                if isinstance(a, ast.Name) and is_container(a._ty): self.escaped.add(self.var_of(a.id, a))
                return self.expr(a, lambda x: self.write_var(v, "(%s ++ [%s])" % (cur, x)) + "\n" + k())
            if (rt.name, fn.attr) == ("set", "add"):
                return self.expr(call.args[0], lambda x: self.write_var(v, "(py_sadd %s %s)" % (cur, self.key(call.args[0], x))) + "\n" + k())
            if (rt.name, fn.attr) == ("set", "remove"):
                t = self.fresh()
                return self.expr(call.args[0], lambda x: self.bind_opt("py_sremove %s %s" % (cur, self.key(call.args[0], x)), t,
                                                                       self.write_var(v, t) + "\n" + k()))
            if (rt.name, fn.attr) == ("list", "pop"):
                return self.expr(call, lambda _x: k())
        raise Untranslatable(call, why="call in statement position")

    def call_closure(self, call, callee, k):
        f = self.cur
        if callee.parent is None: raise Untranslatable(call, why="call of a top-level function")
        # every captured variable must be bound at the call
        if callee.parent is f:
            for v in self.trans_captured(callee):
                if v.owner is f and v not in self.da:
                    raise Untranslatable(call, why="%s may be unbound when %s is called" % (v.pyname, callee.pyname))
            outer = "l"
        elif callee.parent is f.parent:
            outer = "o"
        else:
            raise Untranslatable(call, why="call across scopes")
        def with_args(args):
            fuel = "fuel " if callee.needs_fuel else ""
            code = "%s %s%s %s" % (callee.cname, fuel, outer, " ".join(args))
            if prune(callee.ret) is TNone:
                return self.bind_opt(code, outer, k("tt"))
            t = self.fresh()
            return self.bind_opt(code, "(%s, %s)" % (outer, t), k(t))
        def collect(i, acc):
            if i == len(call.args): return with_args(acc)
            return self.expr(call.args[i], lambda a: collect(i + 1, acc + [a]))
        return collect(0, [])

    def trans_captured(self, f, seen=None):
        seen = seen or set()
        if f in seen: return set()
        seen.add(f)
        c = set(f.captured)
        for g in f.calls: c |= self.trans_captured(g, seen)
        return c

    # --- expressions (continuation-passing: k receives a pure Coq term)
    def read_item(self, e, cont, key, k):
        """c[key] with c already evaluated to the term cont (Python evaluates the container, then the key)"""
        ct = prune(e.value._ty)
        t = self.fresh()
        if ct.name == "dict":
            if is_keyset(ct): raise Untranslatable(e, why="read of a None-valued dict item")
            return self.bind_opt("py_dget %s %s" % (cont, key), t, k(t))
        return self.bind_opt("py_nth %s %s" % (cont, key), t, k(t))

    def expr(self, e, k):
        f = self.cur
        if isinstance(e, ast.Constant):
            if e.value is None: return k("tt")
            if isinstance(e.value, bool): return k("true" if e.value else "false")
            return k(str(e.value))
        if isinstance(e, ast.Name):
            return k(self.read_var(self.var_of(e.id, e), e))
        if isinstance(e, (ast.Dict, ast.List)) and not getattr(e, "elts", None):
            return k("[]")
        if isinstance(e, ast.List):
            def coll(i, acc):
                if i == len(e.elts): return k("[%s]" % "; ".join(acc))
                return self.expr(e.elts[i], lambda a: coll(i + 1, acc + [a]))
            return coll(0, [])
        if isinstance(e, ast.DictComp):
            g = e.generators[0]; cv = e._cv
            def comp(xs):
                it = prune(g.iter._ty)
                if it.name == "dict" and not is_keyset(it): xs = "(py_keys %s)" % xs
                self.comp_env.append({g.target.id: cv})
                pure = []
                kk = self.pure(e.key); vv = self.pure(e.value)
                self.comp_env.pop()
                acc = "acc%d" % len(self.comp_env)
                return k("(fold_left (fun %s %s => py_dset %s %s %s) %s [])" % (acc, cv.cname, acc, self.key(e.key, kk), vv, xs))
            return self.expr(g.iter, comp)
        if isinstance(e, ast.Attribute):
            return self.expr(e.value, lambda o: k(e._view % o))
        if isinstance(e, ast.Subscript):
            if isinstance(e.slice, ast.Constant) and isinstance(e.slice.value, int) and e.slice.value < 0:
                raise Untranslatable(e, why="negative index")
            return self.expr(e.value, lambda cont: self.expr(e.slice, lambda kk: self.read_item(e, cont, self.key(e.slice, kk), k)))
        if isinstance(e, ast.Compare):
            op, a, b = e.ops[0], e.left, e.comparators[0]
            if isinstance(op, (ast.In, ast.NotIn)):
                ct = prune(b._ty)
                memf = "py_dmem" if (ct.name == "dict" and not is_keyset(ct)) else "py_mem"
                neg = "negb " if isinstance(op, ast.NotIn) else ""
                return self.expr(a, lambda x: self.expr(b, lambda c: k("(%s(%s %s %s))" % (neg, memf, c, self.key(a, x)))))
            fmt = {ast.Eq: "(Nat.eqb %s %s)", ast.NotEq: "(negb (Nat.eqb %s %s))", ast.Lt: "(Nat.ltb %s %s)",
                   ast.LtE: "(Nat.leb %s %s)", ast.Gt: "(Nat.ltb %[2]s %[1]s)", ast.GtE: "(Nat.leb %[2]s %[1]s)"}[type(op)]
            def cmp(x, y):
                if "[" in fmt: return fmt.replace("%[1]s", x).replace("%[2]s", y)
                return fmt % (x, y)
            return self.expr(a, lambda x: self.expr(b, lambda y: k(cmp(x, y))))
        if isinstance(e, ast.BoolOp):
            # short-circuit, left to right; later operands may raise only when they are evaluated
            is_and = isinstance(e.op, ast.And)
            def chain(vals):
                if len(vals) == 1: return self.expr(vals[0], lambda c: "Some %s" % c)
                da0 = set(self.da)
                rest_code = None
                def first(c):
                    rest = chain(vals[1:])
                    return ("(if %s then %s else Some false)" if is_and else "(if %s then Some true else %s)") % (c, rest)
                return self.expr(vals[0], first)
            if all(self.is_pure(v) for v in e.values):
                terms = [self.pure(v) for v in e.values]
                out = terms[-1]
                for t in reversed(terms[:-1]):
                    out = ("(andb %s %s)" if is_and else "(orb %s %s)") % (t, out)
                return k(out)
            t = self.fresh()
            return self.bind_opt(chain(list(e.values)), t, k(t))
        if isinstance(e, ast.UnaryOp):
            return self.expr(e.operand, lambda c: k("(negb %s)" % c))
        if isinstance(e, ast.BinOp):
            op = "+" if isinstance(e.op, ast.Add) else "*"
            return self.expr(e.left, lambda x: self.expr(e.right, lambda y: k("(%s %s %s)" % (x, op, y))))
        if isinstance(e, ast.Call):
            fn = e.func
            callee = getattr(e, "_callee", None)
            if callee is not None:
                if prune(callee.ret) is TNone: raise Untranslatable(e, why="value of a procedure call used")
                return self.call_closure(e, callee, k)
            if hasattr(e, "_view"):
                return self.expr(fn.value, lambda o: k(e._view % o))
            if isinstance(fn, ast.Name):
                if fn.id in ("dict", "set", "list"): return k("[]")
                if fn.id in ("min", "max"):
                    return self.expr(e.args[0], lambda x: self.expr(e.args[1], lambda y: k("(Nat.%s %s %s)" % (fn.id, x, y))))
                if fn.id == "len":
                    return self.expr(e.args[0], lambda x: k("(length %s)" % x))
            if isinstance(fn, ast.Attribute) and fn.attr == "pop" and isinstance(fn.value, ast.Name):
                v = self.var_of(fn.value.id, fn.value)
                self.check_mutation(v, e)
                r, x = self.fresh(), self.fresh()
                if is_container(e._ty): raise Untranslatable(e, why="pop of a container-valued list (aliasing)")
                return self.bind_opt("py_pop %s" % self.read_var(v, fn.value), "(%s, %s)" % (r, x),
                                     self.write_var(v, r) + "\n" + k(x))
            raise Untranslatable(e, why="call in expression position")
        raise Untranslatable(e, why="expression kind not in the subset")

    def is_pure(self, e):
        """no exception, no effect: constants, variables, interface views, arithmetic, membership"""
        for n in ast.walk(e):
            if isinstance(n, ast.Subscript): return False
            if isinstance(n, ast.Call):
                if getattr(n, "_callee", None) is not None: return False
                if isinstance(n.func, ast.Attribute) and not hasattr(n, "_view"): return False
        return True

    def pure(self, e):
        if not self.is_pure(e): raise Untranslatable(e, why="expression that can raise inside a comprehension / operand")
        box = []
        self.expr(e, lambda t: (box.append(t), "")[1])
        return box[0]

    # ---------------------------------------------------------------- driver
    def run(self):
        tops = {n.name: n for n in self.tree.body if isinstance(n, ast.FunctionDef)}
        roots = []
        for py, cq in self.entry.items():
            if py not in tops: raise Untranslatable("FunctionDef", 0, "function %s not found in the source" % py)
            roots.append((self.build_scope(tops[py], None), cq))
        for f, cq in roots:
            self.infer_func(f)
            self.assign_names(f, cq)
            # recursion: only direct self-recursion of a closure
            allf = [f] + list(f.children.values())
            for g in allf:
                g.recursive = g in g.calls
                if g.recursive and g.parent is None: raise Untranslatable(g.node, why="recursive top-level function")
            for g in allf:
                for h in g.calls:
                    if h is not g and g in self.reach(h): raise Untranslatable(g.node, why="mutual recursion")
            for g in allf: g.needs_fuel = g.recursive
            changed = True
            while changed:
                changed = False
                for g in allf:
                    if not g.needs_fuel and any(h.needs_fuel for h in g.calls): g.needs_fuel = True; changed = True
            for g in f.children.values():
                if g.needs_fuel and not g.recursive: raise Untranslatable(g.node, why="non-recursive closure calling a recursive one")
            self.emit_func(f)
        return "\n".join(self.out)

    def reach(self, f, seen=None):
        seen = seen if seen is not None else set()
        for h in f.calls:
            if h not in seen:
                seen.add(h); self.reach(h, seen)
        return seen

ENTRY = {"nonterminal_graph": "gen_ntgraph", "scc": "gen_scc"}

def function_source(source, names):
    """the exact source text of the named top-level functions (what the sha256 covers)"""
    tree = ast.parse(source)
    lines = source.splitlines(keepends=True)
    parts = []
    for n in tree.body:
        if isinstance(n, ast.FunctionDef) and n.name in names:
            parts.append("".join(lines[n.lineno - 1:n.end_lineno]))
    return "".join(parts)

def repo_source(repo=None):
    repo = repo or os.environ.get("FGGS_REPO", "/repo")
    path = os.path.join(repo, "fggs", "utils.py")
    with open(path) as fh: return path, fh.read()

def translate(source=None, repo=None):
    """returns (coq_text, sha256 of the translated source text, sha256 of the definitions)"""
    path = "<string>"
    if source is None: path, source = repo_source(repo)
    fsrc = function_source(source, set(ENTRY))
    sha = hashlib.sha256(fsrc.encode()).hexdigest()
    body = Translator(source, ENTRY).run()
    # the name-map comments mention Python names; the digest of the definitions ignores them
    defs = "\n".join(l for l in body.splitlines() if not l.startswith("(* "))
    dsha = hashlib.sha256(defs.encode()).hexdigest()
    head = ("(** GENERATED by harness/translate/py2gallina.py -- do not edit, do not commit.\n"
            "    source: fggs/utils.py, functions %s\n"
            "    sha256 of the translated source text: %s\n"
            "    sha256 of the definitions below (comment lines excluded; invariant under renaming): %s *)\n"
            "From Coq Require Import List Arith Bool PeanoNat.\nImport ListNotations.\n"
            "Require Import Fggs.Model.PyRT.\n\n") % (", ".join(sorted(ENTRY)), sha, dsha)
    return head + body + "\n", sha, dsha

def main(argv):
    import argparse
    ap = argparse.ArgumentParser(description=__doc__.splitlines()[0])
    ap.add_argument("--repo", default=None)
    ap.add_argument("--out", default=os.path.join(os.path.dirname(os.path.dirname(os.path.dirname(os.path.abspath(__file__)))),
                                                  "coq", "theories", "Generated", "SCC_gen.v"))
    a = ap.parse_args(argv)
    try:
        text, sha, dsha = translate(repo=a.repo)
    except Untranslatable as e:
        print(e); return 1
    if a.out == "-": sys.stdout.write(text)
    else:
        os.makedirs(os.path.dirname(a.out), exist_ok=True)
        with open(a.out, "w") as fh: fh.write(text)
        print("wrote %s (source sha256 %s)" % (a.out, sha))
    return 0

if __name__ == "__main__":
    sys.exit(main(sys.argv[1:]))
