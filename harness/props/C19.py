"""C19 -- scc / nonterminal_graph."""
import itertools, random
from harness.core import *
from harness import gen

PID = "C19"
LEVEL = "proof"
GraphT = List(Tup(Nat, List(Nat)))
RulesT = List(Tup(Nat, List(Tup(Nat, Bool))))
SCC = CheckFn("scc", "Model.SCC", "scc_check", Tup(GraphT, List(List(Nat))))
NTG = CheckFn("ntgraph", "Model.SCC", "ntg_check", Tup(List(Nat), RulesT, GraphT))
CHECKFNS = [SCC, NTG]
SPO = CheckFn("sporder", "Model.SCCOrder", "sp_order_check", Tup(List(Nat), RulesT, List(List(Nat)), List(Nat)))
CHECKFNS.append(SPO)     # stream "hist" (harness/props/_c19_hist.py)
ASSUMPTIONS = [
    "dict keys are canonicalised to naturals; key type (int/str/tuple/EdgeLabel) is varied by the generator but not modelled",
    "graphs are closed (distinct keys, every successor is a key): on other inputs fggs.utils.scc raises KeyError; the check function returns verdict 2 for them and the theorems assume closed g = true",
]

def _keyfun(kind):
    if kind == 0: return lambda i: i
    if kind == 1: return lambda i: "v%d" % i
    if kind == 2: return lambda i: (i, "x")
    return lambda i: frozenset([i])

def run_scc_impl(g, kind):
    """g: list of (v, [w...]) over nats in insertion order. Returns components as nat lists (pop order)."""
    from fggs.utils import scc
    k = _keyfun(kind)
    d = {k(v): {k(w): None for w in ws} for v, ws in g}
    back = {k(v): v for v, _ in g}
    out = scc(d)
    return [[back[x] for x in comp] for comp in out]

def all_graphs(n):
    vs = list(range(n))
    subs = [[v for v in vs if (m >> v) & 1] for m in range(1 << n)]
    for combo in itertools.product(subs, repeat=n):
        yield [(v, list(ws)) for v, ws in zip(vs, combo)]

def random_graph(rng, n, p):
    order = list(range(n)); rng.shuffle(order)
    g = []
    for v in order:
        ws = [w for w in range(n) if rng.random() < p]
        rng.shuffle(ws)
        g.append((v, ws))
    return g

def shape(g):
    return (len(g), sum(len(ws) for _, ws in g))

def run(tier, seed):
    rng = random.Random(seed)
    violations = []
    cases = []
    # exhaustive part
    exh = 4
    for n in range(exh + 1):
        cases.extend(all_graphs(n))
    n_exh = len(cases)
    n_rand = 3000 if tier == "quick" else 60000
    if tier == "thorough":
        for _ in range(150000):     # sampled 5-vertex graphs in canonical order
            cases.append([(v, [w for w in range(5) if rng.random() < 0.3]) for v in range(5)])
    for i in range(n_rand):
        n = rng.randint(3, 9 if tier == "quick" else 12)
        cases.append(random_graph(rng, n, rng.choice([0.1, 0.2, 0.35, 0.6])))
    vals = []
    sizes = {}
    for i, g in enumerate(cases):
        try:
            out = run_scc_impl(g, i % 4)
        except Exception as e:
            violations.append(Violation("scc raised %r" % (e,), case=dict(graph=g), call="fggs.utils.scc", corr="corr:scc"))
            continue
        vals.append((g, out))
        sizes[len(g)] = sizes.get(len(g), 0) + 1
    codes, nk = run_model(SCC, vals, seed=seed, tag="scc")
    for (g, out), c in zip(vals, codes):
        if c == 0: continue
        if c == 1:
            violations.append(Violation("scc output is not the dependency-ordered SCC partition (verified oracle scc_ok rejects it)",
                                        case=dict(graph=g), observed=out, oracle="scc_ok", corr="C19_checker / corr:scc", call="fggs.utils.scc(graph)"))
        else:
            violations.append(Violation("scc output differs from the Gallina model of Tarjan (code %d) although the oracle accepts it" % c,
                                        case=dict(graph=g), observed=out, corr="corr:scc (Model.SCC.scc)", failing_input_found=False,
                                        call="fggs.utils.scc(graph)"))
    distinct = len({repr(g) for g, _ in vals if len(g) >= 3 and any(ws for _, ws in g)})
    # nonterminal_graph on random HRGs
    n_h = 400 if tier == "quick" else 6000
    hvals = []; hinfo = []
    from fggs.utils import nonterminal_graph
    for i in range(n_h):
        h, meta = gen.random_hrg(rng)
        nts = list(h.nonterminals())
        num = {x: j for j, x in enumerate(nts)}
        if i % 2 == 1:
            # history: a nonterminal edge that was added to a right-hand side and removed again (as inlining a
            # nonterminal with replace_edge does) leaves its label in the rhs graph's label table; it is no longer
            # "on the right-hand side" and must not give an edge of the nonterminal graph
            import fggs
            for r in h.all_rules():
                if rng.random() < 0.6:
                    y = rng.choice(nts); nodes = []
                    for nl in y.type:
                        cands = [v for v in r.rhs.nodes() if v.label == nl]
                        if not cands: nodes = None; break
                        nodes.append(rng.choice(cands))
                    if nodes is None: continue
                    e = fggs.Edge(y, nodes); r.rhs.add_edge(e); r.rhs.remove_edge(e)
                    meta.setdefault("features", []).append("history:rhs edge added and removed")
        tnum = {}
        def lab(l):
            if l in num: return num[l]
            return 1000 + tnum.setdefault(l, len(tnum))
        rules = [(num[r.lhs], [(lab(e.label), e.label.is_nonterminal) for e in r.rhs.edges()]) for r in h.all_rules()]
        try:
            g = nonterminal_graph(h)
            out = [(num[x], [num[y] for y in g[x]]) for x in g]
        except Exception as e:
            violations.append(Violation("nonterminal_graph raised %r" % (e,), case=meta, call="fggs.utils.nonterminal_graph", corr="corr:ntgraph"))
            continue
        hvals.append((list(range(len(nts))), rules, out)); hinfo.append(meta)
    hcodes, nk2 = run_model(NTG, hvals, seed=seed, tag="ntg")
    for v, m, c in zip(hvals, hinfo, hcodes):
        if c == 0: continue
        violations.append(Violation("nonterminal_graph: " + ("wrong vertices/edges (oracle ntg_ok rejects)" if c == 1 else "order differs from model"),
                                    case=dict(nonterminals=v[0], rules=v[1], hrg=m), observed=v[2], oracle="ntg_ok" if c == 1 else None,
                                    corr="C19_nonterminal_graph_edges / corr:ntgraph", failing_input_found=(c == 1),
                                    call="fggs.utils.nonterminal_graph(hrg)"))
    hd = len({repr(v[1]) for v in hvals if len(v[1]) >= 2})
    # stream "hist": histories of queries and in-place edits on the same FGG object (harness/props/_c19_hist.py)
    from harness.props import _c19_hist
    hist_viol, hist = _c19_hist.run_stream(tier, seed, SCC, NTG, SPO)
    violations.extend(hist_viol)
    cov = dict(evaluations=len(vals) + len(hvals), distinct_nontrivial=distinct + hd,
               rule="scc: every labelled digraph with <= %d vertices (self-loops, canonical insertion order; exhaustive: %d graphs) + random digraphs with shuffled vertex and successor insertion orders and 4 key types; non-trivial = >= 3 vertices and >= 1 edge, distinct by adjacency structure. nonterminal_graph: random HRGs (gen.random_hrg), every second one with a history (a nonterminal edge added to a right-hand side and removed again, which leaves its label in that graph's label table); non-trivial = >= 2 rules" % (exh, n_exh),
               exhaustive_part="all digraphs on <= %d vertices" % exh,
               samples=[dict(graph=vals[n_exh // 2][0], impl_components=vals[n_exh // 2][1]),
                        dict(graph=vals[-1][0], impl_components=vals[-1][1]),
                        dict(nonterminals=hvals[0][0], rules=hvals[0][1], impl_graph=hvals[0][2])],
               size_histogram=sizes, kernel_reevaluated=nk + nk2,
               open_items=[])
    cov["evaluations"] += hist["evaluations"]; cov["distinct_nontrivial"] += hist["distinct_nontrivial"]
    cov["kernel_reevaluated"] += hist["kernel_reevaluated"]
    cov["history_stream"] = hist
    cov["rule"] += _c19_hist_rule()
    if tier == "thorough":
        # independent re-check of the compiled development with coqchk (several minutes)
        rc, out = sh(["timeout", "1500", "coqchk", "-silent", "-o", "-R", os.path.join(COQDIR, "theories"), "Fggs", "Fggs.Props.C19"], cwd=COQDIR, timeout=1600)
        summary = out[out.find("CONTEXT SUMMARY"):][:1500] if "CONTEXT SUMMARY" in out else out[-1500:]
        cov["coqchk"] = dict(exit=rc, summary=summary)
        if rc != 0 or "Axioms: <none>" not in out:
            violations.append(Violation("coqchk does not accept Props/C19 without axioms", case=None, observed=summary,
                                        corr="coqchk -o Fggs.Props.C19", failing_input_found=False))
    return cov, violations

def replay(path):
    import json
    r = json.load(open(path))
    c = r["case"]
    if c.get("history"):
        from harness.props import _c19_hist
        return _c19_hist.replay_case(c, SCC, NTG, SPO)
    if "graph" in c:
        g = [(v, ws) for v, ws in c["graph"]]
        out = run_scc_impl(g, 0)
        code = run_coq(SCC, [(g, out)], tag="replay")[0]
        print("graph", g, "impl", out, "verdict code", code)
        return 1 if code else 0
    print("replay of nonterminal_graph cases: re-run bin/check C19 quick with the same seed")
    return 1

MANIFEST = dict(
    level="proof",
    text="Coq theorems: nonterminal_graph model has exactly the specified vertices and edges (unbounded); the Tarjan model (which follows fggs.utils.scc statement by statement) is proved correct for EVERY closed graph by an invariant proof (C19_partition: the fuel never runs out and every vertex is emitted exactly once; C19_tarjan_correct / C19_tarjan_correct_spec: the output is the dependency-ordered SCC decomposition: components = classes of mutual reachability, no edge from a component to a later one); the executable oracle scc_ok is proved sound AND complete for that Prop-level specification (C19_checker, C19_reaches_correct). The bounded theorems (all digraphs on <= 4 vertices, all insertion orders on 3) are kept as an independent in-kernel cross-check. The model is tied to /repo by running both on the same graphs (exhaustive to 4 vertices, random beyond) and requiring identical component lists; the verified oracles scc_ok / ntg_ok judge every implementation output.",
    note="Trusted: Coq kernel + vm_compute, extraction (ExtrOcamlBasic only) cross-checked against vm_compute, the Python harness that numbers dict keys, and the statement-by-statement reading of fggs.utils.scc into Model/SCC.v (tested by the correspondence run, not proved). The theorems assume closed graphs (every successor is a key), which is what nonterminal_graph produces and outside of which the Python code raises KeyError.",
    technique="Coq proof (model + theorems) + model/implementation correspondence with verified-spec oracle",
    design_ref="DESIGN.md section 6, C19")

def _c19_hist_rule():
    return (". sum_products / histories (stream hist): random FGGs (1-5 nonterminals, acyclic and recursive) built through 4 paths (add_rule; "
            "FGG.from_hrg sharing the HRG's rule objects; .copy() of a queried object; rules added in two stages around a sum_products call), "
            "then 1-3 rounds of in-place edits -- rhs.add_edge of a nonterminal edge (70% against the generation order), rhs.remove_edge, "
            "relabelling an edge, rule.rhs = rule.rhs.copy(), new factor weights, and in a third of the histories add_rule -- with "
            "nonterminal_graph, scc, sum_products (fixed-point / newton) and viterbi queried on the SAME object before the first and after every round, "
            "and on .copy() at the end; every sixth grammar is a cycle through 2-4 nonterminals; each answer is judged against the grammar as it is "
            "at that moment (ntg_check, scc_check, sp_order_check on the blocks handed to the per-component solver -- for viterbi the components "
            "it visits -- and the keys of the result) and compared (values bit for bit, blocks, exceptions) with an equal grammar built afresh and never queried; non-trivial = a round that keeps the numbers of nonterminals and rules and "
            "changes the SCC decomposition, distinct by (rules before, rules after)")

ASSUMPTIONS.append("stream hist observes the order in which sum_products solves the nonterminals at SumProduct.apply_to_patterned_tensors (out_labels of the successive calls) and through the key order of the returned dict; both must agree; the components viterbi visits are observed at fggs.viterbi.FGGMultiShape(fgg, comp)")
MANIFEST["text"] += (" The last clause of the property (every nonterminal's sum-product is computed after those it depends on and every nonterminal "
                     "receives a value) is C19_sum_products_order: verdict 0 of sp_order_check on an observed call means every nonterminal has a value, lies in "
                     "exactly one block, and everything its rules mention lies in the same or an earlier block, for the grammar as it is at the time of the call; "
                     "it is checked on histories of queries and in-place edits of the same FGG object (stream hist), where a decomposition remembered from an "
                     "earlier state of the object is rejected by the verified oracle or shows up as an exception that a freshly built equal grammar does not raise.")
