"""C19 -- scc / nonterminal_graph.

Two ties between the Coq development and /repo:
  * correspondence: the hand-written model (Model/SCC.v) and the implementation run on the same
    generated inputs (run());
  * translation: harness/translate/py2gallina.py regenerates Gallina definitions from the source
    text of fggs/utils.py on every run, and coq/theories/GeneratedProofs/ proves that they compute
    what the hand-written model computes, so that the property theorems are re-checked against
    what the code says now (translator_tie()).
"""
import itertools, random, hashlib, fcntl, ast as _ast
from harness.core import *
from harness import gen

PID = "C19"
LEVEL = "proof"
GraphT = List(Tup(Nat, List(Nat)))
RulesT = List(Tup(Nat, List(Tup(Nat, Bool))))
SCC = CheckFn("scc", "Model.SCC", "scc_check", Tup(GraphT, List(List(Nat))))
NTG = CheckFn("ntgraph", "Model.SCC", "ntg_check", Tup(List(Nat), RulesT, GraphT))
CHECKFNS = [SCC, NTG]
SPO = CheckFn("sporder", "Model.SCCOrder", "sp_order_check", Tup(List(Nat), RulesT, List(List(Nat)), List(Nat)))
CHECKFNS.append(SPO)     # stream "hist" (harness/props/_c19_hist.py)
ASSUMPTIONS = [
    "dict keys are canonicalised to naturals; key type (int/str/tuple/EdgeLabel) is varied by the generator but not modelled",
    "graphs are closed (distinct keys, every successor is a key): on other inputs fggs.utils.scc raises KeyError; the check function returns verdict 2 for them and the theorems assume closed g = true",
    "translator tie: the Gallina definitions gen_scc / gen_ntgraph are REGENERATED on every run from the source text of $FGGS_REPO/fggs/utils.py (functions scc, nonterminal_graph) by harness/translate/py2gallina.py; the theorems C19_gen_* (GeneratedProofs/C19_gen.v) are re-checked against them on every run. They say what the property theorems say, about the generated functions, PROVIDED the translator and the run-time library Model/PyRT.v give the Python subset its real meaning (trusted, not proved); the recursion fuel S(len(g)) and the while-loop fuel S(len(stack)) are artefacts of the embedding and are proved sufficient (the generated function never returns None on a closed graph)",
    "translator tie, nonterminal_graph: the HRG is seen through the INTERFACE table of the translator as (nonterminals, [(lhs, [(edge label, is_nonterminal)])]); the theorems about gen_ntgraph assume distinct nonterminals and that every rule's left-hand side is a nonterminal (otherwise g[r.lhs] raises KeyError, modelled as None)",
]
TRUSTED_EXTRA = [
    "harness/translate/py2gallina.py (Python-subset -> Gallina translator, fail-closed: raises Untranslatable on anything outside the subset) and its INTERFACE table (data abstraction of HRG / HRGRule / Edge / EdgeLabel); coq/theories/Model/PyRT.v (meaning of dict / list / set operations, for / while); Python's own ast module",
    "regenerated on every run: coq/theories/Generated/SCC_gen.v (not committed; compiled only in build/gen/<tree>/, never by the main make); re-checked against it on every run: coq/theories/GeneratedProofs/SCC_gen_refines.v (hand-written refinement proofs) and GeneratedProofs/C19_gen.v (Print Assumptions parsed)",
]

def _keyfun(kind):
    if kind == 0: return lambda i: i
    if kind == 1: return lambda i: "v%d" % i
    if kind == 2: return lambda i: (i, "x")
    return lambda i: frozenset([i])

def run_scc_impl(g, kind):
    """g: list of (v, [w...]) over nats in insertion order. Returns components as nat lists (pop order)."""
    from fggs.utils import scc
    k = _keyfun(kind)
    d = {k(v): {k(w): None for w in ws} for v, ws in g}
    back = {k(v): v for v, _ in g}
    out = scc(d)
    return [[back[x] for x in comp] for comp in out]

def all_graphs(n):
    vs = list(range(n))
    subs = [[v for v in vs if (m >> v) & 1] for m in range(1 << n)]
    for combo in itertools.product(subs, repeat=n):
        yield [(v, list(ws)) for v, ws in zip(vs, combo)]

def random_graph(rng, n, p):
    order = list(range(n)); rng.shuffle(order)
    g = []
    for v in order:
        ws = [w for w in range(n) if rng.random() < p]
        rng.shuffle(ws)
        g.append((v, ws))
    return g

def shape(g):
    return (len(g), sum(len(ws) for _, ws in g))

# ----------------------------------------------------------------------------
# the translator tie

TIED_BY_TRANSLATION = [
    "fggs.utils.scc, including its closure visit (source text -> Fggs.Generated.SCC_gen.gen_scc; C19_gen_scc_refines, C19_gen_tarjan_correct_spec)",
    "fggs.utils.nonterminal_graph (source text -> gen_ntgraph over the HRG view (nonterminals, rules); C19_gen_ntgraph_refines, C19_gen_nonterminal_graph_vertices/_edges)",
]
TIED_BY_CORRESPONDENCE_ONLY = [
    "HRG.nonterminals / HRG.all_rules / HRGRule.lhs / Graph.edges / EdgeLabel.is_nonterminal: abstracted by the INTERFACE table of the translator as (nonterminals, [(lhs, [(label, is_nonterminal)])]); the harness builds that view from the fggs objects and the generated function is evaluated on it",
    "the meaning of the Python dict / list / set operations (coq/theories/Model/PyRT.v) and the canonical numbering of dict keys by the harness",
    "the hand-written model Model/SCC.v itself remains tied by the correspondence run; the translation tie is an additional, independent tie",
]
TIE_THEOREMS_FILE = "coq/theories/GeneratedProofs/C19_gen.v"
TIE_PROOF_FILE = "coq/theories/GeneratedProofs/SCC_gen_refines.v"
_GEN_IMPORTS = ("From Coq Require Import List Arith Bool.\nImport ListNotations.\n"
                "Require Import Fggs.Model.SCC Fggs.Generated.SCC_gen.\n")
# verdicts of the generated-model checks: 0 = the generated function returns exactly the implementation's output and
# the oracle accepts it; 1 = the oracle rejects the GENERATED function's output; 2 = the oracle rejects the
# implementation's output; 10 = both accepted but different; 11 = the generated function returns None (a Python
# exception or fuel exhaustion in the model) where the implementation returned normally
_GEN_SCC_CHK = """Definition chk (x : graph * list (list nat)) : nat :=
  let (g, out) := x in
  match gen_scc g with
  | None => 11
  | Some cs => if llist_eqb cs out then (if scc_ok g cs then 0 else 1)
               else if negb (scc_ok g cs) then 1 else if negb (scc_ok g out) then 2 else 10
  end.
"""
_GEN_NTG_CHK = """Definition chk (x : list nat * rules_t * graph) : nat :=
  let '(nts, rules, out) := x in
  match gen_ntgraph (nts, rules) with
  | None => 11
  | Some g => if negb (ntg_ok nts rules g) then 1 else if negb (ntg_ok nts rules out) then 2 else if graph_eqb g out then 0 else 10
  end.
"""
_GEN_SEARCH = """Require Import Fggs.Proofs.SCC_bounded.
Definition bad_oracle (g : graph) : bool := match gen_scc g with Some cs => negb (scc_ok g cs) | None => false end.
Definition bad_model (g : graph) : bool :=
  match gen_scc g, scc g with Some a, Some b => negb (llist_eqb a b) | None, None => false | _, _ => true end.
Eval vm_compute in (find bad_oracle (graphs_upto4 ++ graphs_perm3)).
Eval vm_compute in (find bad_model (graphs_upto4 ++ graphs_perm3)).
"""

def _tie_dir():
    return os.path.join(BUILD, "gen", hashlib.sha1(REPO.encode()).hexdigest()[:10])

def _coqc(path, scratch, timeout=600):
    return sh(["timeout", str(timeout), "coqc", "-q", "-R", os.path.join(COQDIR, "theories"), "Fggs", "-R", scratch, "Fggs", path],
              cwd=os.path.dirname(path), timeout=timeout + 30)

def _run_gen_cases(scratch, tag, chk, ty, values, shard=125, jobs=8, timeout=600):
    """evaluate the generated function (through chk) on every value inside Coq (vm_compute); list of codes"""
    import subprocess
    d = os.path.join(scratch, "cases"); os.makedirs(d, exist_ok=True)
    files = []
    for k in range(0, len(values), shard):
        chunk = values[k:k + shard]
        path = os.path.join(d, "GenCases_%s_%d.v" % (tag, k // shard))
        with open(path, "w") as f:
            f.write(_GEN_IMPORTS + chk)
            f.write("Definition cases : list %s := [\n" % ty.coqty())
            f.write(";\n".join(ty.coq(v) for v in chunk))
            f.write("\n].\nEval vm_compute in (List.map chk cases).\n")
        files.append((path, len(chunk)))
    codes, pending, running = {}, list(files), []
    def launch(path):
        return subprocess.Popen(["timeout", str(timeout), "coqc", "-q", "-R", os.path.join(COQDIR, "theories"), "Fggs",
                                 "-R", scratch, "Fggs", path], stdout=subprocess.PIPE, stderr=subprocess.STDOUT, text=True, cwd=d)
    while pending or running:
        while pending and len(running) < jobs:
            p, n = pending.pop(0); running.append((p, n, launch(p)))
        p, n, pr = running.pop(0)
        out, _ = pr.communicate()
        if pr.returncode != 0: raise BuildError("coqc failed on %s:\n%s" % (p, out[-3000:]))
        body = out[out.rfind("= "):]
        cs = [int(x) for x in re.findall(r"\d+", body[:body.rfind(":")])]
        if len(cs) != n: raise BuildError("could not parse coqc output for %s:\n%s" % (p, out[-2000:]))
        codes[p] = cs
    return [c for p, _ in files for c in codes[p]]

def _parse_found_graphs(out):
    """the results of the two `Eval vm_compute in (find ...)` of _GEN_SEARCH: graph or None each"""
    res = []
    for m in re.finditer(r"=\s*(None|Some\s*(\[.*?\]))\s*:\s*option", out, re.S):
        if m.group(1) == "None": res.append(None)
        else: res.append([(v, list(ws)) for v, ws in _ast.literal_eval(m.group(2).replace(";", ","))])
    return res

def _enclosing_statement(src_path, log):
    """name of the Lemma/Theorem in which coqc reported its error (from the 'line N' of the message)"""
    m = re.search(r'line (\d+), characters', log)
    if not m or not os.path.exists(src_path): return None
    name = None
    for i, line in enumerate(open(src_path), 1):
        mm = re.match(r"\s*(?:Theorem|Lemma|Corollary|Example|Definition|Fixpoint|Ltac|Record)\s+([A-Za-z0-9_']+)", line)
        if mm: name = mm.group(1)
        if i >= int(m.group(1)): break
    return name

def _tie_build(log, audit=True):
    """(a) translate the current source, (b) compile the generated file and the tie proofs into the scratch
    directory, (c) audit Print Assumptions.  Returns a dict with status in
    proved | untranslatable | generated-file-rejected | proof-broken | evaluated-only."""
    from harness.translate import py2gallina
    t0 = time.time()
    scratch = _tie_dir()
    th = os.path.join(COQDIR, "theories")
    res = dict(scratch=scratch, translator="harness/translate/py2gallina.py", source=os.path.join(REPO, "fggs", "utils.py"))
    for sub in ("Generated", "GeneratedProofs"):
        os.makedirs(os.path.join(scratch, sub), exist_ok=True)
        # objects of these two directories must only exist in the scratch build (two -R roots are searched)
        for f in os.listdir(os.path.join(th, sub)) if os.path.isdir(os.path.join(th, sub)) else []:
            if f.endswith((".vo", ".vok", ".vos", ".glob", ".aux")): os.remove(os.path.join(th, sub, f))
    shutil.rmtree(os.path.join(scratch, "cases"), ignore_errors=True)
    # (a)
    try:
        text, sha, dsha = py2gallina.translate()
    except py2gallina.Untranslatable as e:
        res.update(status="untranslatable", broken="harness/translate/py2gallina.py: %s" % e, detail=str(e), translate_s=round(time.time() - t0, 2))
        return res
    except (SyntaxError, OSError) as e:
        res.update(status="untranslatable", broken="harness/translate/py2gallina.py: cannot read/parse the source: %r" % (e,), detail=repr(e))
        return res
    res.update(source_sha256=sha, definitions_sha256=dsha, translate_s=round(time.time() - t0, 2))
    if REPO == "/repo":       # a copy for the reader, next to the hand-written files (git-ignored, never compiled there)
        os.makedirs(os.path.join(th, "Generated"), exist_ok=True)
        with open(os.path.join(th, "Generated", "SCC_gen.v"), "w") as f: f.write(text)
    proofs = {}
    for name in ("SCC_gen_refines.v", "C19_gen.v"):
        p = os.path.join(th, "GeneratedProofs", name)
        proofs[name] = open(p).read() if os.path.exists(p) else None
    deps = sorted(glob_vo(th))
    stamp = hashlib.sha256(("\0".join([text] + [proofs[k] or "" for k in sorted(proofs)]) +
                            "".join("%s:%d" % (v, os.stat(v).st_mtime_ns) for v in deps)).encode()).hexdigest()
    res["stamp"] = stamp
    gen_v = os.path.join(scratch, "Generated", "SCC_gen.v")
    ref_v = os.path.join(scratch, "GeneratedProofs", "SCC_gen_refines.v")
    thm_v = os.path.join(scratch, "GeneratedProofs", "C19_gen.v")
    sp = os.path.join(scratch, "stamp")
    warm = (os.path.exists(sp) and open(sp).read() == stamp and os.path.exists(gen_v[:-2] + ".vo")
            and (proofs["SCC_gen_refines.v"] is None or os.path.exists(ref_v[:-2] + ".vo")))
    res["reused_scratch_objects"] = warm
    if not warm:
        if os.path.exists(sp): os.remove(sp)
        for f in (gen_v, ref_v, thm_v):
            for ext in (".vo", ".vok", ".vos", ".glob"):
                if os.path.exists(f[:-2] + ext): os.remove(f[:-2] + ext)
        with open(gen_v, "w") as f: f.write(text)
        t1 = time.time()
        rc, out = _coqc(gen_v, scratch)
        res["coqc_generated_s"] = round(time.time() - t1, 2)
        if rc != 0:
            res.update(status="generated-file-rejected", broken="coq/theories/Generated/SCC_gen.v (generated) does not compile", detail=out[-2500:])
            return res
    if proofs["SCC_gen_refines.v"] is None or proofs["C19_gen.v"] is None:
        res.update(status="evaluated-only", detail="no tie proof in coq/theories/GeneratedProofs/")
        return res
    if not warm:
        with open(ref_v, "w") as f: f.write(proofs["SCC_gen_refines.v"])
        t1 = time.time()
        rc, out = _coqc(ref_v, scratch, timeout=900)
        res["coqc_refinement_s"] = round(time.time() - t1, 2)
        if rc != 0:
            where = _enclosing_statement(ref_v, out)
            res.update(status="proof-broken", broken="%s: %s no longer checks against the regenerated definitions" % (TIE_PROOF_FILE, where or "the file"),
                       broken_theorem=where, detail=out[-2500:])
            return res
        with open(sp, "w") as f: f.write(stamp)
    if not audit:       # bin/setup: only make sure the scratch objects exist (every bin/check of every property runs bin/setup)
        res["status"] = "warm"
        return res
    # (c) the theorem file is recompiled on every run, its Print Assumptions output parsed (as core.audit_props does)
    with open(thm_v, "w") as f: f.write(proofs["C19_gen.v"])
    t1 = time.time()
    rc, out = _coqc(thm_v, scratch)
    res["coqc_theorems_s"] = round(time.time() - t1, 2)
    src = proofs["C19_gen.v"]
    theorems = re.findall(r"^\s*(?:Theorem|Lemma|Corollary)\s+([A-Za-z0-9_']+)", src, re.M)
    n_print = len(re.findall(r"^\s*Print Assumptions", src, re.M))
    closed = out.count("Closed under the global context")
    forbidden = re.findall(r"\b(Admitted|admit|Axiom|Parameter|Conjecture|Unset Guard|bypass_check)\b",
                           src + proofs["SCC_gen_refines.v"] + re.sub(r"\(\*.*?\*\)", "", text, flags=re.S))
    res.update(theorems=theorems, print_assumptions=n_print, closed_under_global_context=closed)
    if rc != 0 or closed != n_print or n_print < len(theorems) or "Axioms:" in out or forbidden:
        where = _enclosing_statement(thm_v, out) if rc != 0 else None
        res.update(status="proof-broken", broken="%s: %s" % (TIE_THEOREMS_FILE, ("%s no longer checks" % where) if where else
                                                             "Print Assumptions audit failed (%d closed of %d, forbidden words %s)" % (closed, n_print, forbidden)),
                   broken_theorem=where, detail=out[-2500:])
        return res
    res["status"] = "proved"
    return res

def glob_vo(th):
    import glob
    return [f for pat in ("Model/SCC.vo", "Model/PyRT.vo", "Proofs/SCC_*.vo") for f in glob.glob(os.path.join(th, pat))]

def warm_tie(audit=True):
    """steps (a)-(c) under the scratch build's lock.  bin/setup calls it (non-fatally) with audit=False at its end:
    translate + compile Generated/SCC_gen.v and GeneratedProofs/SCC_gen_refines.v into the scratch build if stale"""
    os.makedirs(os.path.join(BUILD, "gen"), exist_ok=True)
    with open(os.path.join(BUILD, "gen", ".lock"), "w") as lk:
        fcntl.flock(lk, fcntl.LOCK_EX)
        return _tie_build([], audit=audit)

def translator_tie(tier, seed, vals, n_exh, hvals, corr_violations, prebuilt=None):
    """The second tie of C19, run on every check: regenerate the Gallina definitions from the source that is being
    checked, re-check the refinement proofs and the C19_gen_* theorems against them, and ALSO evaluate the generated
    functions on the graphs / HRGs of the correspondence stream against the implementation's outputs and the oracles.
    Returns (coverage, violations)."""
    t0 = time.time()
    os.makedirs(os.path.join(BUILD, "gen"), exist_ok=True)
    with open(os.path.join(BUILD, "gen", ".lock"), "w") as lk:
        fcntl.flock(lk, fcntl.LOCK_EX)
        # steps (a)-(c); run() starts them in a thread while the correspondence stream is being generated
        res = prebuilt.result() if prebuilt is not None else _tie_build([])
        status = res["status"]
        cov = {k: v for k, v in res.items() if k not in ("detail", "scratch", "stamp")}
        cov["translator_tie"] = status
        viol = []
        have_gen = status in ("proved", "proof-broken", "evaluated-only")
        broken = status in ("untranslatable", "generated-file-rejected", "proof-broken")
        scc_bad = ntg_bad = None
        if have_gen:
            # (d) the generated functions on the inputs of the correspondence stream; a larger sample and an
            # in-kernel exhaustive search when the proof is broken (this IS the search for a failing input)
            rng = random.Random(seed * 31 + 7)
            n_s = (250 if tier == "quick" else 1000) * (4 if broken else 1)     # of each: exhaustive part, random part
            n_h = (200 if tier == "quick" else 1000) * (2 if broken else 1)
            exh, rnd = list(range(min(n_exh, len(vals)))), list(range(min(n_exh, len(vals)), len(vals)))
            rng.shuffle(exh); rng.shuffle(rnd)
            pick = sorted(exh[:n_s] + rnd[:n_s])
            hpick = list(range(len(hvals)))
            if len(hpick) > n_h: rng.shuffle(hpick); hpick = sorted(hpick[:n_h])
            t1 = time.time()
            from concurrent.futures import ThreadPoolExecutor
            with ThreadPoolExecutor(2) as ex:
                f1 = ex.submit(_run_gen_cases, res["scratch"], "scc", _GEN_SCC_CHK, SCC.ty, [vals[i] for i in pick])
                f2 = ex.submit(_run_gen_cases, res["scratch"], "ntg", _GEN_NTG_CHK, NTG.ty, [hvals[i] for i in hpick])
                codes, hcodes = f1.result(), f2.result()
            cov.update(generated_model_evaluations=len(codes) + len(hcodes), generated_model_eval_s=round(time.time() - t1, 2),
                       generated_model_verdicts={str(c): (codes + hcodes).count(c) for c in sorted(set(codes + hcodes))})
            scc_bad = sorted(((c, vals[i]) for i, c in zip(pick, codes) if c != 0), key=lambda x: (x[0] >= 10, len(repr(x[1][0]))))
            ntg_bad = sorted(((c, hvals[i]) for i, c in zip(hpick, hcodes) if c != 0), key=lambda x: (x[0] >= 10, len(repr(x[1]))))
            found = []
            if broken:
                sv = os.path.join(res["scratch"], "cases", "GenSearch.v")
                with open(sv, "w") as f: f.write(_GEN_IMPORTS + _GEN_SEARCH)
                rc, out = _coqc(sv, res["scratch"], timeout=900)
                fg = _parse_found_graphs(out) if rc == 0 else []
                cov["in_kernel_search"] = dict(domain="all digraphs on <= 4 vertices + all insertion orders on 3 (Proofs/SCC_bounded.v)",
                                               exit=rc, oracle_rejects_generated_output=(fg[0] if len(fg) > 0 else "?"),
                                               generated_differs_from_hand_model=(fg[1] if len(fg) > 1 else "?"))
                if len(fg) > 0 and fg[0] is not None: found.append(("in-kernel search", 1, fg[0]))
                if len(fg) > 1 and fg[1] is not None: found.append(("in-kernel search", 10, fg[1]))
        names = "C19_gen_scc_refines, C19_gen_tarjan_correct_spec, C19_gen_tarjan_correct, C19_gen_ntgraph_refines, C19_gen_nonterminal_graph_vertices, C19_gen_nonterminal_graph_edges"
        if not broken:
            # the proofs hold (or never existed): any disagreement of the generated function is reported for what it is
            for c, (g, out) in (scc_bad or [])[:3]:
                viol.append(Violation("generated model of scc (translated from the source) %s" % _gen_code_text(c), case=dict(graph=g), observed=out,
                                      oracle="scc_ok" if c < 10 else None, corr="translator tie / gen_scc (code %d)" % c,
                                      failing_input_found=(c < 10), call="fggs.utils.scc(graph)"))
            for c, v in (ntg_bad or [])[:3]:
                viol.append(Violation("generated model of nonterminal_graph %s" % _gen_code_text(c), case=dict(nonterminals=v[0], rules=v[1]),
                                      observed=v[2], oracle="ntg_ok" if c < 10 else None, corr="translator tie / gen_ntgraph (code %d)" % c,
                                      failing_input_found=(c < 10), call="fggs.utils.nonterminal_graph(hrg)"))
        else:
            # the tie is broken: search for a concrete failing input
            what = "translator tie broken: " + res["broken"]
            failing = None
            for c, (g, out) in (scc_bad or []):
                if c < 10: failing = dict(graph=g, found_by="generated model on the correspondence stream (verdict %d: %s)" % (c, _gen_code_text(c))); break
            if failing is None and have_gen:
                for how, c, g in found:
                    if c < 10: failing = dict(graph=g, found_by="%s: the oracle scc_ok rejects the generated function's output" % how); break
            if failing is None:
                for v in corr_violations:
                    if v.found and isinstance(v.case, dict) and "graph" in v.case:
                        if failing is None or len(repr(v.case["graph"])) < len(repr(failing["graph"])):
                            failing = dict(graph=v.case["graph"], found_by="correspondence stream: " + v.what)
            ntg_failing = None
            for c, v in (ntg_bad or []):
                if c < 10: ntg_failing = v; break
            if failing is None and ntg_failing is None:
                for v in corr_violations:
                    if v.found and isinstance(v.case, dict) and "rules" in v.case: ntg_failing = (v.case["nonterminals"], v.case["rules"], v.observed); break
            if failing is not None:
                g = [(a, list(b)) for a, b in failing["graph"]]
                try: obs = run_scc_impl(g, 0)
                except Exception as e: obs = "raised %r" % (e,)
                viol.append(Violation(what + "; a failing input was found", case=dict(graph=g, translator_tie=status, found_by=failing["found_by"]),
                                      observed=obs, oracle="scc_ok", corr="%s (theorems no longer re-checked: %s)" % (res["broken"], names),
                                      failing_input_found=True, call="fggs.utils.scc(graph)"))
            elif ntg_failing is not None:
                viol.append(Violation(what + "; a failing input was found", case=dict(nonterminals=ntg_failing[0], rules=ntg_failing[1], translator_tie=status),
                                      observed=ntg_failing[2], oracle="ntg_ok", corr="%s (theorems no longer re-checked: %s)" % (res["broken"], names),
                                      failing_input_found=True, call="fggs.utils.nonterminal_graph(hrg)"))
            else:
                mism = [dict(graph=g, verdict=c) for c, (g, _) in (scc_bad or [])[:2]] + [dict(graph=g, verdict=c, found_by=how) for how, c, g in (found if have_gen else [])]
                viol.append(Violation(what, case=dict(translator_tie=status, broken=res["broken"], theorem=res.get("broken_theorem"),
                                                      file=TIE_PROOF_FILE if status == "proof-broken" else "harness/translate/py2gallina.py",
                                                      source_sha256=res.get("source_sha256"),
                                                      generated_model_disagreements_without_oracle_rejection=mism),
                                      observed=res.get("detail"), corr="%s (theorems no longer re-checked: %s)" % (res["broken"], names),
                                      failing_input_found=False, call="bin/check C19 quick"))
        cov["wall_s"] = round(time.time() - t0, 2)
    return cov, viol

def _gen_code_text(c):
    return {1: "returns an output that the verified oracle rejects", 2: "agrees with nothing: the oracle rejects the implementation's output",
            10: "differs from the implementation's output although the oracle accepts both",
            11: "raises / runs out of fuel (None) where the implementation returns normally"}.get(c, "verdict %d" % c)

def run(tier, seed):
    from concurrent.futures import ThreadPoolExecutor
    tie_future = ThreadPoolExecutor(1).submit(warm_tie)     # translate + compile the tie concurrently (own lock)
    rng = random.Random(seed)
    violations = []
    cases = []
    # exhaustive part
    exh = 4
    for n in range(exh + 1):
        cases.extend(all_graphs(n))
    n_exh = len(cases)
    n_rand = 3000 if tier == "quick" else 60000
    if tier == "thorough":
        for _ in range(150000):     # sampled 5-vertex graphs in canonical order
            cases.append([(v, [w for w in range(5) if rng.random() < 0.3]) for v in range(5)])
    for i in range(n_rand):
        n = rng.randint(3, 9 if tier == "quick" else 12)
        cases.append(random_graph(rng, n, rng.choice([0.1, 0.2, 0.35, 0.6])))
    vals = []
    sizes = {}
    for i, g in enumerate(cases):
        try:
            out = run_scc_impl(g, i % 4)
        except Exception as e:
            violations.append(Violation("scc raised %r" % (e,), case=dict(graph=g), call="fggs.utils.scc", corr="corr:scc"))
            continue
        vals.append((g, out))
        sizes[len(g)] = sizes.get(len(g), 0) + 1
    codes, nk = run_model(SCC, vals, seed=seed, tag="scc")
    for (g, out), c in zip(vals, codes):
        if c == 0: continue
        if c == 1:
            violations.append(Violation("scc output is not the dependency-ordered SCC partition (verified oracle scc_ok rejects it)",
                                        case=dict(graph=g), observed=out, oracle="scc_ok", corr="C19_checker / corr:scc", call="fggs.utils.scc(graph)"))
        else:
            violations.append(Violation("scc output differs from the Gallina model of Tarjan (code %d) although the oracle accepts it" % c,
                                        case=dict(graph=g), observed=out, corr="corr:scc (Model.SCC.scc)", failing_input_found=False,
                                        call="fggs.utils.scc(graph)"))
    distinct = len({repr(g) for g, _ in vals if len(g) >= 3 and any(ws for _, ws in g)})
    # nonterminal_graph on random HRGs
    n_h = 400 if tier == "quick" else 6000
    hvals = []; hinfo = []
    from fggs.utils import nonterminal_graph
    for i in range(n_h):
        h, meta = gen.random_hrg(rng)
        nts = list(h.nonterminals())
        num = {x: j for j, x in enumerate(nts)}
        if i % 2 == 1:
            # history: a nonterminal edge that was added to a right-hand side and removed again (as inlining a
            # nonterminal with replace_edge does) leaves its label in the rhs graph's label table; it is no longer
            # "on the right-hand side" and must not give an edge of the nonterminal graph
            import fggs
            for r in h.all_rules():
                if rng.random() < 0.6:
                    y = rng.choice(nts); nodes = []
                    for nl in y.type:
                        cands = [v for v in r.rhs.nodes() if v.label == nl]
                        if not cands: nodes = None; break
                        nodes.append(rng.choice(cands))
                    if nodes is None: continue
                    e = fggs.Edge(y, nodes); r.rhs.add_edge(e); r.rhs.remove_edge(e)
                    meta.setdefault("features", []).append("history:rhs edge added and removed")
        tnum = {}
        def lab(l):
            if l in num: return num[l]
            return 1000 + tnum.setdefault(l, len(tnum))
        rules = [(num[r.lhs], [(lab(e.label), e.label.is_nonterminal) for e in r.rhs.edges()]) for r in h.all_rules()]
        try:
            g = nonterminal_graph(h)
            out = [(num[x], [num[y] for y in g[x]]) for x in g]
        except Exception as e:
            violations.append(Violation("nonterminal_graph raised %r" % (e,), case=meta, call="fggs.utils.nonterminal_graph", corr="corr:ntgraph"))
            continue
        hvals.append((list(range(len(nts))), rules, out)); hinfo.append(meta)
    hcodes, nk2 = run_model(NTG, hvals, seed=seed, tag="ntg")
    for v, m, c in zip(hvals, hinfo, hcodes):
        if c == 0: continue
        violations.append(Violation("nonterminal_graph: " + ("wrong vertices/edges (oracle ntg_ok rejects)" if c == 1 else "order differs from model"),
                                    case=dict(nonterminals=v[0], rules=v[1], hrg=m), observed=v[2], oracle="ntg_ok" if c == 1 else None,
                                    corr="C19_nonterminal_graph_edges / corr:ntgraph", failing_input_found=(c == 1),
                                    call="fggs.utils.nonterminal_graph(hrg)"))
    hd = len({repr(v[1]) for v in hvals if len(v[1]) >= 2})
    # stream "hist": histories of queries and in-place edits on the same FGG object (harness/props/_c19_hist.py)
    from harness.props import _c19_hist
    hist_viol, hist = _c19_hist.run_stream(tier, seed, SCC, NTG, SPO)
    violations.extend(hist_viol)
    cov = dict(evaluations=len(vals) + len(hvals), distinct_nontrivial=distinct + hd,
               rule="scc: every labelled digraph with <= %d vertices (self-loops, canonical insertion order; exhaustive: %d graphs) + random digraphs with shuffled vertex and successor insertion orders and 4 key types; non-trivial = >= 3 vertices and >= 1 edge, distinct by adjacency structure. nonterminal_graph: random HRGs (gen.random_hrg), every second one with a history (a nonterminal edge added to a right-hand side and removed again, which leaves its label in that graph's label table); non-trivial = >= 2 rules" % (exh, n_exh),
               exhaustive_part="all digraphs on <= %d vertices" % exh,
               samples=[dict(graph=vals[n_exh // 2][0], impl_components=vals[n_exh // 2][1]),
                        dict(graph=vals[-1][0], impl_components=vals[-1][1]),
                        dict(nonterminals=hvals[0][0], rules=hvals[0][1], impl_graph=hvals[0][2])],
               size_histogram=sizes, kernel_reevaluated=nk + nk2,
               open_items=[])
    tie_cov, tie_viol = translator_tie(tier, seed, vals, n_exh, hvals, violations, prebuilt=tie_future)
    cov["translator_tie"] = tie_cov
    cov["tied_by_translation"] = TIED_BY_TRANSLATION
    cov["tied_by_correspondence_only"] = TIED_BY_CORRESPONDENCE_ONLY
    violations.extend(tie_viol)
    cov["evaluations"] += hist["evaluations"]; cov["distinct_nontrivial"] += hist["distinct_nontrivial"]
    cov["kernel_reevaluated"] += hist["kernel_reevaluated"]
    cov["history_stream"] = hist
    cov["rule"] += _c19_hist_rule()
    if tier == "thorough":
        # independent re-check of the compiled development with coqchk (several minutes)
        rc, out = sh(["timeout", "1500", "coqchk", "-silent", "-o", "-R", os.path.join(COQDIR, "theories"), "Fggs", "Fggs.Props.C19"], cwd=COQDIR, timeout=1600)
        summary = out[out.find("CONTEXT SUMMARY"):][:1500] if "CONTEXT SUMMARY" in out else out[-1500:]
        cov["coqchk"] = dict(exit=rc, summary=summary)
        if rc != 0 or "Axioms: <none>" not in out:
            violations.append(Violation("coqchk does not accept Props/C19 without axioms", case=None, observed=summary,
                                        corr="coqchk -o Fggs.Props.C19", failing_input_found=False))
    return cov, violations

def replay(path):
    import json
    r = json.load(open(path))
    c = r["case"] or {}
    if "translator_tie" in c and "graph" not in c and "rules" not in c:
        res = warm_tie()
        print("translator tie:", res["status"], res.get("broken", ""))
        print(res.get("detail", "")[-1500:])
        return 0 if res["status"] in ("proved", "evaluated-only") else 1
    if c.get("history"):
        from harness.props import _c19_hist
        return _c19_hist.replay_case(c, SCC, NTG, SPO)
    if "graph" in c:
        g = [(v, ws) for v, ws in c["graph"]]
        out = run_scc_impl(g, 0)
        code = run_coq(SCC, [(g, out)], tag="replay")[0]
        print("graph", g, "impl", out, "verdict code", code)
        return 1 if code else 0
    print("replay of nonterminal_graph cases: re-run bin/check C19 quick with the same seed")
    return 1

MANIFEST = dict(
    level="proof",
    text="Coq theorems: nonterminal_graph model has exactly the specified vertices and edges (unbounded); the Tarjan model (which follows fggs.utils.scc statement by statement) is proved correct for EVERY closed graph by an invariant proof (C19_partition: the fuel never runs out and every vertex is emitted exactly once; C19_tarjan_correct / C19_tarjan_correct_spec: the output is the dependency-ordered SCC decomposition: components = classes of mutual reachability, no edge from a component to a later one); the executable oracle scc_ok is proved sound AND complete for that Prop-level specification (C19_checker, C19_reaches_correct). The bounded theorems (all digraphs on <= 4 vertices, all insertion orders on 3) are kept as an independent in-kernel cross-check. The model is tied to /repo in two independent ways. (1) Correspondence: model and implementation run on the same graphs (exhaustive to 4 vertices, random beyond) and must give identical component lists; the verified oracles scc_ok / ntg_ok judge every implementation output. (2) Translation: on every run harness/translate/py2gallina.py regenerates Gallina definitions (gen_scc with its closure visit, gen_ntgraph) from the current source text of fggs/utils.py; GeneratedProofs/SCC_gen_refines.v proves, against the regenerated text, that they compute exactly what the hand-written model computes on every closed graph (C19_gen_scc_refines, C19_gen_ntgraph_refines: a forward simulation; KeyError/IndexError are modelled as None and proved not to happen), whence C19_gen_tarjan_correct_spec and C19_gen_nonterminal_graph_vertices/_edges: the property theorems about what the code says now. A change of the source that breaks the property breaks this proof or the correspondence; when the proof breaks the check searches for a concrete failing input (generated function and implementation on the correspondence stream, plus an in-kernel exhaustive search on <= 4 vertices) and reports it, or reports the broken theorem with no-failing-input-found.",
    note="Trusted: Coq kernel + vm_compute, extraction (ExtrOcamlBasic only) cross-checked against vm_compute, the Python harness that numbers dict keys, the statement-by-statement reading of fggs.utils.scc into Model/SCC.v (tested by the correspondence run, not proved), and, for the translation tie, the translator harness/translate/py2gallina.py with its run-time library Model/PyRT.v and its INTERFACE table (the HRG accessors are NOT translated: tied by correspondence only). Regenerated on every run: Generated/SCC_gen.v; re-checked on every run: GeneratedProofs/SCC_gen_refines.v, GeneratedProofs/C19_gen.v. The theorems assume closed graphs (every successor is a key), which is what nonterminal_graph produces and outside of which the Python code raises KeyError.",
    technique="Coq proof (model + theorems) + model/implementation correspondence with verified-spec oracle + model regenerated from the source by a translator and proved to refine the hand model on every run",
    design_ref="DESIGN.md section 6, C19")

def _c19_hist_rule():
    return (". sum_products / histories (stream hist): random FGGs (1-5 nonterminals, acyclic and recursive) built through 4 paths (add_rule; "
            "FGG.from_hrg sharing the HRG's rule objects; .copy() of a queried object; rules added in two stages around a sum_products call), "
            "then 1-3 rounds of in-place edits -- rhs.add_edge of a nonterminal edge (70% against the generation order), rhs.remove_edge, "
            "relabelling an edge, rule.rhs = rule.rhs.copy(), new factor weights, and in a third of the histories add_rule -- with "
            "nonterminal_graph, scc, sum_products (fixed-point / newton) and viterbi queried on the SAME object before the first and after every round, "
            "and on .copy() at the end; every sixth grammar is a cycle through 2-4 nonterminals; each answer is judged against the grammar as it is "
            "at that moment (ntg_check, scc_check, sp_order_check on the blocks handed to the per-component solver -- for viterbi the components "
            "it visits -- and the keys of the result) and compared (values bit for bit, blocks, exceptions) with an equal grammar built afresh and never queried; non-trivial = a round that keeps the numbers of nonterminals and rules and "
            "changes the SCC decomposition, distinct by (rules before, rules after)")

ASSUMPTIONS.append("stream hist observes the order in which sum_products solves the nonterminals at SumProduct.apply_to_patterned_tensors (out_labels of the successive calls) and through the key order of the returned dict; both must agree; the components viterbi visits are observed at fggs.viterbi.FGGMultiShape(fgg, comp)")
MANIFEST["text"] += (" The last clause of the property (every nonterminal's sum-product is computed after those it depends on and every nonterminal "
                     "receives a value) is C19_sum_products_order: verdict 0 of sp_order_check on an observed call means every nonterminal has a value, lies in "
                     "exactly one block, and everything its rules mention lies in the same or an earlier block, for the grammar as it is at the time of the call; "
                     "it is checked on histories of queries and in-place edits of the same FGG object (stream hist), where a decomposition remembered from an "
                     "earlier state of the object is rejected by the verified oracle or shows up as an exception that a freshly built equal grammar does not raise.")
