"""C15 -- hyperedge replacement is typed, fresh and order-independent
(fggs.replace_edge, fggs.start_graph, FGGDerivation.derive)."""
import itertools, random, math, copy as _copy
from harness.core import *
from harness import gen

PID = "C15"
LEVEL = "proof"

IdT = Tup(Nat, Nat)
NodeT = Tup(IdT, Nat)
LabT = Tup(Nat, List(Nat), Bool)
EdgeT = Tup(IdT, LabT, List(NodeT))
GraphT = Tup(List(NodeT), List(EdgeT), List(NodeT), List(LabT), List(Nat))
NameT = Tup(Nat, List(IdT), IdT)
WTREE = Sum("wtree", "ReplaceCheck",
            {"WT": Tup(Tup(LabT, GraphT), List(Tup(NodeT, Nat)),
                       List(Tup(EdgeT, Rec("wtree", "d_wtree", lambda: WTREE))))})
GLUE_PREAMBLE = "let rec d_wtree s = %s s" % WTREE.dec()

OutT = Tup(Nat, GraphT, List(Tup(NodeT, NodeT)), List(Tup(EdgeT, EdgeT)))
REPL = CheckFn("c15-replace", "Model.ReplaceCheck", "replace_check", Tup(GraphT, Nat, EdgeT, GraphT, OutT),
               imports=["Model.Replace"])
LIN = CheckFn("c15-lin", "Model.ReplaceCheck", "lin_check",
              Tup(WTREE, Nat, List(List(IdT)), Tup(GraphT, List(Tup(NodeT, NameT)), List(Tup(EdgeT, NameT)))),
              imports=["Model.Replace"])
DER = CheckFn("c15-derive", "Model.ReplaceCheck", "derive_check",
              Tup(WTREE, Nat, Tup(GraphT, List(Tup(NodeT, Nat)), List(Tup(NodeT, NameT)), List(Tup(EdgeT, NameT))),
                  List(Tup(Nat, List(Nat), NN)), NN),
              imports=["Model.Replace"])
START = CheckFn("c15-start", "Model.ReplaceCheck", "start_check", Tup(LabT, Nat, GraphT), imports=["Model.Replace"])
CHECKFNS = [REPL, LIN, DER, START]

ASSUMPTIONS = [
    "implicit Node/Edge ids (object addresses) are modelled by a fresh-id counter: a newly created object's id differs from the id of every object still referenced (the harness keeps every graph alive while it is compared)",
    "the node-label table of Graph is not modelled (C16); the edge-label table is (name clash -> ValueError)",
    "replace_edge(g, e, g) with the replacement aliasing the host (RuntimeError: dict changed size) is outside the functional model",
    "weights: the product theorem is proved for every commutative semiring; the run-time comparison uses non-negative integer weights (exact in float)",
]

# ----------------------------------------------------------------------------
# Python objects -> wire values

class Ctx:
    """numbers explicit ids, implicit ids, node-label names and edge-label names by first appearance"""
    def __init__(self):
        self.expl, self.impl, self.nl, self.eln = {}, {}, {}, {}
        self.keep = []     # every object whose id was numbered stays referenced: addresses are not reused
    def id(self, i):
        if isinstance(i, str): return (0, self.expl.setdefault(i, len(self.expl)))
        return (1, self.impl.setdefault(i, len(self.impl)))
    def nlab(self, l): return self.nl.setdefault(l.name, len(self.nl))
    def lab(self, l): return (self.eln.setdefault(l.name, len(self.eln)), [self.nlab(x) for x in l.type], bool(l.is_terminal))
    def node(self, n):
        self.keep.append(n); return (self.id(n.id), self.nlab(n.label))
    def edge(self, e):
        self.keep.append(e); return (self.id(e.id), self.lab(e.label), [self.node(n) for n in e.nodes])
    def graph(self, g):
        return ([self.node(n) for n in g.nodes()], [self.edge(e) for e in g.edges()],
                [self.node(n) for n in g.ext], [self.lab(l) for l in g.edge_labels()],
                [self.nlab(l) for l in g.node_labels()])
    @property
    def nx(self): return len(self.impl)

def nstart(j): return (0, [], (0, j))
def ninst(ctx, p, i): return (1, [ctx.id(x) for x in p], ctx.id(i))

def exc_status(e):
    if isinstance(e, ValueError): return 1
    if isinstance(e, KeyError): return 2
    return 3

def judged_replace(ctx, g, e, repl):
    """call fggs.replace_edge and return (outcome, wire case for replace_check)"""
    import fggs
    whost, we, wrepl = ctx.graph(g), ctx.edge(e), ctx.graph(repl)
    nx = ctx.nx
    try:
        nm, em = fggs.replace_edge(g, e, repl)
        status = 0
    except Exception as ex:
        nm, em, status = {}, {}, exc_status(ex)
        err = ex
    # canonical numbering of the new implicit ids by ROLE (image of which replacement node / edge),
    # so that the comparison with the model is up to renaming of fresh ids; whatever the maps do not
    # account for is numbered afterwards in the order of the result's dicts
    for rn in repl.nodes():
        if rn in nm: ctx.node(nm[rn])
    for re_ in repl.edges():
        if re_ in em: ctx.id(em[re_].id); ctx.keep.append(em[re_])
    wres = ctx.graph(g)
    wnm = [(ctx.node(a), ctx.node(b)) for a, b in nm.items()]
    wem = [(ctx.edge(a), ctx.edge(b)) for a, b in em.items()]
    case = (whost, nx, we, wrepl, (status, wres, wnm, wem))
    return (nm, em, status), case

# ----------------------------------------------------------------------------
# derivation trees

class Inst:
    def __init__(self, ri, rule, nodes, edges):
        self.ri, self.rule, self.nodes, self.edges = ri, rule, nodes, edges
        self.children = {}      # Edge -> Inst (dict order = the order derive() uses)
        self.asst = {}          # Node -> value index
    def size(self): return 1 + sum(c.size() for c in self.children.values())
    def paths(self, p=()):
        yield p, self
        for k, c in self.children.items():
            yield from c.paths(p + (k.id,))

class Overflow(Exception): pass

def gen_tree(rng, spec, b, max_inst):
    by_lhs = {}
    for ri, r in enumerate(spec["rules"]): by_lhs.setdefault(r["lhs"], []).append(ri)
    count = [0]
    def nts(ri): return [k for k, (el, _) in enumerate(spec["rules"][ri]["edges"]) if not spec["elabels"][el]["term"]]
    def build(lhs):
        cands = by_lhs.get(lhs)
        if not cands: return None
        if count[0] >= max_inst - 2:
            m = min(len(nts(ri)) for ri in cands)
            cands = [ri for ri in cands if len(nts(ri)) == m]
        elif rng.random() < 0.8 and any(nts(ri) for ri in cands):
            cands = [ri for ri in cands if nts(ri)]
            if rng.random() < 0.5:      # branching: the rules with most nonterminal edges
                m = max(len(nts(ri)) for ri in cands)
                cands = [ri for ri in cands if len(nts(ri)) == m]
        ri = rng.choice(cands)
        count[0] += 1
        if count[0] > max_inst: raise Overflow()
        rule, nodes, edges = b.rules[ri]
        t = Inst(ri, rule, nodes, edges)
        ks = nts(ri); rng.shuffle(ks)
        for k in ks:
            if rng.random() < 0.05: continue            # leave a nonterminal edge unexpanded
            sub = build(spec["rules"][ri]["edges"][k][0])
            if sub is not None: t.children[edges[k]] = sub
        return t
    for _ in range(30):
        count[0] = 0
        try:
            t = build(spec["start"])
        except Overflow:
            continue
        if t is None: return None
        # assignments, top-down, consistent on glued nodes
        def assign(t, ext_vals):
            r = spec["rules"][t.ri]
            vals = {}
            for j, ni in enumerate(r["ext"]):
                if ext_vals is not None: vals[ni] = ext_vals[j]
            for ni, nl in enumerate(r["nodes"]):
                if ni not in vals: vals[ni] = rng.randrange(spec["nlabels"][nl])
            t.asst = {t.nodes[ni]: v for ni, v in vals.items()}
            for k, c in t.children.items():
                ki = t.edges.index(k)
                assign(c, [vals[a] for a in r["edges"][ki][1]])
        assign(t, None)
        return t
    return None

def n_linearisations(t):
    n = t.size()
    d = 1
    for _, s in t.paths(): d *= s.size()
    return math.factorial(n) // d

def all_linearisations(t):
    def rec(pending, acc):
        if not pending:
            yield list(acc); return
        for i, (p, s) in enumerate(pending):
            rest = pending[:i] + pending[i + 1:] + [(p + (k.id,), c) for k, c in s.children.items()]
            acc.append(p)
            yield from rec(rest, acc)
            acc.pop()
    yield from rec([((), t)], [])

def random_linearisation(rng, t):
    pending = [((), t)]; out = []
    while pending:
        i = rng.randrange(len(pending))
        p, s = pending.pop(i)
        out.append(p)
        pending.extend((p + (k.id,), c) for k, c in s.children.items())
    return out

def preorder(t):
    return [p for p, _ in t.paths()]

def wire_tree(ctx, t):
    return ("WT", ((ctx.lab(t.rule.lhs), ctx.graph(t.rule.rhs)),
                   [(ctx.node(n), v) for n, v in t.asst.items()],
                   [(ctx.edge(k), wire_tree(ctx, c)) for k, c in t.children.items()]))

def subtree(t, p):
    for q, s in t.paths():
        if q == p: return s
    raise KeyError(p)

def run_linearisation(ctx, hrg, t, order, repl_cases):
    """carry out the replacement steps in the given order with fggs.replace_edge, naming the
    nodes/edges through the maps it returns.  Returns (graph, node names, edge names)."""
    import fggs
    g = fggs.start_graph(hrg)
    (e0,) = list(g.edges())
    nn = {n: nstart(j) for j, n in enumerate(e0.nodes)}
    en = {e0: nstart(0)}
    pending = {(): e0}
    index = dict(t.paths())
    for p in order:
        s = index[p]
        e = pending.pop(p)
        (nm, em, status), case = judged_replace(ctx, g, e, s.rule.rhs)
        repl_cases.append((case, dict(path=list(map(str, p)), rule=s.ri)))
        if status != 0:
            raise RuntimeError("replace_edge raised (status %d) on a well-formed derivation step" % status)
        ext = set(s.rule.rhs.ext)
        for rn, gn in nm.items():
            if rn not in ext: nn[gn] = ninst(ctx, p, rn.id)
        en.pop(e, None)
        for re_, ge in em.items(): en[ge] = ninst(ctx, p, re_.id)
        for k, c in s.children.items(): pending[p + (k.id,)] = em[k]
    return g, nn, en

UNNAMED = (0, [], (0, 4999))      # a node/edge of the result that no returned map accounts for

def wire_named(ctx, g, nn, en):
    return (ctx.graph(g), [(ctx.node(n), nn.get(n, UNNAMED)) for n in g.nodes()],
            [(ctx.edge(e), en.get(e, UNNAMED)) for e in g.edges()])

def to_fgg_deriv(fgg, spec, t):
    import fggs
    r = spec["rules"][t.ri]
    asst = {n: "v%d_%d" % (r["nodes"][t.nodes.index(n)], v) for n, v in t.asst.items()}
    return fggs.FGGDerivation(fgg, t.rule, asst, {k: to_fgg_deriv(fgg, spec, c) for k, c in t.children.items()})

def run_derive(ctx, b, spec, t):
    """derive() with fggs.derivations.replace_edge wrapped to record the maps (names only)."""
    import fggs, fggs.derivations as D
    calls = []
    orig = D.replace_edge
    def spy(graph, edge, replacement):
        r = orig(graph, edge, replacement)
        calls.append((edge, replacement, r[0], r[1]))
        return r
    D.replace_edge = spy
    try:
        g, asst = to_fgg_deriv(b.fgg, spec, t).derive()
    finally:
        D.replace_edge = orig
    index = dict(t.paths())
    nn, en, epath = {}, {}, {}
    for i, (edge, repl, nm, em) in enumerate(calls):
        if i == 0:
            epath[edge] = ()
            for j, n in enumerate(edge.nodes): nn[n] = nstart(j)
        p = epath[edge]
        s = index[p]
        ext = set(s.rule.rhs.ext)
        for rn, gn in nm.items():
            if rn not in ext: nn[gn] = ninst(ctx, p, rn.id)
        for re_, ge in em.items(): en[ge] = ninst(ctx, p, re_.id)
        for k, c in s.children.items(): epath[em[k]] = p + (k.id,)
    # weight product through the implementation's factors
    prod = 1
    for e in g.edges():
        if e.label.is_terminal:
            w = g.factors[e.label.name].apply([asst[n] for n in e.nodes])
            prod *= int(round(float(w)))
    wasst = []
    for n, v in asst.items():
        wasst.append((ctx.node(n), int(str(v).split("_")[1])))
    return g, wasst, nn, en, prod

# ----------------------------------------------------------------------------

def int_weights(rng, spec):
    w = {}
    for el, e in enumerate(spec["elabels"]):
        if e["term"]:
            shape = [spec["nlabels"][nl] for nl in e["type"]]
            w[el] = gen.nested(shape, lambda: Fraction(rng.choice([1, 1, 2, 2, 3, 0] if rng.random() < 0.1 else [1, 2, 3])))
    return w

def weight_table(ctx, b, spec):
    tab = []
    for el, w in spec["weights"].items():
        name = ctx.lab(b.els[el])[0]
        shape = [spec["nlabels"][nl] for nl in spec["elabels"][el]["type"]]
        for idx in itertools.product(*[range(s) for s in shape]):
            x = w
            for i in idx: x = x[i]
            tab.append((name, list(idx), int(x)))
    return tab

def tree_jsonable(t):
    return dict(rule=t.ri, asst=[v for v in t.asst.values()],
                children={"edge%d" % t.edges.index(k): tree_jsonable(c) for k, c in t.children.items()})

def tree_shape(t):
    return (t.ri, tuple(sorted((t.edges.index(k), tree_shape(c)) for k, c in t.children.items())))

# ----------------------------------------------------------------------------
# malformed / single-call stream

def malformed_cases(rng, n):
    """yields (kind, ctx, host, edge, repl) for single replace_edge calls outside the guard"""
    import fggs
    out = []
    kinds = ["wrong_type", "absent_edge", "wrong_type_absent", "dup_ext", "label_clash", "foreign_node", "alias_id", "valid_rhs_host"]
    tries = 0
    while len(out) < n and tries < 40 * n:
        tries += 1
        kind = kinds[len(out) % len(kinds)]
        spec = gen.random_spec(rng, recursive=True, start_arity0=False, dup_ext=(kind == "dup_ext"), p_feature=0.4 if kind == "dup_ext" else 0.15)
        ids = rng.choice(["explicit", "implicit", "mixed"])
        bh = gen.build_hrg(spec, ids=ids, rng=rng)       # hosts (mutated)
        br = gen.build_hrg(spec, ids=rng.choice(["explicit", "implicit", "mixed"]), rng=rng)   # replacements
        cands = []
        for ri, r in enumerate(spec["rules"]):
            for k, (el, att) in enumerate(r["edges"]):
                if not spec["elabels"][el]["term"]: cands.append((ri, k, el))
        if not cands: continue
        ri, k, el = rng.choice(cands)
        host = bh.rules[ri][0].rhs
        edge = bh.rules[ri][2][k]
        same = [rj for rj, r in enumerate(spec["rules"]) if r["lhs"] == el]
        typ = lambda x: spec["elabels"][x]["type"]
        if kind in ("valid_rhs_host", "dup_ext", "label_clash", "foreign_node", "alias_id", "absent_edge"):
            if not same: continue
            rj = rng.choice(same)
            if kind == "dup_ext" and len(set(spec["rules"][rj]["ext"])) == len(spec["rules"][rj]["ext"]): continue
            repl = br.rules[rj][0].rhs
        else:
            other = [rj for rj, r in enumerate(spec["rules"]) if typ(r["lhs"]) != typ(el)]
            if not other: continue
            repl = br.rules[rng.choice(other)][0].rhs
        if kind in ("absent_edge", "wrong_type_absent"):
            edge = fggs.Edge(edge.label, edge.nodes, id=rng.choice([None, "zz"]))
        if kind == "alias_id":
            if not isinstance(edge.id, str): continue
            others = [l for l in bh.els if l.type == edge.label.type and l != edge.label]
            if not others: continue
            edge = fggs.Edge(rng.choice(others), edge.nodes, id=edge.id)
        if kind == "label_clash":
            es = list(repl.edges())
            if not es: continue
            victim = rng.choice(es)
            clash = fggs.EdgeLabel(victim.label.name, victim.label.type, is_terminal=not victim.label.is_terminal,
                                   is_nonterminal=victim.label.is_terminal)
            if not any(l.name == clash.name for l in host.edge_labels()): continue
            g2 = fggs.Graph()
            for nd in repl.nodes(): g2.add_node(nd)
            for e2 in repl.edges():
                g2.add_edge(fggs.Edge(clash, e2.nodes, id=e2.id if isinstance(e2.id, str) else None)
                            if e2.label == victim.label else e2)
            g2.ext = repl.ext
            repl = g2
        if kind == "foreign_node":
            ns = list(repl.nodes())
            if not ns or not isinstance(ns[-1].id, str) or len(bh.nls) < 2: continue
            v = ns[-1]
            ol = [l for l in bh.nls if l != v.label][0]
            ghost = fggs.Node(ol, id=v.id)
            lab = fggs.EdgeLabel("tghost", (ol,), is_terminal=True)
            g2 = fggs.Graph()
            for nd in repl.nodes(): g2.add_node(nd)
            for e2 in repl.edges(): g2.add_edge(e2)
            # the API (add_edge after fix 349378f) refuses such an edge; plant it directly
            ge = fggs.Edge(lab, (ghost,))
            g2._edges[ge.id] = ge
            g2._edge_labels[lab.name] = lab
            g2.ext = repl.ext
            repl = g2
        out.append((kind, Ctx(), host, edge, repl, gen.spec_jsonable(spec)))
    return out

# ----------------------------------------------------------------------------

REPL_MSG = {1: "replace_edge result violates the replacement specification (verified oracle replace_ok rejects it)",
            2: "a wrong-type replacement / an edge not in the graph was not rejected with ValueError leaving the graph unchanged",
            10: "replace_edge result differs from the Gallina model", 11: "graph left behind by a raising replace_edge differs from the model's",
            12: "replace_edge raised where the model returns", 13: "replace_edge returned / raised another error where the model raises"}
LIN_MSG = {1: "graph obtained by this order of replacements is not isomorphic (through the returned maps) to the derived graph (verified oracle same_upto_naming rejects)",
           3: "generated derivation tree is not well-formed (harness bug)", 10: "final graph differs from the model's run of the same linearisation",
           11: "the model's run of this linearisation fails", 12: "model's own run is not the derived graph (contradicts C15_confluence)"}
DER_MSG = {1: "derive(): graph is not isomorphic to the derived graph (oracle same_upto_naming rejects)",
           2: "derive(): assignment is not total on the nodes of the derived graph",
           12: "derive(): a value of the assignment is not the value of the denotational derived assignment at that node's name (C15_derive_assignment)",
           3: "derive(): product of factor weights differs from the product of the rule-instance weights",
           4: "generated derivation tree is not well-formed (harness bug)", 10: "derive() differs from derive_model",
           11: "derive_model raises on a well-formed derivation"}

def run(tier, seed):
    rng = random.Random(seed)
    violations, notes = [], 0
    n_trees = 200 if tier == "quick" else 3000
    if os.environ.get("C15_TREES"): n_trees = int(os.environ["C15_TREES"])      # mutation self-tests only
    max_lin = 120
    repl_cases, lin_cases, der_cases = [], [], []
    lin_meta, der_meta = [], []
    start_cases, start_meta = [], []
    hist_size, hist_lin, feats = {}, {}, {}
    shapes = set()
    n_exh = n_samp = reused = 0
    samples = []
    made = 0
    attempts = 0
    while made < n_trees and attempts < 20 * n_trees:
        attempts += 1
        spec = gen.random_spec(rng, recursive=rng.random() < 0.75, dup_ext=False, start_arity0=rng.random() < 0.5,
                               p_feature=0.3, allow_inf=False, max_edges=5)
        spec["weights"] = int_weights(rng, spec)
        ids = rng.choice(["explicit", "implicit", "mixed"])
        try:
            b = gen.build_fgg(spec, float, ids=ids, rng=rng)
        except Exception as ex:
            violations.append(Violation("building a generated FGG raised %r" % (ex,), case=gen.spec_jsonable(spec), corr="harness", failing_input_found=False))
            continue
        target = rng.choice([1, 2, 3, 4, 5, 6, 7, 7, 7])
        t = gen_tree(rng, spec, b, target)
        if t is None: continue
        if made >= n_trees // 4 and t.size() < 3 and rng.random() < 0.8: continue   # enough tiny trees
        if made >= n_trees // 3 and n_linearisations(t) == 1 and rng.random() < 0.6: continue   # enough chains
        made += 1
        n = t.size()
        hist_size[n] = hist_size.get(n, 0) + 1
        used = [s.ri for _, s in t.paths()]
        if len(set(used)) < len(used): reused += 1
        for f in spec["features"]: feats[f] = feats.get(f, 0) + 1
        shapes.add((repr(gen.spec_jsonable(spec)["rules"]), tree_shape(t)))
        nl = n_linearisations(t)
        if nl <= max_lin:
            lins = list(all_linearisations(t)); n_exh += 1
        else:
            seen = {tuple(preorder(t))}
            lins = [preorder(t)]
            for _ in range(max_lin * 3):
                l = random_linearisation(rng, t)
                if tuple(l) not in seen:
                    seen.add(tuple(l)); lins.append(l)
                if len(lins) >= max_lin: break
            n_samp += 1
        bucket = "1" if len(lins) == 1 else "2-10" if len(lins) <= 10 else "11-119" if len(lins) < 120 else "120"
        hist_lin[bucket] = hist_lin.get(bucket, 0) + 1
        meta = dict(spec=gen.spec_jsonable(spec), ids=ids, tree=tree_jsonable(t))
        for l in lins:
            ctx = Ctx()
            wt = wire_tree(ctx, t)           # number the rules' ids first
            try:
                rc = []
                g, nn, en = run_linearisation(ctx, b.hrg, t, l, rc)
                for c, m in rc: repl_cases.append((c, dict(meta, step=m, order=[list(map(str, p)) for p in l])))
            except Exception as ex:
                for c, m in rc: repl_cases.append((c, dict(meta, step=m, order=[list(map(str, p)) for p in l])))
                violations.append(Violation("replacement sequence raised %r" % (ex,), case=dict(meta, order=[list(map(str, p)) for p in l]),
                                            corr="corr:run", call="fggs.replace_edge along a linearisation"))
                continue
            lin_cases.append((wt, 0, [[ctx.id(x) for x in p] for p in l], wire_named(ctx, g, nn, en)))
            lin_meta.append(dict(meta, order=[list(map(str, p)) for p in l]))
        # start_graph
        try:
            import fggs
            ctx = Ctx()
            wl = ctx.lab(b.hrg.start)
            start_cases.append((wl, 0, ctx.graph(fggs.start_graph(b.hrg))))
            start_meta.append(dict(spec=meta["spec"], ids=ids))
        except Exception as ex:
            violations.append(Violation("start_graph raised %r" % (ex,), case=meta, corr="corr:start_graph", call="fggs.start_graph(hrg)"))
        # derive()
        ctx = Ctx()
        wt = wire_tree(ctx, t)
        try:
            g, wasst, nn, en, prod = run_derive(ctx, b, spec, t)
            wg, wnn, wen = wire_named(ctx, g, nn, en)
            der_cases.append((wt, 0, (wg, wasst, wnn, wen), weight_table(ctx, b, spec), prod))
            der_meta.append(meta)
        except Exception as ex:
            violations.append(Violation("derive() raised %r on a well-formed derivation" % (ex,), case=meta, corr="corr:derive",
                                        call="FGGDerivation.derive()"))
        if len(samples) < 3 and n >= 3:
            samples.append(dict(meta, n_linearisations=nl, first_order=[list(map(str, p)) for p in lins[-1]]))
    # malformed / single-call stream
    mal = malformed_cases(rng, 160 if tier == "quick" else 2400)
    mal_hist = {}
    mal_obs = {}
    for kind, ctx, host, edge, repl, sj in mal:
        try:
            (nm, em, status), case = judged_replace(ctx, host, edge, repl)
        except Exception as ex:
            violations.append(Violation("harness could not run malformed case %s: %r" % (kind, ex), case=sj, corr="harness", failing_input_found=False))
            continue
        repl_cases.append((case, dict(kind=kind, spec=sj)))
        mal_hist[kind] = mal_hist.get(kind, 0) + 1
        key = kind + ":" + {0: "returned", 1: "ValueError", 2: "KeyError", 3: "other"}[status]
        mal_obs[key] = mal_obs.get(key, 0) + 1

    rcodes, k1 = run_model(REPL, [c for c, _ in repl_cases], seed=seed, tag="c15r", coq_sample=10)
    lcodes, k2 = run_model(LIN, lin_cases, seed=seed, tag="c15l", coq_sample=6)
    dcodes, k3 = run_model(DER, der_cases, seed=seed, tag="c15d", coq_sample=6)
    scodes, k4 = run_model(START, start_cases, seed=seed, tag="c15s", coq_sample=3)
    exact = [0, 0]
    for c, m, code in zip(start_cases, start_meta, scodes):
        if code == 0: continue
        violations.append(Violation("start_graph: " + ("not a single start-labelled edge on fresh nodes (oracle start_ok rejects)" if code == 1 else "differs from start_graph_model"),
                                    case=m, observed=c[2], oracle="start_ok" if code == 1 else None, failing_input_found=(code == 1),
                                    corr="C15_start_graph / corr:start_graph", call="fggs.start_graph(hrg)"))
    for (c, m), code in zip(repl_cases, rcodes):
        exact[1] += 1
        if code == 0: exact[0] += 1; continue
        if code == 20: notes += 1; continue
        violations.append(Violation(REPL_MSG.get(code, "code %d" % code), case=dict(m, wire=c[:4]), observed=c[4],
                                    oracle="replace_ok" if code in (1, 2) else None, failing_input_found=code in (1, 2),
                                    corr="C15_replace_spec / C15_replace_ok_sound / corr:replace_edge", call="fggs.replace_edge(graph, edge, replacement)"))
    for c, m, code in zip(lin_cases, lin_meta, lcodes):
        if code == 0: continue
        violations.append(Violation(LIN_MSG.get(code, "code %d" % code), case=m, observed=c[3], oracle="same_upto_naming" if code == 1 else None,
                                    failing_input_found=(code == 1), corr="C15_confluence / corr:run", call="fggs.replace_edge in the given order"))
    for c, m, code in zip(der_cases, der_meta, dcodes):
        exact[1] += 1
        if code == 0: exact[0] += 1; continue
        if code == 20: notes += 1; continue
        violations.append(Violation(DER_MSG.get(code, "code %d" % code), case=m, observed=c[2], oracle={1: "same_upto_naming", 2: "total assignment", 3: "weight product", 12: "derived assignment"}.get(code),
                                    failing_input_found=code in (1, 2, 3, 12), corr="C15_derive / C15_derive_assignment / corr:derive", call="FGGDerivation.derive()"))
    if notes: print("NOTE C15: %d result(s) equal to the model only up to dict order" % notes)
    cov = dict(evaluations=len(repl_cases) + len(lin_cases) + len(der_cases) + len(start_cases),
               distinct_nontrivial=len({s for s in shapes if len(s[1][1]) >= 1}),
               rule="random HRGs (gen.random_spec, mostly recursive so rules are reused; explicit/implicit/mixed ids) and random derivation trees with 1..7 rule instances, "
                    "consistent random assignments, shuffled children-dict order, occasionally an unexpanded nonterminal edge; for each tree all linearisations of the replacement "
                    "steps when <= 120, else the depth-first order + random ones up to 120; every replace_edge call is judged by replace_ok, every final graph by same_upto_naming "
                    "against derived_graph; derive() likewise plus assignment and integer weight product. distinct_nontrivial = distinct (grammar rules, tree shape) pairs with >= 2 rule instances. "
                    "Malformed stream: single calls with wrong type, absent edge, both, repeated external node, label-name clash, attachment node not in nodes(), edge with a stolen id, valid calls on hosts with external nodes.",
               samples=samples, trees=made, trees_with_reused_rule=reused, trees_all_linearisations=n_exh, trees_sampled_linearisations=n_samp,
               replace_calls=len(repl_cases), linearisations=len(lin_cases), derive_calls=len(der_cases),
               tree_size_histogram=hist_size, linearisations_per_tree_histogram=hist_lin, grammar_features=feats,
               malformed_histogram=mal_hist, malformed_observed=mal_obs, exact_agreement="%d/%d" % tuple(exact),
               kernel_reevaluated=k1 + k2 + k3 + k4, start_graph_calls=len(start_cases),
               open_items=OPEN_ITEMS)
    return cov, violations

OPEN_ITEMS = [
    "completeness of the oracles (replace_spec -> replace_ok = true, iso_via -> same_upto_naming = true) is not proved; only soundness is",
    "the node-label table of Graph and replace_edge(g, e, g) with host = replacement are outside the model",
]

def replay(path):
    import json
    r = json.load(open(path))
    tier, seed = r.get("tier", "quick"), int(r.get("seed", 0))
    # all randomness comes from Random(seed) and ids are canonically renumbered, so the run that
    # produced the replay file is reproduced exactly; the violation reproduces iff the same
    # verdict on the same grammar/tree/order appears again
    cov, vs = run(tier, seed)
    key = lambda c: json.dumps({k: c.get(k) for k in ("spec", "tree", "kind") if isinstance(c, dict)}, sort_keys=True, default=str)
    want = key(r.get("case") or {})
    from harness import core as _core
    same = [v for v in vs if v.what == r.get("what") and key(_core._jsonable(v.case) if v.case else {}) == want]
    print("replay of %s (tier %s, seed %d): %s" % (os.path.basename(path), tier, seed, r.get("what")))
    print("  call: %s" % r.get("call"))
    print("  expected (Coq model / oracle %s): verdict 0" % r.get("oracle"))
    print("  observed now: %s" % ("the same violation reproduces (%d matching case(s))" % len(same) if same else "no such violation"))
    return 1 if same else 0

MANIFEST = dict(
    level="proof",
    text="Coq theorems about a Gallina model that follows fggs.replace_edge / start_graph / FGGDerivation.derive statement by statement: replacement specification and well-formedness preservation (C15_replace_spec), soundness of the executable oracles, confluence over every linearisation by an invariant (C15_confluence), derive() = the derived graph with a total assignment and the weight product in any commutative semiring (C15_derive). The model is tied to /repo by running every linearisation (<= 120 per tree) with the implementation and judging each call and each final graph with the extracted verified oracles.",
    note="Trusted: Coq kernel + vm_compute, extraction cross-checked against vm_compute, the Python harness that numbers ids/labels and names nodes through the maps replace_edge returns.",
    technique="Coq proof (model + theorems) + model/implementation correspondence with verified-spec oracles",
    design_ref="DESIGN.md section 6, C15")
