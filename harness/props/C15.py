"""C15 -- hyperedge replacement is typed, fresh and order-independent
(fggs.replace_edge, fggs.start_graph, FGGDerivation.derive)."""
import itertools, random, math, copy as _copy
from harness.core import *
from harness import gen

PID = "C15"
LEVEL = "proof"

IdT = Tup(Nat, Nat)
NodeT = Tup(IdT, Nat)
LabT = Tup(Nat, List(Nat), Bool)
EdgeT = Tup(IdT, LabT, List(NodeT))
GraphT = Tup(List(NodeT), List(EdgeT), List(NodeT), List(LabT), List(Nat))
NameT = Tup(Nat, List(IdT), IdT)
WTREE = Sum("wtree", "ReplaceCheck",
            {"WT": Tup(Tup(LabT, GraphT), List(Tup(NodeT, Nat)),
                       List(Tup(EdgeT, Rec("wtree", "d_wtree", lambda: WTREE))))})
GLUE_PREAMBLE = "let rec d_wtree s = %s s" % WTREE.dec()

OutT = Tup(Nat, GraphT, List(Tup(NodeT, NodeT)), List(Tup(EdgeT, EdgeT)))
REPL = CheckFn("c15-replace", "Model.ReplaceCheck", "replace_check", Tup(GraphT, Nat, EdgeT, GraphT, OutT),
               imports=["Model.Replace"])
LIN = CheckFn("c15-lin", "Model.ReplaceCheck", "lin_check",
              Tup(WTREE, Nat, List(List(IdT)), Tup(GraphT, List(Tup(NodeT, NameT)), List(Tup(EdgeT, NameT)))),
              imports=["Model.Replace"])
DER = CheckFn("c15-derive", "Model.ReplaceCheck", "derive_check",
              Tup(WTREE, Nat, Tup(GraphT, List(Tup(NodeT, Nat)), List(Tup(NodeT, NameT)), List(Tup(EdgeT, NameT))),
                  List(Tup(Nat, List(Nat), NN)), NN),
              imports=["Model.Replace"])
START = CheckFn("c15-start", "Model.ReplaceCheck", "start_check", Tup(LabT, Nat, GraphT), imports=["Model.Replace"])
ALIAS = CheckFn("c15-alias", "Model.ReplaceCheck", "alias_check", Tup(GraphT, Nat, EdgeT, OutT), imports=["Model.Replace"])
BUILD = CheckFn("c15-build", "Model.ReplaceCheck", "build_check",
                Tup(GraphT, GraphT, Nat, Tup(List(Nat), Nat), List(Tup(LabT, Nat))), imports=["Model.Replace"])
CHECKFNS = [REPL, LIN, DER, START, ALIAS, BUILD]

# regression case of the (fixed) finding c15_replacement_is_host; runs first in every run
CORPUS_ALIAS = os.path.join(VERIF, "corpus", "C15-replacement-is-host.replay.json")

ASSUMPTIONS = [
    "implicit Node/Edge ids (object addresses) are modelled by a fresh-id counter: a newly created object's id differs from the id of every object still referenced (the harness keeps every graph alive while it is compared; a separate derive() run without any keep-alive is compared by position)",
    "both label tables of Graph are modelled: the edge-label table (name clash -> ValueError) and the node-label table (a NodeLabel is its name; the table is the list of names in insertion order)",
    "replace_edge(g, e, g) with the replacement aliasing the host: the code (since /repo 0be4bef) reads the replacement into lists before its first mutation, so the model is replace_edge_model with r := g (replace_edge_self_model); replace_edge_alias_model_old (live dict views of CPython, RuntimeError after the first insertion) is only the record of the fixed finding",
    "a graph built through a copy / conversion path is observed through nodes(), edges(), ext, edge_labels(), node_labels(); its type is NEVER read from the implementation for the verdict: the model computes it from the external nodes (gtype), and the observed .type / .arity are an output judged by build_check; domains / factors of FactorGraph are not modelled (replace_edge does not read them)",
    "weights: the product theorem is proved for every commutative semiring; the run-time comparison uses non-negative integer weights (exact in float)",
]

# ----------------------------------------------------------------------------
# Python objects -> wire values

class Ctx:
    """numbers explicit ids, implicit ids, node-label names and edge-label names by first appearance"""
    def __init__(self):
        self.expl, self.impl, self.nl, self.eln = {}, {}, {}, {}
        self.keep = []     # every object whose id was numbered stays referenced: addresses are not reused
    def id(self, i):
        if isinstance(i, str): return (0, self.expl.setdefault(i, len(self.expl)))
        return (1, self.impl.setdefault(i, len(self.impl)))
    def nlab(self, l): return self.nl.setdefault(l.name, len(self.nl))
    def lab(self, l): return (self.eln.setdefault(l.name, len(self.eln)), [self.nlab(x) for x in l.type], bool(l.is_terminal))
    def node(self, n):
        self.keep.append(n); return (self.id(n.id), self.nlab(n.label))
    def edge(self, e):
        self.keep.append(e); return (self.id(e.id), self.lab(e.label), [self.node(n) for n in e.nodes])
    def graph(self, g):
        return ([self.node(n) for n in g.nodes()], [self.edge(e) for e in g.edges()],
                [self.node(n) for n in g.ext], [self.lab(l) for l in g.edge_labels()],
                [self.nlab(l) for l in g.node_labels()])
    @property
    def nx(self): return len(self.impl)

def nstart(j): return (0, [], (0, j))
def ninst(ctx, p, i): return (1, [ctx.id(x) for x in p], ctx.id(i))

STATUS_NAME = {0: "returned", 1: "ValueError", 2: "KeyError", 3: "other", 4: "RuntimeError"}

def exc_status(e):
    if isinstance(e, ValueError): return 1
    if isinstance(e, KeyError): return 2
    if isinstance(e, RuntimeError): return 4
    return 3

def judged_replace(ctx, g, e, repl, pre=None):
    """call fggs.replace_edge and return (outcome, wire case for replace_check)"""
    import fggs
    whost, we, wrepl = ctx.graph(g), ctx.edge(e), ctx.graph(repl)
    nx = ctx.nx
    rnodes, redges = list(repl.nodes()), list(repl.edges())      # as passed (repl may be g itself)
    if pre is not None: pre()
    try:
        nm, em = fggs.replace_edge(g, e, repl)
        status = 0
    except Exception as ex:
        nm, em, status = {}, {}, exc_status(ex)
        err = ex
    # canonical numbering of the new implicit ids by ROLE (image of which replacement node / edge),
    # so that the comparison with the model is up to renaming of fresh ids; whatever the maps do not
    # account for is numbered afterwards in the order of the result's dicts
    for rn in rnodes:
        if rn in nm: ctx.node(nm[rn])
    for re_ in redges:
        if re_ in em: ctx.id(em[re_].id); ctx.keep.append(em[re_])
    wres = ctx.graph(g)
    wnm = [(ctx.node(a), ctx.node(b)) for a, b in nm.items()]
    wem = [(ctx.edge(a), ctx.edge(b)) for a, b in em.items()]
    case = (whost, nx, we, wrepl, (status, wres, wnm, wem))
    return (nm, em, status), case

def judged_alias(ctx, g, e):
    """fggs.replace_edge(g, e, g): the host is its own replacement.  Same wire as any other call with the
    replacement = the host as the caller passed it (before the call)"""
    (nm, em, status), (whost, nx, we, wrepl, out) = judged_replace(ctx, g, e, g)
    return status, (whost, nx, we, out)

# ----------------------------------------------------------------------------
# grammar specs: forced shapes (pure transformations of a gen.random_spec spec)

def permute_nodes(rng, spec):
    """same grammar, the nodes of every rule inserted in a random order: the order of .ext then
    differs from the insertion order of the external nodes"""
    rules = []
    for r in spec["rules"]:
        n = len(r["nodes"]); perm = list(range(n)); rng.shuffle(perm)       # old index i -> perm[i]
        nodes = [None] * n
        for i, nl in enumerate(r["nodes"]): nodes[perm[i]] = nl
        rules.append(dict(lhs=r["lhs"], nodes=nodes, edges=[(el, [perm[i] for i in att]) for el, att in r["edges"]],
                          ext=[perm[i] for i in r["ext"]]))
    return dict(spec, rules=rules)

def add_isolated(rng, spec):
    """an extra internal node attached to nothing in one or two rules"""
    rules = [dict(r, nodes=list(r["nodes"])) for r in spec["rules"]]
    for r in rng.sample(rules, min(len(rules), rng.choice([1, 1, 2]))):
        r["nodes"].append(rng.randrange(len(spec["nlabels"])))
    return dict(spec, rules=rules)

def repeat_attachments(rng, spec):
    """edges (nonterminal ones first of all) attached twice to the same node where the type allows it"""
    rules = []
    for r in spec["rules"]:
        edges = []
        for el, att in r["edges"]:
            att = list(att)
            ty = spec["elabels"][el]["type"]
            if len(att) >= 2 and rng.random() < (0.7 if not spec["elabels"][el]["term"] else 0.2):
                pairs = [(i, j) for i in range(len(att)) for j in range(i + 1, len(att)) if ty[i] == ty[j]]
                if pairs:
                    i, j = rng.choice(pairs); att[j] = att[i]
            edges.append((el, att))
        rules.append(dict(r, edges=edges))
    return dict(spec, rules=rules)

def forced_spec(rng):
    """a fixed grammar that has every shape the property text and the seeded regressions need:
    start symbol of arity 2, ext listed in another order than inserted (equal labels), isolated internal
    node, a nonterminal edge attached twice to one node, several rules per nonterminal, internal nodes in
    the rules used as shared sub-derivations, recursion"""
    el = [dict(term=False, type=[0, 0]), dict(term=False, type=[0, 0]), dict(term=False, type=[0]),
          dict(term=True, type=[0, 0]), dict(term=True, type=[0])]
    S, X, Y, f, g = 0, 1, 2, 3, 4
    rules = [
        dict(lhs=S, nodes=[0, 0, 0, 0], edges=[(X, [0, 0]), (X, [1, 2]), (Y, [2]), (Y, [0]), (g, [0])], ext=[1, 0]),
        dict(lhs=X, nodes=[0, 0, 0], edges=[(f, [2, 1]), (f, [1, 0]), (Y, [1]), (Y, [0])], ext=[2, 0]),
        dict(lhs=X, nodes=[0, 0], edges=[(f, [0, 1])], ext=[1, 0]),
        dict(lhs=X, nodes=[0, 0, 0], edges=[(X, [2, 1]), (g, [0])], ext=[1, 2]),
        dict(lhs=Y, nodes=[0, 0], edges=[(f, [0, 1])], ext=[0]),
        dict(lhs=Y, nodes=[0, 0, 0], edges=[(f, [1, 0]), (Y, [0])], ext=[1]),
        dict(lhs=Y, nodes=[0], edges=[(g, [0])], ext=[0]),
    ]
    return dict(nlabels=[rng.choice([2, 3])], elabels=el, start=0, rules=rules, weights={},
                features=["forced"], recursive=True)

# ----------------------------------------------------------------------------
# derivation trees

class Inst:
    def __init__(self, ri, rule, nodes, edges):
        self.ri, self.rule, self.nodes, self.edges = ri, rule, nodes, edges
        self.children = {}      # Edge -> Inst (dict order = the order derive() uses)
        self.asst = {}          # Node -> value index
    def size(self): return 1 + sum(c.size() for c in self.children.values())
    def paths(self, p=()):
        yield p, self
        for k, c in self.children.items():
            yield from c.paths(p + (k.id,))

class Overflow(Exception): pass

def assign_values(rng, spec, t):
    """consistent random values: one value per class of nodes identified by the gluing (union-find over
    (instance object, node index)); a shared instance object gets ONE assignment that fits all its uses"""
    parent = {}
    def find(x):
        parent.setdefault(x, x)
        while parent[x] != x:
            parent[x] = parent[parent[x]]; x = parent[x]
        return x
    def union(a, b):
        ra, rb = find(a), find(b)
        if ra != rb: parent[ra] = rb
    seen = {}
    def walk(s):
        if id(s) in seen: return
        seen[id(s)] = s
        r = spec["rules"][s.ri]
        for ni in range(len(r["nodes"])): find((id(s), ni))
        for k, c in s.children.items():
            ki = s.edges.index(k)
            for a_, x_ in zip(r["edges"][ki][1], spec["rules"][c.ri]["ext"]): union((id(s), a_), (id(c), x_))
            walk(c)
    walk(t)
    val = {}
    for s in seen.values():
        r = spec["rules"][s.ri]
        s.asst = {}
        for ni, nl in enumerate(r["nodes"]):
            root = find((id(s), ni))
            if root not in val: val[root] = rng.randrange(spec["nlabels"][nl])
            s.asst[s.nodes[ni]] = val[root]

def gen_tree(rng, spec, b, max_inst, p_share=0.0):
    by_lhs = {}
    for ri, r in enumerate(spec["rules"]): by_lhs.setdefault(r["lhs"], []).append(ri)
    count = [0]
    done = {}
    def nts(ri): return [k for k, (el, _) in enumerate(spec["rules"][ri]["edges"]) if not spec["elabels"][el]["term"]]
    def build(lhs):
        cands = by_lhs.get(lhs)
        if not cands: return None
        if done.get(lhs) and rng.random() < p_share:
            # the SAME sub-derivation object under another nonterminal edge (shared sub-tree)
            fit = [s for s in done[lhs] if count[0] + s.size() <= max_inst]
            if fit:
                s = rng.choice(fit); count[0] += s.size(); return s
        if count[0] >= max_inst - 2:
            m = min(len(nts(ri)) for ri in cands)
            cands = [ri for ri in cands if len(nts(ri)) == m]
        elif rng.random() < 0.8 and any(nts(ri) for ri in cands):
            cands = [ri for ri in cands if nts(ri)]
            if rng.random() < 0.5:      # branching: the rules with most nonterminal edges
                m = max(len(nts(ri)) for ri in cands)
                cands = [ri for ri in cands if len(nts(ri)) == m]
        ri = rng.choice(cands)
        count[0] += 1
        if count[0] > max_inst: raise Overflow()
        rule, nodes, edges = b.rules[ri]
        t = Inst(ri, rule, nodes, edges)
        ks = nts(ri); rng.shuffle(ks)
        for k in ks:
            if rng.random() < 0.05: continue            # leave a nonterminal edge unexpanded
            sub = build(spec["rules"][ri]["edges"][k][0])
            if sub is not None: t.children[edges[k]] = sub
        done.setdefault(lhs, []).append(t)
        return t
    for _ in range(30):
        count[0] = 0; done.clear()
        try:
            t = build(spec["start"])
        except Overflow:
            continue
        if t is None: return None
        assign_values(rng, spec, t)
        return t
    return None

def tree_features(spec, t):
    """which of the shapes named by the property text this derivation tree exercises"""
    f = set()
    byobj = {}
    for p, s in t.paths(): byobj.setdefault(id(s), []).append(s)
    el = spec["elabels"]
    if el[spec["start"]]["type"]:
        f.add("start_arity>0")
        if any(n in t.asst for n in t.rule.rhs.ext): f.add("start_arity>0_with_start_assignment")
    used = [s.ri for _, s in t.paths()]
    if len(set(used)) < len(used): f.add("rule_used_at_several_places")
    for p, s in t.paths():
        r = spec["rules"][s.ri]
        att_all = {i for _, att in r["edges"] for i in att}
        internal = [i for i in range(len(r["nodes"])) if i not in r["ext"]]
        if any(i not in att_all for i in internal): f.add("isolated_internal_node")
        if any(i not in att_all for i in r["ext"]): f.add("isolated_external_node")
        ext = r["ext"]
        if ext != sorted(ext):
            f.add("ext_order_differs_from_insertion_order")
            if any(ext[i] > ext[j] and r["nodes"][ext[i]] == r["nodes"][ext[j]] for i in range(len(ext)) for j in range(i + 1, len(ext))):
                f.add("ext_transposed_with_equal_labels")
        for k, c in s.children.items():
            att = r["edges"][s.edges.index(k)][1]
            if len(set(att)) < len(att): f.add("expanded_nonterminal_edge_attached_twice_to_a_node")
        if len(s.children) < sum(1 for e_, _ in r["edges"] if not el[e_]["term"]): f.add("nonterminal_edge_left_unexpanded")
        if not internal and not r["edges"]: f.add("rule_copies_nothing")
    for lst in byobj.values():
        if len(lst) > 1:
            f.add("shared_subderivation_object")
            r = spec["rules"][lst[0].ri]
            if len(r["nodes"]) > len(set(r["ext"])): f.add("shared_subderivation_object_with_internal_node")
            if lst[0].children: f.add("shared_subderivation_object_with_children")
    return f

def n_linearisations(t):
    n = t.size()
    d = 1
    for _, s in t.paths(): d *= s.size()
    return math.factorial(n) // d

def all_linearisations(t):
    def rec(pending, acc):
        if not pending:
            yield list(acc); return
        for i, (p, s) in enumerate(pending):
            rest = pending[:i] + pending[i + 1:] + [(p + (k.id,), c) for k, c in s.children.items()]
            acc.append(p)
            yield from rec(rest, acc)
            acc.pop()
    yield from rec([((), t)], [])

def random_linearisation(rng, t):
    pending = [((), t)]; out = []
    while pending:
        i = rng.randrange(len(pending))
        p, s = pending.pop(i)
        out.append(p)
        pending.extend((p + (k.id,), c) for k, c in s.children.items())
    return out

def preorder(t):
    return [p for p, _ in t.paths()]

def wire_tree(ctx, t):
    return ("WT", ((ctx.lab(t.rule.lhs), ctx.graph(t.rule.rhs)),
                   [(ctx.node(n), v) for n, v in t.asst.items()],
                   [(ctx.edge(k), wire_tree(ctx, c)) for k, c in t.children.items()]))

def run_linearisation(ctx, hrg, t, order, repl_cases):
    """carry out the replacement steps in the given order with fggs.replace_edge, naming the
    nodes/edges through the maps it returns.  Returns (graph, node names, edge names)."""
    import fggs
    g = fggs.start_graph(hrg)
    (e0,) = list(g.edges())
    nn = {n: nstart(j) for j, n in enumerate(e0.nodes)}
    en = {e0: nstart(0)}
    pending = {(): e0}
    index = dict(t.paths())
    for p in order:
        s = index[p]
        e = pending.pop(p)
        (nm, em, status), case = judged_replace(ctx, g, e, s.rule.rhs)
        repl_cases.append((case, dict(path=list(map(str, p)), rule=s.ri)))
        if status != 0:
            raise RuntimeError("replace_edge raised (status %d) on a well-formed derivation step" % status)
        ext = set(s.rule.rhs.ext)
        for rn, gn in nm.items():
            if rn not in ext: nn[gn] = ninst(ctx, p, rn.id)
        en.pop(e, None)
        for re_, ge in em.items(): en[ge] = ninst(ctx, p, re_.id)
        for k, c in s.children.items(): pending[p + (k.id,)] = em[k]
    return g, nn, en

UNNAMED = (0, [], (0, 4999))      # a node/edge of the result that no returned map accounts for

def wire_named(ctx, g, nn, en):
    return (ctx.graph(g), [(ctx.node(n), nn.get(n, UNNAMED)) for n in g.nodes()],
            [(ctx.edge(e), en.get(e, UNNAMED)) for e in g.edges()])

def to_fgg_deriv(fgg, spec, t, memo=None):
    """FGGDerivation objects; an Inst object occurring at several places of the tree becomes ONE
    FGGDerivation object used as the child of several edges"""
    import fggs
    memo = {} if memo is None else memo
    if id(t) in memo: return memo[id(t)]
    r = spec["rules"][t.ri]
    asst = {n: "v%d_%d" % (r["nodes"][t.nodes.index(n)], v) for n, v in t.asst.items()}
    d = fggs.FGGDerivation(fgg, t.rule, asst, {k: to_fgg_deriv(fgg, spec, c, memo) for k, c in t.children.items()})
    memo[id(t)] = d
    return d

def weight_product(g, asst):
    prod = 1
    for e in g.edges():
        if e.label.is_terminal:
            w = g.factors[e.label.name].apply([asst[n] for n in e.nodes])
            prod *= int(round(float(w)))
    return prod

def run_derive(ctx, b, spec, t):
    """derive() with fggs.derivations.replace_edge wrapped to record the maps (names only)."""
    import fggs, fggs.derivations as D
    calls = []
    orig = D.replace_edge
    def spy(graph, edge, replacement):
        r = orig(graph, edge, replacement)
        calls.append((edge, replacement, r[0], r[1]))
        return r
    D.replace_edge = spy
    try:
        g, asst = to_fgg_deriv(b.fgg, spec, t).derive()
    finally:
        D.replace_edge = orig
    index = dict(t.paths())
    nn, en, epath = {}, {}, {}
    for i, (edge, repl, nm, em) in enumerate(calls):
        if i == 0:
            epath[edge] = ()
            for j, n in enumerate(edge.nodes): nn[n] = nstart(j)
        p = epath[edge]
        s = index[p]
        ext = set(s.rule.rhs.ext)
        for rn, gn in nm.items():
            if rn not in ext: nn[gn] = ninst(ctx, p, rn.id)
        for re_, ge in em.items(): en[ge] = ninst(ctx, p, re_.id)
        for k, c in s.children.items(): epath[em[k]] = p + (k.id,)
    # weight product through the implementation's factors (a missing value is judged by the model side)
    try:
        prod = weight_product(g, asst)
    except KeyError:
        prod = 0
    wasst = []
    for n, v in asst.items():
        wasst.append((ctx.node(n), int(str(v).split("_")[1])))
    return g, asst, wasst, nn, en, prod

def run_derive_plain(b, spec, t):
    """derive() once more with NOTHING kept alive by the harness (only the integer ids of the replaced
    edges are recorded): objects dropped by an earlier replacement may give their address, i.e. their
    id, to a node/edge created by a later one"""
    import fggs.derivations as D
    dead = set()
    orig = D.replace_edge
    def spy(graph, edge, replacement):
        if not isinstance(edge.id, str): dead.add(edge.id)
        return orig(graph, edge, replacement)
    d = to_fgg_deriv(b.fgg, spec, t)
    D.replace_edge = spy
    try:
        g, asst = d.derive()
    finally:
        D.replace_edge = orig
    reused = sum(1 for n in g.nodes() if n.id in dead) + sum(1 for e in g.edges() if e.id in dead)
    return g, asst, reused

# ----------------------------------------------------------------------------

def int_weights(rng, spec):
    w = {}
    for el, e in enumerate(spec["elabels"]):
        if e["term"]:
            shape = [spec["nlabels"][nl] for nl in e["type"]]
            w[el] = gen.nested(shape, lambda: Fraction(rng.choice([1, 1, 2, 2, 3, 0] if rng.random() < 0.1 else [1, 2, 3])))
    return w

def weight_table(ctx, b, spec):
    tab = []
    for el, w in spec["weights"].items():
        name = ctx.lab(b.els[el])[0]
        shape = [spec["nlabels"][nl] for nl in spec["elabels"][el]["type"]]
        for idx in itertools.product(*[range(s) for s in shape]):
            x = w
            for i in idx: x = x[i]
            tab.append((name, list(idx), int(x)))
    return tab

def tree_jsonable(t):
    return dict(rule=t.ri, asst=[v for v in t.asst.values()],
                children={"edge%d" % t.edges.index(k): tree_jsonable(c) for k, c in t.children.items()})

def tree_shape(t):
    return (t.ri, tuple(sorted((t.edges.index(k), tree_shape(c)) for k, c in t.children.items())))

# ----------------------------------------------------------------------------
# malformed / single-call stream

def build_graph(nls, els, r, idf):
    """a Graph from a spec rule; idf(kind, k) -> explicit id string or None"""
    import fggs
    g = fggs.Graph()
    nodes = [fggs.Node(nls[nl], id=idf("n", k)) for k, nl in enumerate(r["nodes"])]
    for n in nodes: g.add_node(n)
    edges = []
    for k, (el, att) in enumerate(r["edges"]):
        e = fggs.Edge(els[el], [nodes[i] for i in att], id=idf("e", k))
        g.add_edge(e); edges.append(e)
    g.ext = [nodes[i] for i in r["ext"]]
    return g, nodes, edges

def random_single_spec(rng, kind):
    spec = gen.random_spec(rng, recursive=True, start_arity0=False, dup_ext=(kind == "dup_ext"), p_feature=0.4 if kind == "dup_ext" else 0.15)
    if rng.random() < 0.6: spec = permute_nodes(rng, spec)
    if rng.random() < 0.2: spec = add_isolated(rng, spec)
    if rng.random() < 0.3: spec = repeat_attachments(rng, spec)
    return spec

def malformed_cases(rng, n):
    """yields (kind, ctx, host, edge, repl, spec, pre) for single replace_edge calls, most outside the guard"""
    import fggs
    out = []
    kinds = ["wrong_type", "absent_edge", "wrong_type_absent", "dup_ext", "label_clash", "foreign_node", "alias_id", "valid_rhs_host",
             "lookalike_ids", "valid_rhs_host"]
    tries = 0
    while len(out) < n and tries < 40 * n:
        tries += 1
        kind = kinds[len(out) % len(kinds)]
        spec = random_single_spec(rng, kind)
        ids = rng.choice(["explicit", "implicit", "mixed"])
        bh = gen.build_hrg(spec, ids=ids, rng=rng)       # hosts (mutated)
        br = gen.build_hrg(spec, ids=rng.choice(["explicit", "implicit", "mixed"]), rng=rng)   # replacements
        cands = []
        for ri, r in enumerate(spec["rules"]):
            for k, (el, att) in enumerate(r["edges"]):
                if not spec["elabels"][el]["term"]: cands.append((ri, k, el))
        if not cands: continue
        ri, k, el = rng.choice(cands)
        host = bh.rules[ri][0].rhs
        edge = bh.rules[ri][2][k]
        pre = None
        same = [rj for rj, r in enumerate(spec["rules"]) if r["lhs"] == el]
        typ = lambda x: spec["elabels"][x]["type"]
        if kind in ("valid_rhs_host", "dup_ext", "label_clash", "foreign_node", "alias_id", "absent_edge", "lookalike_ids"):
            if not same: continue
            rj = rng.choice(same)
            if kind == "dup_ext" and len(set(spec["rules"][rj]["ext"])) == len(spec["rules"][rj]["ext"]): continue
            repl = br.rules[rj][0].rhs
        else:
            other = [rj for rj, r in enumerate(spec["rules"]) if typ(r["lhs"]) != typ(el)]
            if not other: continue
            repl = br.rules[rng.choice(other)][0].rhs
        if kind == "lookalike_ids":
            # explicit ids of the host = decimal strings of addresses that the allocator is about to hand
            # out again: dummy objects of the classes replace_edge instantiates, freed just before the call
            r = spec["rules"][ri]
            n_new = len(list(repl.nodes())) + len(list(repl.edges())) + 2
            dummies = [fggs.Node(bh.nls[0]) for _ in range(n_new)] + [fggs.Edge(edge.label, edge.nodes) for _ in range(n_new)]
            pool = [str(id(d)) for d in dummies]
            rng.shuffle(pool)
            def idf(kind_, k_, pool=pool):
                return pool.pop() if pool and rng.random() < 0.8 else "%s%d" % (kind_, k_)
            host, hn, he = build_graph(bh.nls, bh.els, r, idf)
            edge = he[k]
            def pre(dummies=dummies): dummies.clear()
        if kind in ("absent_edge", "wrong_type_absent"):
            edge = fggs.Edge(edge.label, edge.nodes, id=rng.choice([None, "zz"]))
        if kind == "alias_id":
            if not isinstance(edge.id, str): continue
            others = [l for l in bh.els if l.type == edge.label.type and l != edge.label]
            if not others: continue
            edge = fggs.Edge(rng.choice(others), edge.nodes, id=edge.id)
        if kind == "label_clash":
            es = list(repl.edges())
            if not es: continue
            victim = rng.choice(es)
            clash = fggs.EdgeLabel(victim.label.name, victim.label.type, is_terminal=not victim.label.is_terminal,
                                   is_nonterminal=victim.label.is_terminal)
            if not any(l.name == clash.name for l in host.edge_labels()): continue
            g2 = fggs.Graph()
            for nd in repl.nodes(): g2.add_node(nd)
            for e2 in repl.edges():
                g2.add_edge(fggs.Edge(clash, e2.nodes, id=e2.id if isinstance(e2.id, str) else None)
                            if e2.label == victim.label else e2)
            g2.ext = repl.ext
            repl = g2
        if kind == "foreign_node":
            ns = list(repl.nodes())
            if not ns or not isinstance(ns[-1].id, str) or len(bh.nls) < 2: continue
            v = ns[-1]
            ol = [l for l in bh.nls if l != v.label][0]
            ghost = fggs.Node(ol, id=v.id)
            lab = fggs.EdgeLabel("tghost", (ol,), is_terminal=True)
            g2 = fggs.Graph()
            for nd in repl.nodes(): g2.add_node(nd)
            for e2 in repl.edges(): g2.add_edge(e2)
            # the API (add_edge after fix 349378f) refuses such an edge; plant it directly
            ge = fggs.Edge(lab, (ghost,))
            g2._edges[ge.id] = ge
            g2._edge_labels[lab.name] = lab
            g2.ext = repl.ext
            repl = g2
        out.append((kind, Ctx(), host, edge, repl, gen.spec_jsonable(spec), pre))
    return out

def lookalike_hit(g):
    """an explicit id (a string) of the graph spells the implicit id (an int) of another node/edge of it"""
    ints = {n.id for n in g.nodes() if not isinstance(n.id, str)} | {e.id for e in g.edges() if not isinstance(e.id, str)}
    strs = [x.id for x in list(g.nodes()) + list(g.edges()) if isinstance(x.id, str)]
    return sum(1 for s in strs if s.isdigit() and int(s) in ints)


# ----------------------------------------------------------------------------
# construction / conversion / copy paths: the same fragment built through every way the library offers

BASES = [("Graph", "after"), ("Graph", "before"), ("Graph", "between"), ("Graph", "twice"),
         ("FactorGraph", "after"), ("FactorGraph", "before"), ("FactorGraph", "twice")]
CONVS = [(), ("copy",), ("copy", "copy"), ("from_graph",), ("from_graph", "copy"), ("copy", "from_graph"),
         ("from_graph", "from_graph"), ("rule_copy",), ("hrg_copy",), ("fgg_from_hrg",), ("fgg_from_hrg", "fgg_copy"),
         ("from_graph", "fgg_from_hrg", "fgg_copy"), ("deepcopy",), ("from_graph", "deepcopy"),
         ("from_graph", "ext_again"), ("copy", "ext_other_then_back"), ("from_graph", "copy", "ext_other_then_back"),
         ("json",), ("from_graph", "json")]
# conversions that keep the Node / Edge OBJECTS (a host edge stays addressable)
KEEPS_OBJECTS = {"copy", "from_graph", "rule_copy", "hrg_copy", "fgg_from_hrg", "fgg_copy", "ext_again", "ext_other_then_back"}

class PathRefused(Exception):
    """a conversion step of the library raised on a well-formed fragment"""
    def __init__(self, step, graph, exc):
        Exception.__init__(self, "%s raised %r" % (step, exc)); self.step, self.graph, self.exc = step, graph, exc

def other_ext(rng, g):
    """some other tuple of nodes of g (another length / order / labels where possible)"""
    ns = list(g.nodes()); cur = tuple(g.ext)
    cands = [(), tuple(ns), tuple(reversed(cur)), cur[:-1], cur + tuple(ns[:1]), tuple(ns[-1:])]
    cands = [c for c in cands if tuple(c) != cur] or [()]
    return tuple(rng.choice(cands))

def build_base(rng, cls, when, nls, els, r, idf):
    """the rule's right-hand side as a `cls`, .ext assigned after / before / between the edges, or twice
    (first to other nodes).  Node insertion order is the spec's except for the nodes .ext brings in first."""
    import fggs
    g = getattr(fggs, cls)()
    nodes = [fggs.Node(nls[nl], id=idf("n", k)) for k, nl in enumerate(r["nodes"])]
    edges = [fggs.Edge(els[el], [nodes[i] for i in att], id=idf("e", k)) for k, (el, att) in enumerate(r["edges"])]
    ext = [nodes[i] for i in r["ext"]]
    def add_nodes():
        for n in nodes:
            if not g.has_node_id(n.id): g.add_node(n)
    if when == "before":
        g.ext = ext; add_nodes()
        for e in edges: g.add_edge(e)
    elif when == "between":
        add_nodes(); h = len(edges) // 2
        for e in edges[:h]: g.add_edge(e)
        g.ext = ext
        for e in edges[h:]: g.add_edge(e)
    else:
        add_nodes()
        if when == "twice": g.ext = other_ext(rng, g) if nodes else ()
        for e in edges: g.add_edge(e)
        g.ext = ext
    return g, nodes, edges

def convert(rng, g, step, lhs):
    """one conversion step of the library; `lhs` = a nonterminal label of g's type (for the steps through rules)"""
    import fggs, copy as _cp, json as _json
    if step == "copy": return g.copy()
    if step == "from_graph": return fggs.FactorGraph.from_graph(g)
    if step == "deepcopy": return _cp.deepcopy(g)
    if step == "ext_again":
        g.ext = tuple(g.ext); return g
    if step == "ext_other_then_back":
        back = tuple(g.ext); g.ext = other_ext(rng, g); g.ext = back; return g
    rule = fggs.HRGRule(lhs, g)
    if step == "rule_copy": return rule.copy().rhs
    if step == "fgg_copy":
        f = fggs.FGG(lhs); f.add_rule(rule); return f.copy().all_rules()[0].rhs
    h = fggs.HRG(lhs); h.add_rule(rule)
    if step == "hrg_copy": return h.copy().all_rules()[0].rhs
    if step == "fgg_from_hrg": return fggs.FGG.from_hrg(h).all_rules()[0].rhs
    if step == "json": return fggs.json_to_hrg(_json.loads(_json.dumps(fggs.hrg_to_json(h)))).all_rules()[0].rhs
    raise AssertionError(step)

def build_through(rng, base, convs, nls, els, r, idf, lhs):
    """-> (graph, nodes, edges, observations).  Every intermediate graph is observed: (graph before the step,
    graph after it, comparison mode, step)."""
    g, nodes, edges = build_base(rng, base[0], base[1], nls, els, r, idf)
    obs = [(None, g, 0, "%s(ext %s)" % base)]
    for step in convs:
        mode = 0
        if step == "json":
            mode = 1 if all(isinstance(x.id, str) for x in list(g.nodes()) + list(g.edges())) else 2
        try:
            g2 = convert(rng, g, step, lhs)
        except Exception as ex:
            raise PathRefused(step, g, ex)
        obs.append((g, g2, mode, step))
        g = g2
    return g, nodes, edges, obs

def observe_build(ctx, src, out, mode, lhs_probe):
    """wire case for build_check: src and out through nodes()/edges()/ext, out.type, out.arity, and HRGRule(l, out)
    for the probe labels"""
    import fggs
    wsrc = ctx.graph(src if src is not None else out)
    wout = ctx.graph(out)
    ty = [ctx.nlab(l) for l in out.type]
    rules = []
    for l in lhs_probe:
        try:
            fggs.HRGRule(l, out); st = 0
        except Exception:
            st = 1
        rules.append((ctx.lab(l), st))
    return (wsrc, wout, mode, (ty, int(out.arity)), rules)

def path_label(base, convs): return "%s(ext %s)" % base + "".join("." + c for c in convs)

def path_cases(rng, n):
    """single replace_edge calls in which the REPLACEMENT (every case) and the HOST (every other case) are built
    through a construction / conversion / copy path.  Yields dicts."""
    import fggs
    out = []
    combos = [(b, c) for c in CONVS for b in BASES]
    rng.shuffle(combos)
    # every conversion chain at least once on the plain base, then the shuffled product
    combos = [(("Graph", "after"), c) for c in CONVS] + [(b, ()) for b in BASES] + combos
    tries = 0
    while len(out) < n and tries < 60 * n:
        tries += 1
        base, convs = combos[len(out) % len(combos)]
        want = ["valid", "valid", "wrong_type", "valid", "wrong_type_nullary_edge", "wrong_type_nullary_repl"][len(out) % 6]
        spec = random_single_spec(rng, "path")
        typ = lambda x: spec["elabels"][x]["type"]
        cands = [(ri, k, el) for ri, r in enumerate(spec["rules"]) for k, (el, att) in enumerate(r["edges"])
                 if not spec["elabels"][el]["term"]]
        if want == "wrong_type_nullary_edge": cands = [c for c in cands if not typ(c[2])]
        elif want != "wrong_type_nullary_repl": cands = [c for c in cands if typ(c[2])] or cands
        if not cands: continue
        ri, k, el = rng.choice(cands)
        if want == "valid": rjs = [rj for rj, r in enumerate(spec["rules"]) if r["lhs"] == el and len(set(r["ext"])) == len(r["ext"])]
        elif want == "wrong_type_nullary_edge": rjs = [rj for rj, r in enumerate(spec["rules"]) if typ(r["lhs"])]
        elif want == "wrong_type_nullary_repl": rjs = [rj for rj, r in enumerate(spec["rules"]) if not typ(r["lhs"]) and typ(el)]
        else: rjs = [rj for rj, r in enumerate(spec["rules"]) if typ(r["lhs"]) != typ(el)]
        if not rjs: continue
        rj = rng.choice(rjs)
        ids = rng.choice(["explicit", "implicit", "mixed"])
        b = gen.build_hrg(spec, ids="explicit", rng=rng)     # only the label objects are used
        def mk_idf(prefix):
            return lambda kind_, k_: ("%s%s%d" % (prefix, kind_, k_)) if (ids == "explicit" or (ids == "mixed" and rng.random() < 0.5)) else None
        hbase, hconvs = (("Graph", "after"), ())
        if len(out) % 2 == 1:
            hbase, hconvs = rng.choice([(bb, cc) for bb, cc in combos if all(c in KEEPS_OBJECTS for c in cc)])
        desc = dict(spec=gen.spec_jsonable(spec), ids=ids, want=want, host_rule=ri, host_edge=k, repl_rule=rj,
                    repl_path=path_label(base, convs), host_path=path_label(hbase, hconvs))
        out.append(dict(desc=desc, spec=spec, b=b, ri=ri, k=k, rj=rj, base=base, convs=convs, hbase=hbase, hconvs=hconvs,
                        idf_h=mk_idf("h"), idf_r=mk_idf("r"), want=want))
    return out

# ----------------------------------------------------------------------------
# replace_edge(g, e, g)

def alias_cases(rng, n):
    """(shape, ctx, host, edge, jsonable description): calls replace_edge(host, edge, host)"""
    import fggs
    out = []
    N = fggs.NodeLabel("N0")
    X = fggs.EdgeLabel("X0", (N,), is_nonterminal=True)
    t2 = fggs.EdgeLabel("t1", (N, N), is_terminal=True)
    t1 = fggs.EdgeLabel("t2", (N,), is_terminal=True)
    def small(shape, ids):
        mk = (lambda s: s) if ids == "explicit" else (lambda s: None)
        g = fggs.Graph(); a = fggs.Node(N, id=mk("a")); b = fggs.Node(N, id=mk("b"))
        if shape == "internal_node":           # a(ext) -t- b, X(b): RuntimeError in the node loop
            g.add_node(a); g.add_node(b); g.add_edge(fggs.Edge(t2, (a, b), id=mk("f"))); e = fggs.Edge(X, (b,), id=mk("e")); g.add_edge(e); g.ext = [a]
        elif shape == "only_edge":             # a(ext), X(a): returns, the copy of X(a) is missing
            g.add_node(a); e = fggs.Edge(X, (a,), id=mk("e")); g.add_edge(e); g.ext = [a]
        elif shape == "all_ext_other_edge":    # a(ext), t(a), X(a): RuntimeError in the edge loop
            g.add_node(a); g.add_edge(fggs.Edge(t1, (a,), id=mk("f"))); e = fggs.Edge(X, (a,), id=mk("e")); g.add_edge(e); g.ext = [a]
        elif shape == "wrong_type":            # X(a) but no external node: ValueError, unchanged
            g.add_node(a); e = fggs.Edge(X, (a,), id=mk("e")); g.add_edge(e)
        else:                                  # absent edge
            g.add_node(a); g.add_edge(fggs.Edge(X, (a,), id=mk("e"))); g.ext = [a]; e = fggs.Edge(X, (a,), id=mk("zz"))
        return g, e
    # the recorded failing input of the fixed finding c15_replacement_is_host runs first
    try:
        import json as _json
        rc = _json.load(open(CORPUS_ALIAS)).get("case", {}).get("spec", {})
        g, e = small(rc.get("shape", "only_edge"), rc.get("ids", "explicit"))
        out.append(("corpus:" + rc.get("shape", "only_edge"), Ctx(), g, e, dict(rc, corpus="C15-replacement-is-host")))
    except OSError:
        pass
    for shape in ["internal_node", "only_edge", "all_ext_other_edge", "wrong_type", "absent_edge"]:
        for ids in ["explicit", "implicit"]:
            g, e = small(shape, ids)
            out.append((shape, Ctx(), g, e, dict(shape=shape, ids=ids, hand_made=True)))
    tries = 0
    while len(out) < n and tries < 60 * n:
        tries += 1
        spec = random_single_spec(rng, "alias")
        ids = rng.choice(["explicit", "implicit", "mixed"])
        b = gen.build_hrg(spec, ids=ids, rng=rng)
        cands = []
        for ri, r in enumerate(spec["rules"]):
            if len(set(r["ext"])) < len(r["ext"]): continue
            for k, (el, att) in enumerate(r["edges"]):
                if not spec["elabels"][el]["term"] and spec["elabels"][el]["type"] == [r["nodes"][i] for i in r["ext"]]:
                    cands.append((ri, k))
        if not cands: continue
        ri, k = rng.choice(cands)
        r = spec["rules"][ri]
        variant = rng.choice(["as_is", "as_is", "all_ext", "only_edge"])
        if variant != "as_is":
            keep = sorted(set(r["ext"]))
            if any(i not in keep for i in r["edges"][k][1]): variant = "as_is"
            else:
                ren = {i: j for j, i in enumerate(keep)}
                kept = [kk for kk, (el, att) in enumerate(r["edges"]) if all(i in ren for i in att) and (variant == "all_ext" or kk == k)]
                edges = [(r["edges"][kk][0], [ren[i] for i in r["edges"][kk][1]]) for kk in kept]
                r = dict(lhs=r["lhs"], nodes=[r["nodes"][i] for i in keep], edges=edges, ext=[ren[i] for i in r["ext"]])
                k = kept.index(k)
        def idf(kind_, k_): return ("%s%d" % (kind_, k_)) if (ids == "explicit" or (ids == "mixed" and rng.random() < 0.5)) else None
        g, ns, es = build_graph(b.nls, b.els, r, idf)
        out.append((variant, Ctx(), g, es[k], dict(shape=variant, ids=ids, rule=dict(r, edges=[list(x) for x in r["edges"]]), edge=k)))
    return out

# ----------------------------------------------------------------------------

REPL_MSG = {1: "replace_edge result violates the replacement specification (verified oracle replace_ok rejects it; C15_replace_ok_exact)",
            2: "a wrong-type replacement / an edge not in the graph was not rejected with ValueError leaving the graph unchanged",
            3: "replace_edge raised on a well-formed host, edge and replacement of the right type (C15_replace_spec: it must return a replacement)",
            10: "replace_edge result differs from the Gallina model", 11: "graph left behind by a raising replace_edge differs from the model's",
            12: "replace_edge raised where the model returns", 13: "replace_edge returned / raised another error where the model raises"}
LIN_MSG = {1: "graph obtained by this order of replacements is not isomorphic (through the returned maps) to the derived graph (verified oracle same_upto_naming rejects; C15_same_upto_naming_exact)",
           3: "generated derivation tree is not well-formed (harness bug)", 10: "final graph differs from the model's run of the same linearisation",
           11: "the model's run of this linearisation fails", 12: "model's own run is not the derived graph (contradicts C15_confluence)"}
DER_MSG = {1: "derive(): graph is not isomorphic to the derived graph (oracle same_upto_naming rejects)",
           2: "derive(): assignment is not total on the nodes of the derived graph",
           5: "derive(): assignment has a key that is not a node of the derived graph",
           12: "derive(): a value of the assignment is not the value of the denotational derived assignment at that node's name (C15_derive_assignment)",
           3: "derive(): product of factor weights differs from the product of the rule-instance weights",
           4: "generated derivation tree is not well-formed (harness bug)", 10: "derive() differs from derive_model",
           11: "derive_model raises on a well-formed derivation"}
BUILD_MSG = {1: "Graph.type / Graph.arity is not the tuple of labels / the number of the graph's external nodes (type computed by the model from .ext; C15_build_check_exact)",
             2: "a copy / conversion changed the nodes, edges or external nodes of the graph (or replace_edge modified the replacement passed to it)",
             3: "HRGRule(lhs, graph) refused a nonterminal left-hand side of the graph's type, or accepted one of another type / a terminal"}
BUILD_ORACLE = {1: "type_obs_ok", 2: "content_eqb", 3: "rules_obs_ok"}
ALIAS_PREFIX = "replace_edge(g, e, g) -- the host graph passed as its own replacement: "

def run(tier, seed):
    # the harness keeps every wire value and every fggs object alive until the verdicts are in (a few
    # million acyclic tuples): generational collections of that heap cost more than everything else, and
    # there is nothing cyclic to reclaim but derive()'s own closure frames
    import gc
    was = gc.isenabled()
    gc.disable()
    try:
        return _run(tier, seed)
    finally:
        if was: gc.enable()

def _run(tier, seed):
    rng = random.Random(seed)
    import time as _time
    t_start = _time.time()
    violations, notes = [], 0
    # replace_edge(g, e, g)
    al = alias_cases(rng, 50 if tier == "quick" else 400)
    alias_wire, alias_meta, alias_obs = [], [], {}
    for shape, ctx, host, edge, desc in al:
        try:
            status, case = judged_alias(ctx, host, edge)
        except Exception as ex:
            violations.append(Violation("harness could not run aliasing case %s: %r" % (shape, ex), case=desc, corr="harness", failing_input_found=False))
            continue
        alias_wire.append(case); alias_meta.append(dict(kind="alias:" + shape, spec=desc))
        key = shape + ":" + STATUS_NAME[status]
        alias_obs[key] = alias_obs.get(key, 0) + 1
    n_trees = 115 if tier == "quick" else 2000
    n_forced = 10 if tier == "quick" else 100
    if os.environ.get("C15_TREES"): n_trees = int(os.environ["C15_TREES"])      # mutation self-tests only
    max_lin = 120
    repl_cases, lin_cases, der_cases = [], [], []
    lin_meta, der_meta = [], []
    start_cases, start_meta = [], []
    hist_size, hist_lin, feats, shape_hist = {}, {}, {}, {}
    shapes = set()
    n_exh = n_samp = reused = 0
    addr_reuse_trees = addr_reuse_objects = plain_runs = 0
    samples = []
    made = 0
    attempts = 0
    while made < n_trees and attempts < 20 * n_trees:
        attempts += 1
        forced = made < n_forced
        if forced:
            spec = forced_spec(rng)
        else:
            spec = gen.random_spec(rng, recursive=rng.random() < 0.75, dup_ext=False, start_arity0=rng.random() < 0.4,
                                   p_feature=0.35, allow_inf=False, max_edges=5)
            if rng.random() < 0.6: spec = permute_nodes(rng, spec)
            if rng.random() < 0.25: spec = add_isolated(rng, spec)
            if rng.random() < 0.35: spec = repeat_attachments(rng, spec)
        spec["weights"] = int_weights(rng, spec)
        ids = rng.choice(["explicit", "implicit", "mixed"])
        try:
            b = gen.build_fgg(spec, float, ids=ids, rng=rng)
        except Exception as ex:
            violations.append(Violation("building a generated FGG raised %r" % (ex,), case=gen.spec_jsonable(spec), corr="harness", failing_input_found=False))
            continue
        target = rng.choice([1, 2, 3, 4, 5, 6, 7, 7, 7]) if not forced else rng.choice([3, 4, 5, 6, 7])
        t = gen_tree(rng, spec, b, target, p_share=0.6 if forced else rng.choice([0.0, 0.3, 0.6]))
        if t is None: continue
        if forced and t.size() < 3: continue
        if made >= n_trees // 4 and t.size() < 3 and rng.random() < 0.8: continue   # enough tiny trees
        if made >= n_trees // 3 and n_linearisations(t) == 1 and rng.random() < 0.6: continue   # enough chains
        made += 1
        n = t.size()
        hist_size[n] = hist_size.get(n, 0) + 1
        used = [s.ri for _, s in t.paths()]
        if len(set(used)) < len(used): reused += 1
        for f in spec["features"]: feats[f] = feats.get(f, 0) + 1
        tf = tree_features(spec, t)
        for f in tf: shape_hist[f] = shape_hist.get(f, 0) + 1
        shape_hist["ids:" + ids] = shape_hist.get("ids:" + ids, 0) + 1
        shapes.add((repr(gen.spec_jsonable(spec)["rules"]), tree_shape(t)))
        nl = n_linearisations(t)
        if nl <= max_lin:
            lins = list(all_linearisations(t)); n_exh += 1
        else:
            seen = {tuple(preorder(t))}
            lins = [preorder(t)]
            for _ in range(max_lin * 3):
                l = random_linearisation(rng, t)
                if tuple(l) not in seen:
                    seen.add(tuple(l)); lins.append(l)
                if len(lins) >= max_lin: break
            n_samp += 1
        bucket = "1" if len(lins) == 1 else "2-10" if len(lins) <= 10 else "11-119" if len(lins) < 120 else "120"
        hist_lin[bucket] = hist_lin.get(bucket, 0) + 1
        meta = dict(spec=gen.spec_jsonable(spec), ids=ids, tree=tree_jsonable(t), shapes=sorted(tf))
        for l in lins:
            ctx = Ctx()
            wt = wire_tree(ctx, t)           # number the rules' ids first
            try:
                rc = []
                g, nn, en = run_linearisation(ctx, b.hrg, t, l, rc)
                for c, m in rc: repl_cases.append((c, dict(meta, step=m, order=[list(map(str, p)) for p in l])))
            except Exception as ex:
                for c, m in rc: repl_cases.append((c, dict(meta, step=m, order=[list(map(str, p)) for p in l])))
                violations.append(Violation("replacement sequence raised %r" % (ex,), case=dict(meta, order=[list(map(str, p)) for p in l]),
                                            corr="corr:run", call="fggs.replace_edge along a linearisation", failing_input_found=False))
                continue
            lin_cases.append((wt, 0, [[ctx.id(x) for x in p] for p in l], wire_named(ctx, g, nn, en)))
            lin_meta.append(dict(meta, order=[list(map(str, p)) for p in l]))
        # start_graph
        try:
            import fggs
            ctx = Ctx()
            wl = ctx.lab(b.hrg.start)
            start_cases.append((wl, 0, ctx.graph(fggs.start_graph(b.hrg))))
            start_meta.append(dict(spec=meta["spec"], ids=ids))
        except Exception as ex:
            violations.append(Violation("start_graph raised %r" % (ex,), case=meta, corr="corr:start_graph", call="fggs.start_graph(hrg)"))
        # derive()
        ctx = Ctx()
        wt = wire_tree(ctx, t)
        g = None
        try:
            g, asst, wasst, nn, en, prod = run_derive(ctx, b, spec, t)
            wg, wnn, wen = wire_named(ctx, g, nn, en)
            der_cases.append((wt, 0, (wg, wasst, wnn, wen), weight_table(ctx, b, spec), prod))
            der_meta.append(meta)
        except Exception as ex:
            violations.append(Violation("derive() raised %r on a well-formed derivation" % (ex,), case=meta, corr="corr:derive",
                                        call="FGGDerivation.derive()"))
            g = None
        # derive() again with nothing kept alive: addresses (= implicit ids) of dropped objects may be reused.
        # derive() is deterministic, so the nodes/edges of the second result are named by POSITION; the names
        # (paths of rule-edge ids + rule-node ids) are numbered identically in every Ctx because wire_tree is
        # the first thing numbered and the rule objects stay alive.
        if g is not None and n >= 2:
            try:
                names_n = [nn.get(x, UNNAMED) for x in g.nodes()]
                names_e = [en.get(x, UNNAMED) for x in g.edges()]
                del g, asst, nn, en, wg, wnn, wen, wasst
                ctx = None
                g2, asst2, n_reused = run_derive_plain(b, spec, t)
                plain_runs += 1
                if n_reused: addr_reuse_trees += 1; addr_reuse_objects += n_reused
                ctx2 = Ctx()
                wt2 = wire_tree(ctx2, t)
                nn2 = {x: (names_n[i] if i < len(names_n) else UNNAMED) for i, x in enumerate(g2.nodes())}
                en2 = {x: (names_e[i] if i < len(names_e) else UNNAMED) for i, x in enumerate(g2.edges())}
                try: prod2 = weight_product(g2, asst2)
                except KeyError: prod2 = 0
                wasst2 = [(ctx2.node(x), int(str(v).split("_")[1])) for x, v in asst2.items()]
                wg2, wnn2, wen2 = wire_named(ctx2, g2, nn2, en2)
                der_cases.append((wt2, 0, (wg2, wasst2, wnn2, wen2), weight_table(ctx2, b, spec), prod2))
                der_meta.append(dict(meta, nothing_kept_alive=True))
            except Exception as ex:
                violations.append(Violation("derive() (nothing kept alive) raised %r on a well-formed derivation" % (ex,), case=meta,
                                            corr="corr:derive", call="FGGDerivation.derive()"))
        if len(samples) < 3 and n >= 3:
            samples.append(dict(meta, n_linearisations=nl, first_order=[list(map(str, p)) for p in lins[-1]]))
    t_trees = _time.time()
    # malformed / single-call stream
    mal = malformed_cases(rng, 150 if tier == "quick" else 2000)
    mal_hist = {}
    mal_obs = {}
    look_cases = look_hits = 0
    for kind, ctx, host, edge, repl, sj, pre in mal:
        try:
            (nm, em, status), case = judged_replace(ctx, host, edge, repl, pre=pre)
        except Exception as ex:
            violations.append(Violation("harness could not run malformed case %s: %r" % (kind, ex), case=sj, corr="harness", failing_input_found=False))
            continue
        if kind == "lookalike_ids":
            look_cases += 1
            if lookalike_hit(host): look_hits += 1
        repl_cases.append((case, dict(kind=kind, spec=sj)))
        mal_hist[kind] = mal_hist.get(kind, 0) + 1
        key = kind + ":" + STATUS_NAME[status]
        mal_obs[key] = mal_obs.get(key, 0) + 1
    # construction / conversion / copy paths
    n_path = 190 if tier == "quick" else 2500
    if os.environ.get("C15_PATHS"): n_path = int(os.environ["C15_PATHS"])      # mutation self-tests only
    build_cases, build_meta, path_ctxs = [], [], []
    path_hist, path_obs, step_hist = {}, {}, {}
    def probes(b, spec, lhs):
        ps = [lhs]
        wrong = [l for l in b.els if l.is_nonterminal and l.type != lhs.type]
        term = [l for l in b.els if l.is_terminal and l.type == lhs.type]
        if wrong: ps.append(rng.choice(wrong))
        if term: ps.append(rng.choice(term))
        return ps
    def observe_all(obs, b, spec, lhs, desc, side):
        for src, dst, mode, step in obs:
            c = Ctx(); path_ctxs.append(c)
            try:
                build_cases.append(observe_build(c, src, dst, mode, probes(b, spec, lhs)))
                build_meta.append(dict(desc, side=side, step=step))
                step_hist[step] = step_hist.get(step, 0) + 1
            except Exception as ex:
                violations.append(Violation("observing a graph built through %s raised %r" % (step, ex), case=dict(desc, side=side, step=step),
                                            corr="corr:build", call="Graph.type / .arity / nodes() / edges() / ext", failing_input_found=False))
    for pc in path_cases(rng, n_path):
        spec, b, desc = pc["spec"], pc["b"], pc["desc"]
        rh, rr = spec["rules"][pc["ri"]], spec["rules"][pc["rj"]]
        lhs_h, lhs_r = b.els[rh["lhs"]], b.els[rr["lhs"]]
        built = []
        for side, base, convs, r, idf, lhs in (("host", pc["hbase"], pc["hconvs"], rh, pc["idf_h"], lhs_h),
                                               ("replacement", pc["base"], pc["convs"], rr, pc["idf_r"], lhs_r)):
            try:
                g_, ns_, es_, obs = build_through(rng, base, convs, b.nls, b.els, r, idf, lhs)
                observe_all(obs, b, spec, lhs, desc, side)
                built.append((g_, ns_, es_))
            except PathRefused as ex:
                # the graph the step refused, with HRGRule probes: build_check says whether the refusal is wrong
                c = Ctx(); path_ctxs.append(c)
                try:
                    build_cases.append(observe_build(c, None, ex.graph, 0, probes(b, spec, lhs)))
                    build_meta.append(dict(desc, side=side, step="graph refused by " + ex.step, refused=repr(ex.exc)))
                except Exception as ex2:
                    violations.append(Violation("conversion step %s raised %r on a well-formed fragment (and observing it raised %r)" % (ex.step, ex.exc, ex2),
                                                case=dict(desc, side=side), corr="corr:build", call=ex.step, failing_input_found=False))
                break
            except Exception as ex:
                violations.append(Violation("building a fragment through %s raised %r" % (path_label(base, convs), ex), case=dict(desc, side=side),
                                            corr="corr:build", call=path_label(base, convs), failing_input_found=False))
                break
        if len(built) < 2: continue
        (host, hn, he), (repl, rn, re_) = built
        ctx = Ctx()
        try:
            (nm, em, status), case = judged_replace(ctx, host, he[pc["k"]], repl)
        except Exception as ex:
            violations.append(Violation("harness could not run path case: %r" % (ex,), case=desc, corr="harness", failing_input_found=False))
            continue
        repl_cases.append((case, dict(desc, kind="path:" + pc["want"])))
        # the replacement as passed is an input: it must be what it was (deep snapshot before / after)
        try:
            build_cases.append((case[3], ctx.graph(repl), 0, ([ctx.nlab(l) for l in repl.type], int(repl.arity)), []))
            build_meta.append(dict(desc, side="replacement", step="replacement before / after replace_edge"))
            path_ctxs.append(ctx)
        except Exception as ex:
            violations.append(Violation("observing the replacement after replace_edge raised %r" % (ex,), case=desc, corr="corr:build", failing_input_found=False))
        key = pc["want"] + ":" + STATUS_NAME[status]
        path_obs[key] = path_obs.get(key, 0) + 1
        for kk in ("repl " + ("".join("." + c for c in pc["convs"]) or "(none)"), "repl base %s(ext %s)" % pc["base"],
                   "host " + ("".join("." + c for c in pc["hconvs"]) or "(none)")):
            path_hist[kk] = path_hist.get(kk, 0) + 1
    t_calls = _time.time()
    # the six verdict functions are independent processes (extracted driver + a kernel re-evaluation each, in
    # separate directories build/cases/<tag>): run them side by side; the results do not depend on the schedule
    from concurrent.futures import ThreadPoolExecutor
    jobs = [(ALIAS, alias_wire, "c15a", 3), (REPL, [c for c, _ in repl_cases], "c15r", 8), (LIN, lin_cases, "c15l", 5),
            (DER, der_cases, "c15d", 5), (START, start_cases, "c15s", 3), (BUILD, build_cases, "c15b", 5)]
    with ThreadPoolExecutor(max_workers=len(jobs)) as pool:
        futs = [pool.submit(run_model, cf, vals, seed=seed, tag=tag, coq_sample=cs) for cf, vals, tag, cs in jobs]
        (acodes, k5), (rcodes, k1), (lcodes, k2), (dcodes, k3), (scodes, k4), (bcodes, k6) = [f.result() for f in futs]
    t_model = _time.time()
    exact = [0, 0]
    for c, m, code in zip(start_cases, start_meta, scodes):
        if code == 0: continue
        violations.append(Violation("start_graph: " + ("not a single start-labelled edge on fresh nodes with exact label tables (oracle start_ok rejects; C15_start_ok_exact)" if code == 1 else "differs from start_graph_model"),
                                    case=m, observed=c[2], oracle="start_ok" if code == 1 else None, failing_input_found=(code == 1),
                                    corr="C15_start_graph / corr:start_graph", call="fggs.start_graph(hrg)"))
    for (c, m), code in zip(repl_cases, rcodes):
        exact[1] += 1
        if code == 0: exact[0] += 1; continue
        if code == 20: notes += 1; continue
        violations.append(Violation(REPL_MSG.get(code, "code %d" % code), case=dict(m, wire=c[:4]), observed=c[4],
                                    oracle="replace_ok" if code in (1, 2, 3) else None, failing_input_found=code in (1, 2, 3),
                                    corr="C15_replace_spec / C15_replace_ok_exact / corr:replace_edge", call="fggs.replace_edge(graph, edge, replacement)"))
    for c, m, code in zip(lin_cases, lin_meta, lcodes):
        if code == 0: continue
        violations.append(Violation(LIN_MSG.get(code, "code %d" % code), case=m, observed=c[3], oracle="same_upto_naming" if code == 1 else None,
                                    failing_input_found=(code == 1), corr="C15_confluence / corr:run", call="fggs.replace_edge in the given order"))
    for c, m, code in zip(der_cases, der_meta, dcodes):
        exact[1] += 1
        if code == 0: exact[0] += 1; continue
        if code == 20: notes += 1; continue
        violations.append(Violation(DER_MSG.get(code, "code %d" % code), case=m, observed=c[2],
                                    oracle={1: "same_upto_naming", 2: "total assignment", 5: "assignment only on nodes", 3: "weight product", 12: "derived assignment"}.get(code),
                                    failing_input_found=code in (1, 2, 3, 5, 12), corr="C15_derive / C15_derive_assignment_exact / corr:derive", call="FGGDerivation.derive()"))
    for c, m, code in zip(build_cases, build_meta, bcodes):
        if code == 0:
            if m.get("refused"):
                violations.append(Violation("a conversion step raised on a well-formed fragment: %s (%s)" % (m["step"], m["refused"]), case=m, observed=c[1],
                                            corr="corr:build", call=m["step"], failing_input_found=False))
            continue
        violations.append(Violation(BUILD_MSG.get(code, "code %d" % code) + " [step: %s]" % m["step"].split(" refused by ")[-1],
                                    case=dict(m, wire=c[:3]), observed=c[3:], oracle=BUILD_ORACLE.get(code), failing_input_found=code in (1, 2, 3),
                                    corr="C15_build_check_exact / C15_replace_only_reads_content / corr:build",
                                    call="Graph / Graph.copy / FactorGraph / FactorGraph.from_graph / FactorGraph.copy / HRGRule.copy / HRG.copy / FGG.from_hrg / FGG.copy / json / deepcopy, then .type, .arity, HRGRule(lhs, graph)"))
    alias_codes = {}
    for c, m, code in zip(alias_wire, alias_meta, acodes):
        alias_codes[code] = alias_codes.get(code, 0) + 1
        if code == 0: continue
        if code == 20: notes += 1; continue
        violations.append(Violation(ALIAS_PREFIX + REPL_MSG.get(code, "code %d" % code), case=dict(m, wire=c[:3]), observed=c[3],
                                    oracle="replace_ok" if code in (1, 2, 3) else None, failing_input_found=code in (1, 2, 3),
                                    corr="C15_replace_self_spec / C15_replace_ok_exact / corr:replace_edge(g, e, g)",
                                    call="fggs.replace_edge(g, e, g)"))
    if notes: print("NOTE C15: %d result(s) equal to the model only up to dict order" % notes)
    shape_hist.update(trees=made, forced_grammar_trees=min(made, n_forced), rule_used_at_several_places=reused,
                      derive_runs_with_nothing_kept_alive=plain_runs, derive_runs_where_a_dead_objects_address_was_reused=addr_reuse_trees,
                      nodes_or_edges_of_final_graphs_with_a_reused_address=addr_reuse_objects,
                      single_calls_with_address_like_explicit_ids=look_cases, of_which_an_explicit_id_spells_a_fresh_id_of_the_result=look_hits)
    print("C15 shapes: " + ", ".join("%s=%s" % kv for kv in sorted(shape_hist.items())))
    cov = dict(evaluations=len(repl_cases) + len(lin_cases) + len(der_cases) + len(start_cases) + len(alias_wire) + len(build_cases),
               distinct_nontrivial=len({s for s in shapes if len(s[1][1]) >= 1}),
               rule="a fixed grammar with every forced shape (first trees) then random HRGs (gen.random_spec, mostly recursive so rules are reused; explicit/implicit/mixed ids; "
                    "node insertion order permuted against .ext, extra isolated internal nodes, edges attached twice to a node) and random derivation trees with 1..7 rule instances "
                    "in which sub-derivation OBJECTS are shared between nonterminal edges, consistent random assignments (one value per glued class), shuffled children-dict order, "
                    "occasionally an unexpanded nonterminal edge; for each tree all linearisations of the replacement "
                    "steps when <= 120, else the depth-first order + random ones up to 120; every replace_edge call is judged by replace_ok, every final graph by same_upto_naming "
                    "against derived_graph; derive() likewise plus assignment (total, nothing else, values) and integer weight product, once with and once without keeping objects alive. "
                    "distinct_nontrivial = distinct (grammar rules, tree shape) pairs with >= 2 rule instances. "
                    "Aliasing stream (first): replace_edge(g, e, g), the recorded failing input of the fixed finding first. Single-call stream: wrong type, absent edge, both, repeated external node, label-name clash, attachment node not in nodes(), edge with a stolen id, valid calls on hosts "
                    "with external nodes, hosts whose explicit ids are the decimal strings of just-freed addresses. "
                    "Path stream: single replace_edge calls whose REPLACEMENT (always) and HOST (every other case) are built through the library's construction / "
                    "conversion / copy paths: Graph or FactorGraph with .ext assigned before / between / after the edges or twice (other nodes first), then a chain of "
                    "Graph.copy / FactorGraph.copy, FactorGraph.from_graph, HRGRule.copy, HRG.copy, FGG.from_hrg, FGG.copy, copy.deepcopy, JSON round trip, .ext "
                    "re-assigned (same value; other value then back) -- 19 chains x 7 bases; right type / wrong type / nullary edge with non-nullary replacement / "
                    "non-nullary edge with nullary replacement. Every call is judged by replace_check (type = labels of the wire's external nodes); every intermediate "
                    "graph is observed (.type, .arity, HRGRule(lhs, g) for a right, a wrong and a terminal lhs, content before/after the step, the replacement "
                    "before/after replace_edge) and judged by build_check (C15_build_check_exact).",
               samples=samples, trees=made, trees_with_reused_rule=reused, trees_all_linearisations=n_exh, trees_sampled_linearisations=n_samp,
               replace_calls=len(repl_cases), linearisations=len(lin_cases), derive_calls=len(der_cases),
               tree_size_histogram=hist_size, linearisations_per_tree_histogram=hist_lin, grammar_features=feats,
               shape_distribution=shape_hist,
               malformed_histogram=mal_hist, malformed_observed=mal_obs, exact_agreement="%d/%d" % tuple(exact),
               alias_calls=len(alias_wire), alias_observed=alias_obs, alias_verdicts={str(k): v for k, v in alias_codes.items()},
               kernel_reevaluated=k1 + k2 + k3 + k4 + k5 + k6,
               path_calls=sum(path_obs.values()), path_observed=path_obs, path_histogram=path_hist, build_observations=len(build_cases),
               build_steps_histogram=step_hist, start_graph_calls=len(start_cases),
               phase_seconds=dict(aliased_calls_and_trees_with_implementation=round(t_trees - t_start, 1), single_calls=round(t_calls - t_trees, 1),
                                  model_and_oracles=round(t_model - t_calls, 1)),
               open_items=OPEN_ITEMS)
    return cov, violations

OPEN_ITEMS = []

def replay(path):
    import json
    r = json.load(open(path))
    tier, seed = r.get("tier", "quick"), int(r.get("seed", 0))
    # all randomness comes from Random(seed) and ids are canonically renumbered, so the run that
    # produced the replay file is reproduced exactly; the violation reproduces iff the same
    # verdict on the same grammar/tree/order appears again
    cov, vs = run(tier, seed)
    key = lambda c: json.dumps({k: c.get(k) for k in ("spec", "tree", "kind") if isinstance(c, dict)}, sort_keys=True, default=str)
    want = key(r.get("case") or {})
    from harness import core as _core
    same = [v for v in vs if v.what == r.get("what") and key(_core._jsonable(v.case) if v.case else {}) == want]
    print("replay of %s (tier %s, seed %d): %s" % (os.path.basename(path), tier, seed, r.get("what")))
    print("  call: %s" % r.get("call"))
    print("  expected (Coq model / oracle %s): verdict 0" % r.get("oracle"))
    print("  observed now: %s" % ("the same violation reproduces (%d matching case(s))" % len(same) if same else "no such violation"))
    return 1 if same else 0

MANIFEST = dict(
    level="proof",
    text="Coq theorems about a Gallina model that follows fggs.replace_edge / start_graph / FGGDerivation.derive statement by statement (both label tables included): replacement specification and well-formedness preservation (C15_replace_spec), the executable oracles are EXACT deciders of the specifications (C15_replace_ok_exact, C15_same_upto_naming_exact, C15_start_ok_exact), confluence over every linearisation by an invariant (C15_confluence), derive() = the derived graph with an assignment defined exactly on its nodes that is the denotational one, a function of the node name (C15_derive_assignment_exact, C15_derived_asst_nodup), and the weight product in any commutative semiring (C15_derive); node-label table tight along every run (C15_run_node_labels); the aliased call replace_edge(g, e, g) meets the same specification since /repo 0be4bef (C15_replace_self_spec; the old behaviour is kept as replace_edge_alias_model_old with C15_replace_alias_old_never_spec / _refuted, and its failing input is a regression case run first). Replacement and host graphs are also built through every construction / conversion / copy path of the library (Graph.copy, FactorGraph.from_graph, FactorGraph.copy, rule and grammar copies, FGG.from_hrg, JSON, deepcopy, .ext assigned in any order or twice): the model reads a replacement only through nodes(), edges(), ext (C15_replace_only_reads_content, C15_replace_same_content), a wrong type -- the labels of the external nodes -- is rejected whatever the replacement (C15_replace_wrong_type_rejected), and the observation oracle for .type / .arity / HRGRule(lhs, g) is exact (C15_build_check_exact, C15_build_check_type_rejects, C15_rules_obs_ok_exact). The model is tied to /repo by running every linearisation (<= 120 per tree) with the implementation and judging each call and each final graph with the extracted verified oracles.",
    note="Trusted: Coq kernel + vm_compute, extraction cross-checked against vm_compute, the Python harness that numbers ids/labels and names nodes through the maps replace_edge returns.",
    technique="Coq proof (model + theorems) + model/implementation correspondence with verified-spec oracles (sound and complete)",
    design_ref="DESIGN.md section 6, C15")
