"""C05 -- factorisation preserves the grammar's meaning and never widens a rule
(fggs/factorize.py: factorize_rule / factorize_hrg / factorize_fgg)."""
import random, json, warnings, copy
from fractions import Fraction
from harness.core import *
from harness import gen

PID = "C05"
LEVEL = "proof"

ElabelT = Tup(List(Nat), List(Nat), Bool)
FedgeT = Tup(Nat, ElabelT, List(Nat))
FruleT = Tup(ElabelT, List(Tup(Nat, Nat)), List(FedgeT), List(Nat))
FhrgT = Tup(List(Nat), List(ElabelT), ElabelT, List(Tup(ElabelT, List(FruleT))))
GraphT = List(Tup(Nat, List(Nat)))
FtdT = List(Tup(List(Nat), List(Nat)))
OrdsT = List(List(Nat))
RuleCaseT = Tup(FruleT, List(ElabelT), GraphT, FtdT, OrdsT, Tup(Nat, List(FruleT), List(ElabelT)))
GramCaseT = Tup(Bool, Nat, List(Nat), FhrgT, List(Tup(FtdT, OrdsT)), List(List(FruleT)), Tup(Nat, Nat, FhrgT),
                Tup(List(Tup(Nat, Nat)), List(Tup(List(Nat), Nat)), List(Tup(Nat, Nat)), List(Tup(List(Nat), Nat))))
SpCaseT = Tup(List(Nat), FhrgT, FhrgT, List(Tup(List(Nat), List(Option(QQ)))))
CloseT = Tup(List(Option(QQ)), List(Option(QQ)))

RULE = CheckFn("c05rule", "Model.FactorizeCheck", "fz_rule_check", RuleCaseT)
RULEX = CheckFn("c05rulex", "Model.FactorizeCheck", "fz_rule_exact", RuleCaseT)
GRAM = CheckFn("c05gram", "Model.FactorizeCheck", "fz_gram_check", GramCaseT)
GRAMX = CheckFn("c05gramx", "Model.FactorizeCheck", "fz_gram_exact", GramCaseT)
SP = CheckFn("c05sp", "Model.FactorizeCheck", "fz_sp_check", SpCaseT)
CLOSE = CheckFn("c05close", "Model.FactorizeCheck", "fz_close_check", CloseT)
CHECKFNS = [RULE, RULEX, GRAM, GRAMX, SP, CLOSE]

ASSUMPTIONS = [
    "the tree decomposition is not recomputed by the model: the one fggs.factorize.tree_decomposition actually returned is recorded (harness-side wrapper, nothing in /repo is patched) together with the observed iteration orders of every bag, of every t[bag] and of every list(bag & parent); the theorems hold for EVERY valid decomposition and EVERY order, validity of what the three methods return is property C10",
    "Node / Edge objects are canonicalised to integers (node = index in rhs.nodes() order, original edge = 1 + index, edges created by visit = 0); EdgeLabel = (name code points, node label indices, is_terminal); factor / domain objects are compared by identity (numbered by the harness)",
    "sum-product before/after: (a) exactly, in Coq, through Ztab of Model/SumProduct.v on the translations of both grammars (non-recursive inputs, Real semiring over exact rationals, iterate number = #nonterminals); (b) fggs.sum_product (RealSemiring float64) on both grammars, compared inside Coq within 1e-9 relative; recursive inputs are checked structurally only (the two fixed-point iterations stop at different approximations)",
    "fresh_ok's 'existing labels' for a direct factorize_rule call = the labels argument, the rule's lhs and every edge label of the rule",
]
METHODS = ["min_fill", "quickbb", "acb"]
# F7, F20, F22 were found by this check and are repaired in /repo (207a206, 833be06 + 450bcaa, 211579c); the
# known_findings.json entries are 'fixed' and suppress nothing: a regression is a VIOLATION again

# ----------------------------------------------------------------------------
# generators

def shaped_spec(rng, recursive=False):
    """a two/three-nonterminal grammar whose rules have the shapes the property lists"""
    feats = set()
    n_nl = rng.choice([1, 1, 2])
    nlabels = [rng.choice([1, 2, 2, 3]) for _ in range(n_nl)]
    ar_a = rng.choice([0, 1, 2, 2, 3])
    elabels = [dict(term=False, type=[rng.randrange(n_nl) for _ in range(rng.choice([0, 0, 0, 1, 2]))]),
               dict(term=False, type=[rng.randrange(n_nl) for _ in range(ar_a)])]
    if elabels[0]["type"]: feats.add("start_arity>0")
    terms = []
    for ar in [0, 1, 2, 2, 3]:
        elabels.append(dict(term=True, type=[rng.randrange(n_nl) for _ in range(ar)]))
        terms.append(len(elabels) - 1)
    def make_rule(lhs, allow_nt):
        lt = elabels[lhs]["type"]
        n = rng.randint(max(1, len(lt)), 7) if rng.random() < 0.9 else len(lt)
        nodes = [rng.randrange(n_nl) for _ in range(n)]
        # externals anywhere (random positions with the right labels, all distinct)
        pos = list(range(n)); rng.shuffle(pos)
        ext = []
        for nl in lt:
            c = [p for p in pos if p not in ext]
            if not c: nodes.append(nl); c = [len(nodes) - 1]
            p = c[0]; nodes[p] = nl; ext.append(p)
        n = len(nodes)
        shape = rng.choice(["path", "cycle", "star", "random", "two_paths", "clique", "empty"])
        pairs = []
        vs = list(range(n)); rng.shuffle(vs)
        if shape == "path": pairs = list(zip(vs, vs[1:]))
        elif shape == "cycle" and n >= 3: pairs = list(zip(vs, vs[1:] + vs[:1]))
        elif shape == "star": pairs = [(vs[0], v) for v in vs[1:]]
        elif shape == "random": pairs = [(a, b) for a in range(n) for b in range(a + 1, n) if rng.random() < 0.35]
        elif shape == "two_paths":
            k = n // 2; pairs = list(zip(vs[:k], vs[1:k])) + list(zip(vs[k:], vs[k + 1:])); feats.add("several_components")
        elif shape == "clique" and n <= 4: pairs = [(a, b) for a in range(n) for b in range(a + 1, n)]
        if rng.random() < 0.3 and pairs:
            pairs = [p for p in pairs if rng.random() < 0.7]        # drop some: more components / isolated nodes
        edges = []
        def lab_for(att_labels, want_nt=False):
            c = [i for i, e in enumerate(elabels) if e["type"] == att_labels and (e["term"] or (want_nt and i == 1 and allow_nt))]
            return rng.choice(c) if c else None
        for a, b in pairs:
            if rng.random() < 0.5: a, b = b, a
            l = lab_for([nodes[a], nodes[b]], want_nt=rng.random() < 0.3)
            if l is None:
                # no binary label of that type: add one
                elabels.append(dict(term=True, type=[nodes[a], nodes[b]])); terms.append(len(elabels) - 1); l = len(elabels) - 1
            edges.append((l, [a, b]))
        for _ in range(rng.choice([0, 0, 1, 2])):                   # unary edges
            v = rng.randrange(n) if n else None
            if v is None: break
            l = lab_for([nodes[v]], want_nt=rng.random() < 0.3)
            if l is not None: edges.append((l, [v]))
        if rng.random() < 0.3:                                       # nullary edge(s)
            l = lab_for([], want_nt=False)
            if l is not None:
                edges.append((l, [])); feats.add("nullary_factor")
        if rng.random() < 0.3 and n:                                 # repeated attachment
            v = rng.randrange(n)
            l = lab_for([nodes[v], nodes[v]])
            if l is not None:
                edges.append((l, [v, v])); feats.add("repeated_attachment")
        if rng.random() < 0.4 and n >= 3:                            # a ternary edge
            a = rng.sample(range(n), 3)
            l = lab_for([nodes[i] for i in a], want_nt=rng.random() < 0.3)
            if l is not None: edges.append((l, a))
        if allow_nt and not elabels[1]["type"] and rng.random() < 0.3:
            edges.append((1, []))                                    # nullary nonterminal edge
        rng.shuffle(edges)
        used = {i for _, att in edges for i in att}
        for i in range(n):
            if i not in used: feats.add("isolated_ext" if i in ext else "isolated_int")
        if ext and ext != sorted(ext) or (ext and ext[0] != 0): feats.add("ext_anywhere")
        return dict(lhs=lhs, nodes=nodes, edges=edges, ext=ext)
    rules = [make_rule(0, True) for _ in range(rng.choice([1, 1, 2]))]
    rules += [make_rule(1, recursive) for _ in range(rng.choice([1, 2]))]
    if recursive and not any(not any(not elabels[l]["term"] for l, _ in r["edges"]) for r in rules if r["lhs"] == 1):
        rules.append(dict(lhs=1, nodes=list(elabels[1]["type"]), edges=[], ext=list(range(len(elabels[1]["type"])))))
    weights = {}
    grid = gen.REAL_GRID[:-1]; gp = gen.REAL_GRID_P[:-1]
    for el in terms:
        shape = [nlabels[nl] for nl in elabels[el]["type"]]
        weights[el] = gen.nested(shape, lambda: rng.choices(grid, gp)[0])
    feats.add("shaped")
    return dict(nlabels=nlabels, elabels=elabels, start=0, rules=rules, weights=weights,
                features=sorted(feats), recursive=recursive)

def late_label_spec(rng):
    """S -> rule1 (terminal edges only, several bags) | rule2 (uses A); A -> terminal rules.  Some label that occurs
    neither in rule1 nor before it is NAMED like a fresh nonterminal of rule1 (X0_1, X0_2): the nonterminal A itself (of
    the type of a piece of rule1, or of another type), a terminal used only in later rules, an unused terminal.
    Returns (spec, names)."""
    feats = {"label_named_like_fresh_elsewhere"}
    dom = rng.choice([2, 2, 3])
    variant = rng.choice(["nt_same", "nt_same", "nt_diff", "term_late", "term_unused", "nt_same+term_unused"])
    ar_a = 1 if "nt_same" in variant else (rng.choice([0, 2]) if variant == "nt_diff" else rng.choice([1, 2]))
    S, A, T_UN, T_BIN, T_LATE, T_UNUSED = 0, 1, 2, 3, 4, 5
    elabels = [dict(term=False, type=[]), dict(term=False, type=[0] * ar_a), dict(term=True, type=[0]),
               dict(term=True, type=[0, 0]), dict(term=True, type=[0, 0]), dict(term=True, type=[0])]
    n = rng.randint(4, 6)
    vs = list(range(n)); rng.shuffle(vs)
    shape = rng.choice(["path", "path", "cycle", "star"])
    pairs = list(zip(vs, vs[1:])) if shape != "star" else [(vs[0], v) for v in vs[1:]]
    if shape == "cycle": pairs.append((vs[-1], vs[0]))
    e1 = [(T_BIN, [a, b] if rng.random() < 0.5 else [b, a]) for a, b in pairs]
    for _ in range(rng.choice([0, 1, 2])): e1.append((T_UN, [rng.randrange(n)]))
    rng.shuffle(e1)
    rule1 = dict(lhs=S, nodes=[0] * n, edges=e1, ext=[])
    m = max(2, ar_a)
    e2 = [(A, list(range(ar_a))), (T_LATE, [0, 1])]
    if rng.random() < 0.5: e2.append((T_UN, [rng.randrange(m)]))
    rule2 = dict(lhs=S, nodes=[0] * m, edges=e2, ext=[])
    arules = []
    for _ in range(rng.choice([1, 2])):
        k = ar_a + rng.choice([0, 1, 2]); k = max(k, 1)
        es = []
        for v in range(k):
            if rng.random() < 0.7: es.append((T_UN, [v]))
        for v in range(k - 1):
            es.append((rng.choice([T_BIN, T_LATE]), [v, v + 1]))
        ext = list(range(k)); rng.shuffle(ext); ext = ext[:ar_a]
        arules.append(dict(lhs=A, nodes=[0] * k, edges=es, ext=ext))
    rules = [rule1, rule2] + arules
    weights = {}
    grid = gen.REAL_GRID[:-1]; gp = gen.REAL_GRID_P[:-1]
    for el in (T_UN, T_BIN, T_LATE, T_UNUSED):
        shape_ = [dom] * len(elabels[el]["type"])
        weights[el] = gen.nested(shape_, lambda: rng.choices(grid, gp)[0])
    spec = dict(nlabels=[dom], elabels=elabels, start=0, rules=rules, weights=weights, features=[], recursive=False)
    lhs_name = gen.el_name(spec, S)
    names = {}
    if "nt_same" in variant or variant == "nt_diff": names[("el", A)] = "%s_%d" % (lhs_name, rng.choice([1, 1, 2]))
    if variant == "term_late": names[("el", T_LATE)] = "%s_%d" % (lhs_name, rng.choice([1, 2]))
    if "term_unused" in variant: names[("el", T_UNUSED)] = "%s_%d" % (lhs_name, 2 if ("el", A) in names and names[("el", A)].endswith("_1") else 1)
    feats.add("late_" + variant)
    spec["features"] = sorted(feats)
    return spec, names

def dup_rule_spec(rng):
    """a grammar in which a production occurs TWICE -- as two equal-by-value rules (explicit node / edge ids: HRGRule
    equality is by ids and content) or as the same HRGRule object registered twice (spec['dup_objects']) -- and is small
    enough to stay in one bag (not split); other rules of the grammar are split.  The sum-product counts it twice."""
    dom = rng.choice([2, 2, 3])
    S, A, T_UN, T_BIN, T_TERN, T_NULL = 0, 1, 2, 3, 4, 5
    elabels = [dict(term=False, type=[]), dict(term=False, type=[0]), dict(term=True, type=[0]),
               dict(term=True, type=[0, 0]), dict(term=True, type=[0, 0, 0]), dict(term=True, type=[])]
    def small(lhs):
        ar = len(elabels[lhs]["type"])
        kind = rng.choice(["one", "two", "three", "nullary"] if ar == 0 else ["one", "two", "three"])
        if kind == "one": nodes, es = [0], [(T_UN, [0])] * rng.choice([1, 2])
        elif kind == "two": nodes, es = [0, 0], [(T_BIN, [0, 1])] + ([(T_UN, [rng.randrange(2)])] if rng.random() < 0.5 else [])
        elif kind == "three": nodes, es = [0, 0, 0], [(T_TERN, [0, 1, 2])] + ([(T_BIN, [2, 0])] if rng.random() < 0.5 else [])
        else: nodes, es = [], [(T_NULL, [])]
        if lhs == S and nodes and rng.random() < 0.5: es = es + [(A, [rng.randrange(len(nodes))])]
        ext = [rng.randrange(len(nodes))] if ar else []
        return dict(lhs=lhs, nodes=list(nodes), edges=list(es), ext=ext)
    def path(lhs):
        n = rng.randint(4, 5); vs = list(range(n)); rng.shuffle(vs)
        es = [(T_BIN, [a, b]) for a, b in zip(vs, vs[1:])]
        if lhs == S and rng.random() < 0.6: es.append((A, [rng.randrange(n)]))
        ar = len(elabels[lhs]["type"])
        return dict(lhs=lhs, nodes=[0] * n, edges=es, ext=[rng.randrange(n)] if ar else [])
    mode = rng.choice(["value", "object"])
    which = rng.choice(["S", "A", "both"])
    s_rules = [small(S)]; a_rules = [small(A)]
    if rng.random() < 0.7: s_rules.insert(rng.randrange(2), path(S))
    if rng.random() < 0.4: a_rules.insert(rng.randrange(2), path(A))
    if not any(l == A for r in s_rules for l, _ in r["edges"]): s_rules[0]["edges"].append((A, [0])) if s_rules[0]["nodes"] else s_rules.append(dict(lhs=S, nodes=[0], edges=[(A, [0])], ext=[]))
    rules = s_rules + a_rules
    dup_objects = []
    targets = [r for r in rules if len(r["nodes"]) <= 3 and ((which in ("S", "both") and r["lhs"] == S) or (which in ("A", "both") and r["lhs"] == A))]
    for r in targets:
        if mode == "value":
            pos = max(i for i, x in enumerate(rules) if x["lhs"] == r["lhs"]) + 1
            rules.insert(rng.choice([rules.index(r) + 1, pos]), dict(lhs=r["lhs"], nodes=list(r["nodes"]), edges=list(r["edges"]), ext=list(r["ext"])))
    if mode == "object":
        dup_objects = [i for i, r in enumerate(rules) if any(r is x for x in targets)]
    weights = {}
    grid = [Fraction(1, 2), Fraction(1), Fraction(2), Fraction(3), Fraction(1, 4)]
    for el in (T_UN, T_BIN, T_TERN, T_NULL):
        weights[el] = gen.nested([dom] * len(elabels[el]["type"]), lambda: rng.choice(grid))
    return dict(nlabels=[dom], elabels=elabels, start=0, rules=rules, weights=weights, recursive=False, dup_objects=dup_objects,
                features=sorted({"duplicated_production", "dup_" + mode, "dup_" + which}))

def is_recursive(spec):
    el = spec["elabels"]
    succ = {}
    for r in spec["rules"]:
        for l, _ in r["edges"]:
            if not el[l]["term"]: succ.setdefault(r["lhs"], set()).add(l)
    def reach(x, seen):
        for y in succ.get(x, ()):
            if y not in seen:
                seen.add(y); reach(y, seen)
        return seen
    return any(x in reach(x, set()) for x in succ)

def collide_names(spec, rng):
    """rename a terminal so that it has the name the first fresh nonterminal of some rule would get"""
    terms = [i for i, e in enumerate(spec["elabels"]) if e["term"]]
    used = sorted({l for r in spec["rules"] for l, _ in r["edges"] if spec["elabels"][l]["term"]})
    if not used: return {}
    t = rng.choice(used)
    lhs = rng.choice([r["lhs"] for r in spec["rules"] if any(l == t for l, _ in r["edges"])])
    return {("el", t): "%s_%d" % (gen.el_name(spec, lhs), rng.choice([1, 1, 2]))}

# ----------------------------------------------------------------------------
# canonicalisation of fggs objects

class Canon:
    def __init__(self, b):
        self.nl = {l.name: i for i, l in enumerate(b.nls)}
    def elabel(self, l):
        return ([ord(c) for c in l.name], [self.nl[x.name] for x in l.node_labels], bool(l.is_terminal))
    def rule_maps(self, rule):
        nid = {n.id: i for i, n in enumerate(rule.rhs.nodes())}
        eid = {e.id: i + 1 for i, e in enumerate(rule.rhs.edges())}
        return nid, eid
    def rule(self, rule, nid, eid):
        rhs = rule.rhs
        return (self.elabel(rule.lhs),
                [(nid.get(n.id, 900 + k), self.nl[n.label.name]) for k, n in enumerate(rhs.nodes())],
                [(eid.get(e.id, 0), self.elabel(e.label), [nid.get(n.id, 900) for n in e.nodes]) for e in rhs.edges()],
                [nid.get(n.id, 900) for n in rhs.ext])
    def hrg(self, h, maps):
        """maps: function rule -> (nid, eid) (by the original rule the new rule came from)"""
        groups = []
        for r in h.all_rules():
            w = self.rule(r, *maps(r))
            l = self.elabel(r.lhs)
            if groups and groups[-1][0] == l: groups[-1][1].append(w)
            else: groups.append((l, [w]))
        return ([self.nl[x.name] for x in h.node_labels()], [self.elabel(l) for l in h.edge_labels()],
                self.elabel(h.start), groups)

def graph_wire(g, nid):
    return [(nid[v.id], sorted(nid[w.id] for w in g[v])) for v in g]

def td_wire(t, nid):
    bags = list(t)
    idx = {b: i for i, b in enumerate(bags)}
    return [([nid.get(v.id, 900) for v in b], [idx.get(n, 900) for n in t[b]]) for b in bags]

# ----------------------------------------------------------------------------
# running the implementation with a recorder

class Recorder:
    """wraps fggs.factorize.tree_decomposition and factorize_rule inside this process"""
    def __init__(self):
        self.calls = []           # one dict per factorize_rule call
        self.cur = None
    def __enter__(self):
        from fggs import factorize as F
        self.F = F
        self.o_td, self.o_fr = F.tree_decomposition, F.factorize_rule
        rec = self
        def td(graph, method='min_fill'):
            gcopy = {u: set(graph[u]) for u in graph}
            t = rec.o_td(graph, method=method)
            if rec.cur is not None:
                rec.cur["tds"].append(dict(graph=gcopy, method=method, t=t))
            return t
        def fr(rule, method='min_fill', labels=None):
            c = dict(rule=rule, method=method, labels_before=None if labels is None else set(labels), tds=[], out=None, exc=None)
            rec.calls.append(c)
            prev, rec.cur = rec.cur, c
            try:
                own = labels if labels is not None else set()
                out = rec.o_fr(rule, method=method, labels=own)
                c["out"] = out; c["labels_after"] = set(own)
                return out
            except Exception as e:
                c["exc"] = e
                raise
            finally:
                rec.cur = prev
        F.tree_decomposition, F.factorize_rule = td, fr
        return self
    def __exit__(self, *a):
        self.F.tree_decomposition, self.F.factorize_rule = self.o_td, self.o_fr

def exc_code(e):
    return 1 if isinstance(e, ValueError) else 2

def rule_case(cn, call):
    """wire value of one recorded factorize_rule call, or None if nothing usable was recorded"""
    rule = call["rule"]
    nid, eid = cn.rule_maps(rule)
    rw = cn.rule(rule, nid, eid)
    lb = [cn.elabel(l) for l in sorted(call["labels_before"] or (), key=lambda l: (l.name, l.is_terminal))]
    if not call["tds"]:
        return None
    td = call["tds"][0]
    gw = graph_wire(td["graph"], nid)
    tw = td_wire(td["t"], nid)
    bagsets = [frozenset(b) for b, _ in tw]
    ords = default_ords(tw, set(rw[3]))
    if call["exc"] is not None:
        out = (exc_code(call["exc"]), [], [])
    else:
        ow = [cn.rule(r, nid, eid) for r in call["out"]]
        for r in ow[:-1]:
            s = frozenset(v for v, _ in r[1])
            if s in bagsets: ords[bagsets.index(s)] = list(r[3])
        la = [cn.elabel(l) for l in sorted(call["labels_after"], key=lambda l: (l.name, l.is_terminal))]
        out = (0, ow, la)
    return (rw, lb, gw, tw, ords, out), (nid, eid)

def default_ords(tw, ext):
    """an order of bag & parent for every non-root bag (bag order restricted to the parent), used for
    the bags whose ext order cannot be observed (the implementation raised)"""
    ords = [[] for _ in tw]
    root = next((i for i, (b, _) in enumerate(tw) if ext <= set(b)), None)
    if root is None: return ords
    seen = {root}; todo = [root]
    while todo:
        i = todo.pop()
        for j in tw[i][1]:
            if j not in seen and j < len(tw):
                seen.add(j); todo.append(j)
                ords[j] = [v for v in tw[j][0] if v in set(tw[i][0])]
    return ords

def snapshot(cn, h, b):
    """everything observable of a grammar (for the purity test)"""
    maps = {id(r): cn.rule_maps(r) for r in h.all_rules()}
    s = [cn.hrg(h, lambda r: maps[id(r)])]
    if hasattr(h, "factors"):
        s.append(sorted((k, id(v), tuple(v.weights.reshape(-1).tolist()) if hasattr(v, "weights") else None) for k, v in h.factors.items()))
        s.append(sorted((k, id(v), v.size()) for k, v in h.domains.items()))
    return s

def to_q(x):
    x = float(x)
    if x != x: raise ValueError("nan in sum_product")
    if x in (float("inf"), float("-inf")): return None
    return Fraction(x)

def run_case(spec, names, ids, method, entry, labels_mode, rng, out, violations, stats, do_sp):
    import fggs, torch
    from fggs import factorize as F
    m = METHODS.index(method)
    meta = dict(spec=gen.spec_jsonable(spec), names={"%s:%d" % k: v for k, v in names.items()}, ids=ids, method=method, entry=entry, labels_mode=labels_mode)
    wconv = lambda v: float(v)
    if entry == "fgg":
        b = gen.build_fgg(spec, wconv, ids=ids, rng=rng, names=names, dtype=torch.float64)
        g = b.fgg
    else:
        b = gen.build_hrg(spec, ids=ids, rng=rng, names=names)
        g = b.hrg
    for ri in spec.get("dup_objects", []):      # the same HRGRule object registered twice
        g.add_rule(b.rules[ri][0])
    cn = Canon(b)
    before = snapshot(cn, g, b)
    calls_txt = {"rule": "fggs.factorize_rule(rule, method=%r, labels=%s)" % (method, labels_mode),
                 "hrg": "fggs.factorize_hrg(hrg, method=%r)" % method, "fgg": "fggs.factorize_fgg(fgg, method=%r)" % method}[entry]
    with Recorder() as rec:
        if entry == "rule":
            for (rule, _, _) in b.rules:
                labels = None if labels_mode == "None" else (set() if labels_mode == "empty" else set(g.edge_labels()))
                try:
                    rec.F.factorize_rule(rule, method=method, labels=labels)
                except Exception as e:
                    pass
            gnew = None; gexc = None
        else:
            gexc = None; gnew = None
            try:
                gnew = (fggs.factorize_hrg if entry == "hrg" else fggs.factorize_fgg)(g, method=method)
            except Exception as e:
                gexc = e
    after = snapshot(cn, g, b)
    if before != after:
        violations.append(Violation("the input grammar was mutated by %s" % entry, case=meta, observed=after, expected=before,
                                    oracle="snapshot of rules, label tables, factors and domains before = after", corr="C05 purity", call=calls_txt))
    # per-call checks
    maps = {}
    orc = []; outsw = []
    for call in rec.calls:
        rc = rule_case(cn, call)
        if rc is None:
            violations.append(Violation("factorize_rule raised before calling tree_decomposition: %r" % (call["exc"],), case=meta, call=calls_txt, corr="corr:factorize_rule"))
            continue
        val, (nid, eid) = rc
        out["rule"].append((val, meta, call, calls_txt))
        orc.append((val[3], val[4]))
        outsw.append(val[5][1])
        if call["out"] is not None:
            for r in call["out"]: maps[id(r)] = (nid, eid)
            stats["newrules"][len(call["out"])] = stats["newrules"].get(len(call["out"]), 0) + 1
            if len(call["out"]) >= 2:
                stats["distinct"].add(json.dumps([val[0], method], sort_keys=True, default=str))
    if entry == "rule":
        return
    used = [METHODS.index(td["method"]) if td["method"] in METHODS else 99 for c in rec.calls for td in c["tds"]]
    gmaps = {id(r): cn.rule_maps(r) for r in g.all_rules()}
    gw = cn.hrg(g, lambda r: gmaps[id(r)])
    empty = ([], [], gw[2], [])
    if gexc is not None:
        impl = (exc_code(gexc), 0, empty)
    else:
        try:
            impl = (0, 0, cn.hrg(gnew, lambda r: maps.get(id(r)) or cn.rule_maps(r)))
        except Exception as e:
            violations.append(Violation("cannot canonicalise the new grammar: %r" % (e,), case=meta, call=calls_txt, corr="harness"))
            return
    if entry == "fgg":
        fid = {}
        def facs(x): return [([ord(c) for c in k], fid.setdefault(id(v), len(fid))) for k, v in x.factors.items()]
        def doms(x): return [(cn.nl[k], fid.setdefault(id(v), len(fid))) for k, v in x.domains.items()]
        tables = (doms(g), facs(g), doms(gnew) if gnew is not None else [], facs(gnew) if gnew is not None else [])
    else:
        tables = ([], [], [], [])
    out["gram"].append(((entry == "fgg", m, used, gw, orc, outsw, impl, tables), meta, calls_txt, spec, gexc))
    # sum-product before / after
    if entry == "fgg" and gnew is not None and do_sp and not spec["recursive"]:
        ws = [([ord(c) for c in b.els[el].name], [Fraction(v) for v in gen.flat(w)]) for el, w in sorted(spec["weights"].items())]
        sizes = max([1] + [_prod(spec["nlabels"][nl] for nl in r["nodes"]) for r in spec["rules"]])
        if sizes <= 300:
            out["sp"].append(((list(spec["nlabels"]), gw, impl[2], ws), meta, calls_txt))
        try:
            with warnings.catch_warnings():
                warnings.simplefilter("ignore")
                z0 = fggs.sum_product(g, method="fixed-point", semiring=fggs.RealSemiring(dtype=torch.float64))
                z1 = fggs.sum_product(gnew, method="fixed-point", semiring=fggs.RealSemiring(dtype=torch.float64))
            a = [to_q(x) for x in _dense(z0)]; c = [to_q(x) for x in _dense(z1)]
            out["close"].append(((a, c), meta, calls_txt))
        except Exception as e:
            violations.append(Violation("sum_product of the factorised FGG raised %r" % (e,), case=meta, call=calls_txt,
                                        corr="C05_sum_product / fggs.sum_product before and after"))

def _prod(xs):
    p = 1
    for x in xs: p *= x
    return p

def _dense(t):
    d = t.to_dense() if hasattr(t, "to_dense") else t
    return d.reshape(-1).tolist()

# ----------------------------------------------------------------------------

RULE_MSG = {
    1: ("inlining the fresh nonterminals does not reproduce the original rule (a node or edge is lost, duplicated or re-attached)", "inline_ok", "C05_inline"),
    2: ("a fresh nonterminal collides with an existing label, or does not have exactly one rule and one use", "fresh_ok", "C05_fresh"),
    3: ("a new rule has more nodes than the original, or its node set is not a bag of the decomposition", "nodes_ok", "C05_edges_once (nodes)"),
    4: ("factorize_rule raised an exception", "no exception expected", "corr:factorize_rule"),
    5: ("factorize_rule raised ValueError: a fresh nonterminal got the name of an edge label of the rule", "C05_fresh", "C05_fresh / C05_fresh_old_refuted (F22)"),
    13: ("the graph handed to tree_decomposition is not the primal graph of the rule", None, "corr:primal"),
}
GRAM_MSG = {
    1: ("the new grammar's rules are not the rules returned by factorize_rule, or two fresh names of the grammar coincide / collide with a label of the grammar", "glue_ok", "C05_fresh (grammar level)"),
    4: ("raised an exception", "no exception expected", "corr:factorize_hrg"),
    6: ("the start symbol changed", "start symbol", "C05 start"),
    7: ("the method argument is not honoured: tree_decomposition was called with another method", "method honoured", "C05_method_honoured"),
    8: ("a factor / domain of the factorised FGG is bound to a label that is missing from its label tables", "labels preserved", "C05_labels_preserved"),
    9: ("the factors / domains of the factorised FGG are not those of the input", "factors carried over", "C05 factors"),
}

def run(tier, seed):
    rng = random.Random(seed)
    n_specs = 80 if tier == "quick" else 3500
    violations = []
    out = dict(rule=[], gram=[], sp=[], close=[])
    stats = dict(newrules={}, distinct=set())
    feats = {}
    n_sp_budget = 150 if tier == "quick" else 2500
    for i in range(n_specs):
        k = i % 10
        late_names = None
        is_dup = k in (8, 9)
        if is_dup:
            spec = dup_rule_spec(rng)
        elif k in (6, 7):
            spec, late_names = late_label_spec(rng)
        elif k in (0, 1, 2):
            spec = shaped_spec(rng, recursive=(k == 2 and rng.random() < 0.5))
        elif k in (3, 4):
            spec = gen.random_spec(rng, recursive=False, max_nodes=6, max_edges=6, allow_inf=False)
        else:
            spec = gen.random_spec(rng, recursive=True, max_nodes=5, max_edges=5, allow_inf=False)
        spec["recursive"] = is_recursive(spec)
        if late_names is not None:
            names = late_names
        else:
            names = collide_names(spec, rng) if i % 5 == 4 else {}
            if names: spec["features"] = sorted(set(spec["features"]) | {"terminal_named_like_fresh"})
        for f in spec["features"]: feats[f] = feats.get(f, 0) + 1
        ids = ["explicit", "implicit", "mixed"][i % 3]
        if is_dup and not spec["dup_objects"]: ids = "explicit"      # equal-by-value copies need explicit ids
        for mi, method in enumerate(METHODS):
            for entry in ("rule", "hrg", "fgg"):
                labels_mode = ["None", "empty", "all"][(i + mi) % 3]
                do_sp = len(out["sp"]) < n_sp_budget or late_names is not None or is_dup   # always compare the sum-products of these streams
                try:
                    run_case(spec, names, ids, method, entry, labels_mode, rng, out, violations, stats, do_sp)
                except Exception as e:
                    import traceback
                    violations.append(Violation("harness could not run the case: %r" % (e,), case=dict(spec=gen.spec_jsonable(spec), method=method, entry=entry),
                                                observed=traceback.format_exc()[-1500:], corr="harness", failing_input_found=False))
    total = 0; nk = 0
    cs = 8 if tier == "quick" else 40
    # rules
    vals = [v for v, _, _, _ in out["rule"]]
    codes, n1 = run_model(RULE, vals, seed=seed, coq_sample=cs, tag="c05rule"); nk += n1; total += len(vals)
    xcodes = run_ocaml(RULEX, [v for v in vals if v[5][0] == 0])
    n_exact = sum(1 for c in xcodes if c == 0)
    for (v, meta, call, txt), c in zip(out["rule"], codes):
        if c == 0: continue
        case = dict(meta, rule=v[0], labels=v[1], decomposition=v[3], ext_orders=v[4])
        obs = dict(outcome=v[5][0], new_rules=v[5][1], exception=repr(call["exc"]) if call["exc"] is not None else None)
        if c in RULE_MSG:
            what, orc, corr = RULE_MSG[c]
            violations.append(Violation("factorize_rule: " + what, case=case, observed=obs, oracle=orc, corr=corr, call=txt))
        else:
            violations.append(Violation("factorize_rule: output differs from the model (verdict %d) although the oracles accept it" % c, case=case, observed=obs,
                                        corr="corr:factorize_rule (Model.Factorize.factorize_rule_model)", failing_input_found=False, call=txt))
    # grammars
    gvals = [v for v, _, _, _, _ in out["gram"]]
    gcodes, n2 = run_model(GRAM, gvals, seed=seed, coq_sample=cs, tag="c05gram"); nk += n2; total += len(gvals)
    gx = run_ocaml(GRAMX, [v for v in gvals if v[6][0] == 0])
    g_exact = sum(1 for c in gx if c == 0)
    # a verdict 7 / 8 (known findings F7 / F20) must not hide anything else: evaluate again without that test
    todo = [(item, c) for item, c in zip(out["gram"], gcodes)]
    results = []
    for rnd in range(3):
        again = []
        for (item, c) in todo:
            results.append((item, c))
            if c in (7, 8):
                v = item[0]
                skip = v[6][1] | (1 if c == 7 else 2)
                again.append(((v[:6] + ((v[6][0], skip, v[6][2]),) + v[7:],) + item[1:]))
        if not again: break
        acodes, n2b = run_model(GRAM, [it[0] for it in again], seed=seed, coq_sample=2, tag="c05gram%d" % rnd); nk += n2b
        todo = list(zip(again, acodes))
    for (v, meta, txt, spec, gexc), c in results:
        if c == 0: continue
        case = dict(meta)
        obs = dict(outcome=v[6][0], methods_used=[METHODS[u] if u < 3 else "?" for u in v[2]], new_grammar=v[6][2], exception=repr(gexc) if gexc is not None else None)
        if c in GRAM_MSG:
            what, orc, corr = GRAM_MSG[c]
            violations.append(Violation("factorize_%s: %s" % (meta["entry"], what), case=case, observed=obs, oracle=orc, corr=corr, call=txt))
        else:
            violations.append(Violation("factorize_%s: output differs from the model (verdict %d) although the oracles accept it" % (meta["entry"], c), case=case, observed=obs,
                                        corr="corr:factorize_hrg (Model.Factorize.factorize_hrg_model / factorize_fgg_model)", failing_input_found=False, call=txt))
    # sum-product
    svals = [v for v, _, _ in out["sp"]]
    scodes, n3 = run_model(SP, svals, seed=seed, coq_sample=3 if tier == "quick" else 10, tag="c05sp"); nk += n3; total += len(svals)
    for (v, meta, txt), c in zip(out["sp"], scodes):
        if c == 0: continue
        violations.append(Violation("the sum-product of the factorised FGG differs from the original's (exact arithmetic, Ztab; verdict %d)" % c if c == 5 else
                                    "sum-product comparison impossible: translated grammar ill-formed (verdict %d)" % c,
                                    case=meta, observed=dict(new_grammar=v[2]), oracle="Ztab before = Ztab after", corr="C05_sum_product", call=txt,
                                    failing_input_found=(c == 5)))
    cvals = [v for v, _, _ in out["close"]]
    ccodes, n4 = run_model(CLOSE, cvals, seed=seed, coq_sample=5, tag="c05close"); nk += n4; total += len(cvals)
    for (v, meta, txt), c in zip(out["close"], ccodes):
        if c == 0: continue
        violations.append(Violation("fggs.sum_product of the factorised FGG differs from the original's", case=meta, observed=[[str(x) for x in v[1]]],
                                    expected=[[str(x) for x in v[0]]], oracle="|before - after| <= 1e-9 relative", corr="C05_sum_product (float64)", call=txt))
    s0 = out["rule"][len(out["rule"]) // 2] if out["rule"] else None
    cov = dict(evaluations=total, distinct_nontrivial=len(stats["distinct"]),
               rule="specs: 1/2 shaped (path / cycle / star / random / two components / clique / edgeless right-hand sides with up to 7 nodes, isolated nodes, nullary, unary, ternary and repeated-attachment edges, externals at random positions, arity-0..3 left-hand sides, nonterminal edges), 1/3 gen.random_spec non-recursive, 1/6 recursive; every fifth spec renames a terminal to <lhs>_<k>; x 3 methods x 3 entry points (factorize_rule on every rule with labels = None / set() / all labels, factorize_hrg, factorize_fgg) x explicit / implicit / mixed ids; one evaluation = one factorize_rule call, one grammar call, or one sum-product comparison; distinct_nontrivial = distinct (rule, method) whose factorisation has >= 2 rules",
               feature_histogram=feats, new_rules_per_call_histogram={str(k): v for k, v in sorted(stats["newrules"].items())},
               rule_calls=len(vals), rule_calls_exactly_equal_to_model=n_exact, grammar_calls=len(gvals), grammar_calls_exactly_equal_to_model=g_exact,
               sum_product_exact_comparisons=len(svals), sum_product_float_comparisons=len(cvals), kernel_reevaluated=nk,
               samples=[dict(rule=s0[0][0], decomposition=s0[0][3], outcome=s0[0][5][0], new_rules=s0[0][5][1], call=s0[3])] if s0 else [],
               open_items=OPEN_ITEMS)
    return cov, violations

OPEN_ITEMS = [
    "proved (Props/C05.v, unbounded, every valid decomposition / order / label set): C05_edges_once, C05_inline, C05_fresh, C05_method_honoured (+ _hrg), C05_hrg_keeps_labels, C05_fgg_keeps_labels_factors_domains, C05_valid_td_rooted, C05_visit_visits_every_bag_once, C05_clique_in_a_bag, C05_visit_is_structural, oracle soundness (C05_inline_ok_sound, C05_fresh_ok_sound, C05_nodes_ok_sound); generic in the commutative semiring: C05_unfold_rule, C05_unfold_step, C05_unfold_fixpoints, C05_sum_product_partial (Zk unchanged by one unfolding, non-recursive grammars), C05_sum_product_rule and C05_sum_product_rule_all (the new rule for the original lhs has the value of the original rule at EVERY external assignment, empty domains included, in every environment that solves the fresh nonterminals' equations); records of the repaired defects: C05_method_honoured_old_refuted (F7), C05_labels_old_refuted (F20), C05_fresh_old_refuted(_silent) (F22); C05_invalid_td_loses_edge_example",
    "proved, GRAMMAR level (factorize_hrg and factorize_fgg, every valid decomposition per rule, every order): C05_glue_hrg / C05_glue_fgg (the gluing: table extended at its end, rules = the calls' outputs regrouped, fresh names pairwise different over the whole grammar, every lhs in the table), C05_label_numbering(_fgg) (original labels keep their numbers), C05_call_facts (the new rules of a call are in post-order), C05_factorize_refines; C05_sum_product_nonrec(_fgg, _start): NON-RECURSIVE grammars, EVERY commutative semiring -- the factorised grammar is non-recursive and Zk (k >= #nonterminals = the sum over all derivation trees, C01) of every original nonterminal at every index tuple is unchanged (the start symbol at k = #nonterminals is exactly what fz_sp_check compares); C05_sum_product_recursive(_fgg): recursive grammars included, ORDERED commutative semirings -- Zk G' k X <= Zk G k X and Zk G k X <= Zk G' (c k) X for a constant c, hence same upper bounds, same suprema (least fixed points when they exist as limits), same enclosures (C02); C05_sum_product_fixpoints: every commutative semiring -- solutions of the equations of G' restrict to solutions of G and solutions of G extend to G' with the same values on original labels; ordered -- pre-fixed points extend / restrict (Park: least pre-fixed points agree on original nonterminals)",
    "not covered by a theorem: for RECURSIVE grammars in a commutative semiring WITHOUT an order there is no notion of 'the' infinite sum in the development; proved there is only the two-way correspondence of the solutions of the equations (C05_sum_product_fixpoints)",
    "assumption of the grammar-level theorems: node ids of every rule are its positions 0..n-1 (ids_are_positions: as the harness numbers them); invariance under renaming of node ids is not proved",
    "open: totality of the model (no Err on a valid decomposition with valid orders) is not proved; no model error was observed",
]

def replay(path):
    r = json.load(open(path))
    c = r["case"]
    spec = gen.spec_from_json(c["spec"])
    spec["recursive"] = is_recursive(spec)
    names = {}
    for k, v in (c.get("names") or {}).items():
        a, i = k.split(":"); names[(a, int(i))] = v
    out = dict(rule=[], gram=[], sp=[], close=[]); viol = []
    stats = dict(newrules={}, distinct=set())
    run_case(spec, names, c.get("ids", "explicit"), c["method"], c["entry"], c.get("labels_mode", "None"), random.Random(0), out, viol, stats, True)
    bad = len(viol)
    for kind, cf in (("rule", RULE), ("gram", GRAM), ("sp", SP), ("close", CLOSE)):
        vals = [x[0] for x in out[kind]]
        if vals:
            codes = run_coq(cf, vals, tag="replay")
            print(kind, "verdicts", codes)
            bad += sum(1 for x in codes if x)
    for v in viol: print("violation:", v.what)
    return 1 if bad else 0

MANIFEST = dict(
    level="proof",
    text="Coq: a Gallina model of factorize_rule/visit, factorize_hrg, factorize_fgg (Model/Factorize.v); theorems for EVERY rule, EVERY valid tree decomposition of its primal graph and EVERY set-iteration order; executable oracles inline_ok / fresh_ok / nodes_ok proved sound and run on every implementation output; correspondence: the decomposition actually used and the observed orders are recorded and the model is run on them, outputs compared rule by rule; sum-product before/after compared exactly in Coq (Ztab) and through fggs.sum_product; grammar-level theorems: for every grammar, every valid decomposition per rule and every order the sum over all derivations of every original nonterminal is unchanged in every commutative semiring (non-recursive grammars, C05_sum_product_nonrec), and for recursive grammars in ordered semirings the Kleene iterates of the two grammars are sandwiched, so least fixed points / enclosures agree (C05_sum_product_recursive).",
    note="Trusted: Coq kernel, extraction cross-checked by vm_compute, harness canonicalisation and recorder; validity of the decompositions the three methods return is C10; see the evidence's open_items.",
    technique="Coq proof (model + theorems) + model/implementation correspondence with verified-spec oracles",
    design_ref="DESIGN.md section 6, C05")
