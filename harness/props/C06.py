"""C06 -- patterned tensors behave exactly like the dense tensors they denote.

Three layers of correspondence (DESIGN.md section 6, C06):
 (i)   axis level: numel / stride / fv / prime_factors / index / unify / antiunify / freshen / alpha /
       clone / productAxis of fggs.indices compared with the Gallina model (Model/Axis.v) and judged by
       brute-force specifications (Model/AxisCheck.v) on generated typed axes and pairs;
 (ii)  tensor level: every operation the property lists, and compositions of up to three of them,
       op(t,u).to_dense() against the same torch operation on the dense tensors the operands denote
       (the denotation is computed from the definition, independently of the library); for the operations
       that have a Coq model (Model/PTensor.v) additionally through a check function;
 (iii) representation-invariant monitor: every PatternedTensor constructed inside the library during (ii)
       is passed to the extracted repr_inv_b.
Storage layouts (ii-s): with probability 0.35 per operand (every operation, the extra operands of compositions, stack /
project / copy_ sources) the physical tensor handed to the library is NOT contiguous: a partially or fully
expanded (stride-0) torch view, a permuted, sliced (step 2-3, storage offset), 0-dim-at-an-offset or overlapping
(two dimensions with one stride) view of a larger buffer; compositions start 40% of the time with an operation
that returns a view of its operand's storage (expand, getitem, permute, ...); in-place operations run on the
caller's strides.  torch's (sizes, strides, offset, flat storage) of these operands and of the non-contiguous
results is read through the strided-view model of Model/Storage.v (storage_view_check).
"""
import itertools, math, random, warnings, json, os, traceback
from harness.core import *
from harness.props import _c06_util as U
from harness.props._c06_util import AxisT, PnT

PID = "C06"
LEVEL = "proof"
GLUE_PREAMBLE = U.AXIS_GLUE
_IMP = ["Model.Axis"]

BASIC = CheckFn("c06-basic", "Model.AxisCheck", "axis_basic_check",
                Tup(AxisT, Nat, Tup(Nat, List(PnT)), List(PnT), List(AxisT)), imports=_IMP)
INDEX = CheckFn("c06-index", "Model.AxisCheck", "axis_index_check",
                Tup(List(AxisT), List(Tup(List(Nat), Tup(Nat, List(PnT))))), imports=_IMP)
UNIFY = CheckFn("c06-unify", "Model.AxisCheck", "axis_unify_check",
                Tup(List(AxisT), List(AxisT), Pos, Bool, Tup(Bool, Bool, List(List(Nat)))), imports=_IMP)
AentryT = Tup(Pos, Nat, AxisT, AxisT)
ANTI = CheckFn("c06-anti", "Model.AxisCheck", "axis_antiunify_check",
               Tup(List(AxisT), List(AxisT), Pos, Tup(List(AxisT), List(AentryT), Bool)), imports=_IMP)
RenT = List(Tup(Pos, PnT))
FRESHEN = CheckFn("c06-freshen", "Model.AxisCheck", "axis_freshen_check",
                  Tup(List(AxisT), Pos, Tup(List(AxisT), RenT)), imports=_IMP)
ALPHA = CheckFn("c06-alpha", "Model.AxisCheck", "axis_alpha_check", Tup(AxisT, AxisT, RenT, Bool), imports=_IMP)
CLONE = CheckFn("c06-clone", "Model.AxisCheck", "axis_clone_check",
                Tup(AxisT, List(Tup(Pos, AxisT)), AxisT), imports=_IMP)
PRODUCT = CheckFn("c06-product", "Model.AxisCheck", "axis_product_check", Tup(List(AxisT), AxisT), imports=_IMP)
TYPED = CheckFn("c06-typed", "Model.AxisCheck", "axis_typed_check", Tup(List(AxisT), List(List(Nat))), imports=_IMP)
REPR = CheckFn("c06-repr", "Model.AxisCheck", "repr_inv_check", Tup(List(Nat), List(PnT), List(AxisT)), imports=_IMP)
XvT = Tup(Nat, QQ)
TenT = Tup(List(PnT), List(AxisT), XvT, List(XvT))
PTCHECK = CheckFn("c06-pt", "Model.PTensorCheck", "pt_check",
                  Tup(Nat, List(Nat), List(XvT), List(TenT), Tup(Nat, List(Nat), List(XvT))),
                  imports=_IMP + ["Model.XVal", "Model.PTensor"])
_PT2 = Tup(Nat, List(Nat), List(XvT), List(TenT), Tup(Nat, List(Nat), List(XvT)))
_IMP2 = _IMP + ["Model.XVal", "Model.PTensor", "Model.PTensorCheck", "Model.PTensorOps"]
PT_SELECT = CheckFn("c06-pt-select", "Model.PTensorOpsCheck", "pt_check_select", _PT2, imports=_IMP2)     # where, stack
PT_REDUCE = CheckFn("c06-pt-reduce", "Model.PTensorOpsCheck", "pt_check_reduce", _PT2, imports=_IMP2)     # any, dim_to_dense, project
PT_RESHAPE = CheckFn("c06-pt-reshape", "Model.PTensorOpsCheck", "pt_check_reshape", _PT2, imports=_IMP2)  # reshape, view
PT_STORAGE = CheckFn("c06-pt-storage", "Model.PTensorOpsCheck", "pt_check_storage", _PT2, imports=_IMP2)  # copy_, to
PT2 = {"select": PT_SELECT, "reduce": PT_REDUCE, "reshape": PT_RESHAPE, "storage": PT_STORAGE}
STORAGE_VIEW = CheckFn("c06-storage-view", "Model.Storage", "storage_view_check",
                       Tup(List(Nat), List(Nat), Nat, List(XvT), List(XvT)), imports=_IMP + ["Model.XVal", "Model.PTensor", "Model.PTensorCheck"])
CHECKFNS = [BASIC, INDEX, UNIFY, ANTI, FRESHEN, ALPHA, CLONE, PRODUCT, TYPED, REPR, PTCHECK, PT_SELECT, PT_REDUCE, PT_RESHAPE, PT_STORAGE,
            STORAGE_VIEW]

ASSUMPTIONS = [
    "PhysicalAxis objects are numbered by the harness (uid) in order of first appearance; fresh axes created by the library are numbered in creation order as far as that order is observable (antisubst / rename dict order)",
    "torch's dense elementwise kernels, as_strided views and copy_ are trusted as the reference semantics of the dense operations (the property is stated relative to them)",
    "storage: a torch tensor is the strided view (storage offset, strides) of its flat storage; reading through a view with stride-0 / permuted / sliced / overlapping strides is trusted to torch and cross-checked against Model/Storage.v on every laid-out operand (storage_view_check); in-place writes through OVERLAPPING storage are undefined in torch itself and not generated",
    "float values are small dyadic rationals, 0, +-inf (NaN where meaningful); transcendental maps (exp, log, logaddexp, log_softmax) are compared with relative tolerance 1e-12 (float64) / 1e-5 (float32), everything else exactly",
]

# ============================================================================ (i) axis level
def _catch_warn(f):
    with warnings.catch_warnings(record=True) as wl:
        warnings.simplefilter("always")
        r = f()
    return r, any(issubclass(w.category, UserWarning) for w in wl)

def impl_basic(e):
    w = U.World(); o = w.build(e)
    off, s = o.stride({})
    return (e, o.numel(), (off, [(w.name(k), c) for k, c in s.items()]),
            [(w.name(k), k._numel) for k in dict.fromkeys(o.fv({}))],
            [w.wire(x) for x in o.prime_factors({})])

def impl_index(vaxes, cases):
    w = U.World(); objs = [w.build(e) for e in vaxes]
    out = []
    for vs in cases:
        pi = {}; tag = 0
        try:
            for o, v in zip(objs, vs):
                if not o.index(pi, v):
                    tag = 1; break
        except IndexError:
            tag = 2
        except ZeroDivisionError:
            tag = 2
        out.append((list(vs), (tag, [(w.name(k), i) for k, i in pi.items()] if tag == 0 else [])))
    return (vaxes, out)

def _wire_subst(w, subst):
    return {w.name(k): w.wire(v) for k, v in subst.items()}

def gen_refine_pair(rng):
    """two patterns over dimensions of PRODUCT types (flat atom lists), every axis a grouping of consecutive atoms into
    blocks; block axes are shared between the dimensions of a pattern (and sometimes between the two patterns).
    Half of the pairs are of the shape BOUND-THEN-SPLIT: a block axis Q (atoms L) is a whole dimension of one pattern and
    the last factor of another of its dimensions (atoms A ++ L); the other pattern groups A ++ L with a last block that is
    a proper suffix of L.  With the dimensions in this order Q is bound by the first pair of the call and has to be split
    THROUGH that binding by the second; the sides are swapped / the dimensions reversed (Q still unbound when split) /
    a further dimension is added at random."""
    if rng.random() < 0.5:
        L = rng.choice([[2, 2], [2, 2], [2, 3], [3, 2], [2, 2, 2]])
        A = rng.choice([[2], [2], [3], [2, 2]] if L == [2, 2] else [[2]])
        ps, psh = rng.choice([0.3, 0.5, 0.7]), rng.choice([0.0, 0.3, 0.6])
        pool = U.Pool()
        Q = ("Phys", pool.fresh(U.blk_type(L)))
        v1 = [Q, U.a_product([U.gen_refine_axis(A, pool, rng, ps, psh), Q])]
        pool2 = U.Pool(30)
        c = rng.randrange(1, len(L))
        v2 = [U.gen_refine_axis(L, pool2, rng, ps, psh),
              U.a_product([U.gen_refine_axis(A + L[:c], pool2, rng, ps, psh), ("Phys", pool2.fresh(U.blk_type(L[c:])))])]
        if rng.random() < 0.3:
            X = rng.choice([L, A, A + L])
            k = rng.randrange(3)
            v1.insert(k, U.gen_refine_axis(X, pool, rng, ps, psh)); v2.insert(k, U.gen_refine_axis(X, pool2, rng, ps, psh))
        if rng.random() < 0.25: v1.reverse(); v2.reverse()
        if rng.random() < 0.5: v1, v2 = v2, v1
        return v1, v2
    base = rng.choice(U.REFINE_BASES[:8] if rng.random() < 0.8 else U.REFINE_BASES)
    lts = []
    for _d in range(rng.choice([1, 2, 2, 2, 3])):
        if rng.random() < 0.55:
            i = rng.randrange(len(base)); j = rng.randint(i + 1, len(base)); lts.append(base[i:j])
        else: lts.append(base)
    rng.shuffle(lts)
    ps, psh = rng.choice([0.3, 0.5, 0.7]), rng.choice([0.4, 0.6, 0.9])
    pool = U.Pool()
    v1 = [U.gen_refine_axis(l, pool, rng, ps, psh) for l in lts]
    pool2 = pool if rng.random() < 0.25 else U.Pool(30)
    v2 = [U.gen_refine_axis(l, pool2, rng, ps, psh) for l in lts]
    return v1, v2

def impl_unify(es, fs, typed):
    w = U.World(); eo = [w.build(e) for e in es]; fo = [w.build(f) for f in fs]
    nxt = w.max_uid() + 1
    subst = {}
    ok, warned = _catch_warn(lambda: all(e.unify(f, subst) for e, f in zip(eo, fo)))
    den = []
    if ok:
        sub = _wire_subst(w, subst)
        vars_ = U.fv_list(es + fs)
        allv = dict(vars_)
        for v in sub.values(): U.a_fv(v, allv)
        unbound = [(k, n) for k, n in allv.items() if k not in sub]
        seen = set()
        for env in U.all_envs(unbound):
            seen.add(tuple(U.a_eval(("Phys", kn), env, sub) for kn in vars_))
        den = sorted(list(t) for t in seen)
    return (es, fs, nxt, typed, (bool(ok), warned, den))

def impl_antiunify(es, fs):
    w = U.World(); eo = [w.build(e) for e in es]; fo = [w.build(f) for f in fs]
    nxt = w.max_uid() + 1
    anti = ({}, {})
    gs, warned = _catch_warn(lambda: [e.antiunify(f, anti) for e, f in zip(eo, fo)])
    entries = []
    for k, (e, f) in anti[1].items():
        entries.append((w.name(k), k._numel, w.wire(e), w.wire(f)))
    assert list(anti[0].values()) == list(anti[1].keys())
    return (es, fs, nxt, ([w.wire(g) for g in gs], entries, warned))

def impl_freshen(es):
    w = U.World(); eo = [w.build(e) for e in es]
    nxt = w.max_uid() + 1
    ren = {}
    out = [e.freshen(ren) for e in eo]
    r = []
    for k, k2 in ren.items():
        a = w.name(k); b = w.name(k2)
        r.append((a, (b, k2._numel)))
    return (es, nxt, ([w.wire(x) for x in out], r)), (w, eo, out, ren)

def impl_alpha(e, f, ren):
    w = U.World(); eo = w.build(e); fo = w.build(f)
    sizes = dict(U.fv_list([e, f]))
    rd = {}
    for k, (k2, n2) in ren:
        rd[w.phys(k, sizes.get(k, n2))] = w.phys(k2, sizes.get(k2, n2))
    return (e, f, ren, bool(eo.alpha(fo, rd)))

def impl_clone(e, sub):
    w = U.World(); eo = w.build(e)
    sizes = dict(U.fv_list([e] + [x for _, x in sub]))
    sd = {}
    for k, v in sub:
        sd[w.phys(k, sizes.get(k, U.a_numel(v)))] = w.build(v)
    return (e, sub, w.wire(eo.clone(sd)))

def impl_product(fs):
    from fggs.indices import productAxis
    w = U.World()
    return (fs, w.wire(productAxis(tuple(w.build(f) for f in fs))))

def mutate_axis(e, rng):
    """a small random edit (for negative alpha cases)"""
    if e[0] == "Phys": return ("Phys", (e[1][0] + 17, e[1][1]))
    if e[0] == "Prod":
        if not e[1]: return ("Sum", (0, e, 1))
        l = list(e[1]); i = rng.randrange(len(l))
        if rng.random() < 0.3 and len(l) > 1: l.reverse()
        else: l[i] = mutate_axis(l[i], rng)
        return ("Prod", l)
    b, t, a = e[1]
    c = rng.random()
    if c < 0.3: return ("Sum", (b + 1, t, a))
    if c < 0.5: return ("Sum", (b, t, a + 1))
    return ("Sum", (b, mutate_axis(t, rng), a))

def axis_level(tier, seed, violations, cov, jobs):
    rng = random.Random(seed * 1000003 + 6)
    types = U.all_types()
    quick = tier == "quick"
    # ---- single axes: exhaustive over all types with <= 3 leaves / size <= 12
    singles = []
    for t in types:
        for a, _ in U.enum_axes(t, U.Pool()):
            singles.append((t, a))
    # ---- patterns (lists of 1..3 axes sharing variables)
    pats = []          # (types, vaxes)
    small_types = [t for t in types if U.tleaves(t) <= 2 and U.tsize(t) <= 6]
    for t1 in small_types:
        for t2 in small_types:
            if U.tsize(t1) * U.tsize(t2) > 24: continue
            for vax, _ in U.enum_patterns([t1, t2]):
                pats.append(([t1, t2], vax))
    n_exh_pats = len(pats)
    if quick and len(pats) > 500:
        rng.shuffle(pats); pats = pats[:500]
    for _ in range(300 if quick else 4000):
        ts = U.gen_shape_types(rng, types=types)
        vax, _ = U.gen_pattern(ts, rng)
        pats.append((ts, vax))
    # ---- the generator itself: everything it calls "typed" must satisfy has_type
    tvals = [([a], [U.tcode(t)]) for t, a in singles] + [(vax, [U.tcode(t) for t in ts]) for ts, vax in pats]
    hist = {}; kern = [0]
    def typed_done(codes, nk):
        kern[0] += nk
        for v, c in zip(tvals, codes):
            if c: raise AssertionError("C06 harness: generator produced an ill-typed pattern (code %d): %r" % (c, v))
    jobs.append((TYPED, tvals, "c06typed", 15, typed_done))
    def run(cf, vals, what, describe, tag):
        if not vals: return
        hist[what] = len(vals)
        def done(codes, nk):
            kern[0] += nk
            for v, c in zip(vals, codes):
                if c == 0: continue
                oracle = c < 10
                violations.append(Violation(
                    "%s: %s (verdict %d)" % (what, describe(c), c), case=dict(kind=cf.kind, value=v),
                    observed=v[-1], oracle=(cf.fn + " (brute-force specification)") if oracle else None,
                    corr="corr:%s (Model.Axis vs fggs.indices)" % what, failing_input_found=oracle,
                    call="fggs.indices Axis.%s" % what))
        jobs.append((cf, vals, tag, 20, done))
    envs = lambda axes: math.prod(n for _, n in U.fv_list(axes))
    ENVB = 600 if quick else 3000
    # numel / stride / fv / prime_factors
    vals = []
    for t, a in singles:
        try: vals.append(impl_basic(a))
        except Exception as ex:
            violations.append(Violation("Axis.numel/stride/fv/prime_factors raised %r" % (ex,), case=dict(axis=a), corr="corr:basic", call="Axis.stride"))
    for ts, vax in pats[:400 if quick else 4000]:
        a = U.a_product(vax) if rng.random() < 0.5 else ("Sum", (1, U.a_product(vax), 2))
        if envs([a]) > 300: continue
        try: vals.append(impl_basic(a))
        except Exception as ex:
            violations.append(Violation("Axis.numel/stride/fv/prime_factors raised %r" % (ex,), case=dict(axis=a), corr="corr:basic", call="Axis.stride"))
    run(BASIC, vals, "numel/stride/fv/prime_factors",
        lambda c: {1: "numel wrong", 2: "stride is not the affine form of the index map", 3: "fv is not the set of physical axes",
                   10: "stride differs from model", 11: "fv order differs from model", 12: "prime_factors differ from model"}.get(c, "model failure"), "c06basic")
    # index: all index tuples of each (small) pattern, plus out-of-range ones
    vals = []
    for ts, vax in [([t], [a]) for t, a in singles] + pats[:250 if quick else 3000]:
        shape = [U.a_numel(e) for e in vax]
        if math.prod(shape) > 150: continue
        cases = list(itertools.product(*[range(n) for n in shape]))
        cases += [tuple(n + rng.randrange(2) for n in shape) for _ in range(2)]
        try: vals.append(impl_index(vax, cases))
        except Exception as ex:
            violations.append(Violation("Axis.index raised %r" % (ex,), case=dict(vaxes=vax), corr="corr:index", call="Axis.index"))
    run(INDEX, vals, "index",
        lambda c: {1: "decoded physical indices do not evaluate to the virtual index", 2: "an occupied virtual index is reported empty",
                   3: "exception on an in-range index", 10: "bindings differ from model", 11: "outcome differs from model"}.get(c, "?"), "c06index")
    # unify / antiunify on pairs of patterns of the same types
    pairs = []
    bytypes = {}
    for ts, vax in pats: bytypes.setdefault(repr(ts), []).append((ts, vax))
    def shift(vax, k):   # rename apart
        def r(e):
            if e[0] == "Phys": return ("Phys", (e[1][0] + k, e[1][1]))
            if e[0] == "Prod": return ("Prod", [r(x) for x in e[1]])
            return ("Sum", (e[1][0], r(e[1][1]), e[1][2]))
        return [r(e) for e in vax]
    # exhaustive: all pairs of single axes of the same type (renamed apart), all types with <= 3 leaves
    bysingle = {}
    for t, a in singles: bysingle.setdefault(repr(t), []).append(a)
    for k, l in bysingle.items():
        for a in l:
            for b in l:
                pairs.append(([a], shift([b], 20)))
    n_exh_pairs = len(pairs)
    if quick and len(pairs) > 700:
        rng.shuffle(pairs); pairs = pairs[:700]
    for k, l in bytypes.items():
        for _ in range(min(len(l) * 2, 6 if quick else 60)):
            (ts, v1), (_, v2) = rng.choice(l), rng.choice(l)
            # disjoint variables mostly; sometimes shared (same uid = same type by construction of the pool only
            # within one pattern, so share only when the two patterns are the same enumeration prefix)
            pairs.append((v1, shift(v2, 20)))
    for _ in range(200 if quick else 4000):
        ts = U.gen_shape_types(rng, types=types)
        pool = U.Pool()
        v1, pool = U.gen_pattern(ts, rng, pool)
        v2, pool = U.gen_pattern(ts, rng, pool if rng.random() < 0.3 else U.Pool(30))
        pairs.append((v1, v2))
    # refinements (typed): the dimensions have PRODUCT types given as flat atom lists and every axis is a grouping of
    # consecutive atoms into blocks (12 = 2x2x3 as 12 / 2*6 / 4*3 / 2*2*3), block axes shared between the dimensions of a
    # pattern: unify_list meets factors that an EARLIER pair of the same call has already bound and must split them
    # through the existing binding (branches m < n and m > n of the product loop on a non-empty substitution)
    rpairs = [gen_refine_pair(rng) for _ in range(200 if quick else 5000)]
    pairs = [p for p in pairs if envs(p[0] + p[1]) <= ENVB]
    pairs += [p for p in rpairs if envs(p[0] + p[1]) <= max(ENVB, 1000)]
    uvals, avals = [], []
    for es, fs in pairs:
        try: uvals.append(impl_unify(es, fs, True))
        except Exception as ex:
            violations.append(Violation("Axis.unify raised %r on typed axes" % (ex,), case=dict(es=es, fs=fs), corr="corr:unify", call="Axis.unify"))
        try: avals.append(impl_antiunify(es, fs))
        except Exception as ex:
            violations.append(Violation("Axis.antiunify raised %r on typed axes" % (ex,), case=dict(es=es, fs=fs), corr="corr:antiunify", call="Axis.antiunify"))
    # ill-typed pairs (malformed stream): only agreement with the model is required
    for _ in range(120 if quick else 1500):
        t1 = rng.choice(types[1:]); t2 = rng.choice(types[1:])
        a, _ = U.gen_pattern([t1], rng); b, _ = U.gen_pattern([t2], rng, U.Pool(30))
        if envs(a + b) > ENVB: continue
        try: uvals.append(impl_unify(a, b, False))
        except ZeroDivisionError: pass
        except Exception as ex:
            violations.append(Violation("Axis.unify raised %r" % (ex,), case=dict(es=a, fs=b), corr="corr:unify", call="Axis.unify", failing_input_found=False))
    run(UNIFY, uvals, "unify",
        lambda c: {1: "the unifier does not denote the coincidence set of the two patterns", 2: "unification of typed axes failed although the patterns overlap",
                   3: "unification of typed axes warned", 10: "success flag differs from model", 11: "warning flag differs from model",
                   12: "unifier differs semantically from the model's", 13: "model denotation ran out of fuel", 14: "model failed"}.get(c, "?"), "c06unify")
    run(ANTI, avals, "antiunify",
        lambda c: {1: "result does not instantiate to the first argument", 2: "result does not instantiate to the second argument",
                   10: "generalisation differs from model", 11: "antisubst differs from model", 12: "warning flag differs from model", 13: "model failed"}.get(c, "?"), "c06anti")
    # freshen / alpha / clone / productAxis
    fvals, alvals, cvals, pvals = [], [], [], []
    for ts, vax in pats[:200 if quick else 2000]:
        v, (w, eo, out, ren) = impl_freshen(vax)
        fvals.append(v)
        es, nxt, (outw, r) = v
        for e, f in zip(es, outw):
            alvals.append(impl_alpha(e, f, r))
            alvals.append(impl_alpha(e, mutate_axis(f, rng), r))
            alvals.append(impl_alpha(f, e, r))
        # clone under a substitution binding some variables to axes of the same size
        fvs = U.fv_list(vax)
        if fvs:
            sub = []
            pool = U.Pool(60)
            for k, n in fvs:
                if rng.random() < 0.5:
                    cands = [t for t in types if U.tsize(t) == n]
                    if cands: sub.append((k, U.gen_axis(rng.choice(cands), pool, rng)))
            for e in vax: cvals.append(impl_clone(e, sub))
        fs = list(vax) + ([U.UNIT] if rng.random() < 0.3 else [])
        rng.shuffle(fs)
        if envs(fs) <= 300: pvals.append(impl_product(fs))
    run(FRESHEN, fvals, "freshen", lambda c: {1: "not a consistent fresh renaming", 10: "differs from model", 11: "rename dict differs from model"}.get(c, "?"), "c06fresh")
    run(ALPHA, alvals, "alpha", lambda c: "verdict differs from model", "c06alpha")
    run(CLONE, cvals, "clone", lambda c: {1: "clone does not evaluate like the axis under the substitution", 10: "differs from model", 13: "model failed"}.get(c, "?"), "c06clone")
    run(PRODUCT, pvals, "productAxis", lambda c: {1: "not the product of the factors", 10: "differs from model"}.get(c, "?"), "c06prod")
    cov["axis_level"] = dict(cases=hist, single_axes_exhaustive=len(singles), two_dim_patterns_enumerated=n_exh_pats,
                             same_type_axis_pairs_enumerated=n_exh_pairs, kernel_reevaluated=kern,
                             unify_refinement_pairs=dict(generated=len(rpairs), rule="patterns over dimensions of product types (flat atom lists), every axis a grouping of consecutive atoms into one PhysicalAxis per block, block axes shared between dimensions; half of them BOUND-THEN-SPLIT: a block axis that an earlier pair of the same unify call has bound is the last factor of a later dimension and meets a product with a smaller last factor (sides swapped / dimensions reversed at random); judged by the brute-force coincidence oracle and compared with the model"))
    return sum(hist.values()), len({repr(v[:2]) for v in uvals if any(e[0] != "Phys" for e in v[0] + v[1])})

def run_jobs(jobs, seed):
    """evaluate all model-side jobs concurrently (each is subprocess-bound: extracted driver + a coqc sample)"""
    from concurrent.futures import ThreadPoolExecutor
    def one(j):
        cf, vals, tag, sample, done = j
        return run_model(cf, vals, seed=seed, tag=tag, coq_sample=sample)
    with ThreadPoolExecutor(max_workers=6) as ex:
        results = list(ex.map(one, jobs))
    for (cf, vals, tag, sample, done), (codes, nk) in zip(jobs, results):
        done(codes, nk)

# ============================================================================ (iii) monitor
class Monitor:
    """wraps PatternedTensor.__post_init__ (and copy_) and records the representation of every instance"""
    def __init__(self):
        self.seen = {}; self.count = 0; self.active = False
    def install(self):
        from fggs import indices
        PT = indices.PatternedTensor
        if getattr(PT, "_c06_monitored", False):
            PT._c06_monitor = self; return
        orig_post = PT.__post_init__; orig_copy = PT.copy_
        def post(this):
            orig_post(this); PT._c06_monitor.record(this)
        def copy_(this, src):
            r = orig_copy(this, src); PT._c06_monitor.record(this); return r
        PT.__post_init__ = post; PT.copy_ = copy_
        PT._c06_monitored = True; PT._c06_monitor = self
    def record(self, t):
        if not self.active: return
        self.count += 1
        try:
            vax, pax = U.wire_local(t.vaxes, t.paxes)
            v = (list(t.physical.size()), pax, vax)
        except Exception as ex:
            v = ("malformed", repr(ex))
        self.seen.setdefault(repr(v), v)

MON = Monitor()

# ============================================================================ (ii) tensor level
from harness.props import _c06_ops as OPS

def tensor_level(tier, seed, violations, cov):
    MON.install()
    return OPS.run_ops(tier, seed, violations, cov, MON)

# ============================================================================ driver
def run(tier, seed):
    violations = []
    cov = {}
    jobs = []
    n_axis, d_axis = axis_level(tier, seed, violations, cov, jobs)
    n_ops, d_ops = tensor_level(tier, seed, violations, cov)
    # (ii') the operations that have a Coq model: implementation result vs dense specification vs model
    ptvals = cov.pop("_ptvals", [])
    def pt_done(codes, nkp):
        hist = {}
        for (v, desc), c in zip(ptvals, codes):
            hist[c] = hist.get(c, 0) + 1
            if c == 0: continue
            if c < 10:
                violations.append(Violation("%s: result rejected by the dense specification applied to the operands' denotations (verdict %d)" % (desc["op"], c),
                                            case=desc, oracle="spec_op", corr="C06 model check pt_check", call="PatternedTensor.%s" % desc["op"]))
            else:
                violations.append(Violation("%s: implementation differs from the Gallina model (verdict %d) although the specification accepts it" % (desc["op"], c),
                                            case=desc, corr="corr:pt_check (Model.PTensor vs fggs.indices.PatternedTensor)", failing_input_found=False,
                                            call="PatternedTensor.%s" % desc["op"]))
        cov["tensor_level"]["model_checked"] = dict(cases=len(ptvals), verdicts=hist, kernel_reevaluated=nkp)
    if ptvals: jobs.append((PTCHECK, [v for v, _ in ptvals], "c06pt", 12, pt_done))
    # (ii'') the operations of Model/PTensorOps.v, one check function per group
    ptvals2 = cov.pop("_ptvals2", [])
    cov["tensor_level"]["model_checked_ops2"] = {}
    V2 = {1: "shape differs from the dense specification", 2: "values differ from the dense specification",
          3: "ZeroDivisionError where the dense operation is defined", 4: "exception where the dense operation is defined",
          5: "reshape raised RuntimeError on a target that must succeed (adjacent merge / size-1 insertion or removal)",
          10: "shape differs from the model", 11: "values differ from the model", 12: "model out of fuel", 13: "model failed, implementation succeeded",
          14: "model succeeded, implementation raised", 15: "storage re-use decision of copy_ differs from the model", 20: "malformed wire tensor", 21: "wrong group"}
    def make_done(group, gv):
        def done(codes, nkp):
            hist = {}
            for (v, desc), c in zip(gv, codes):
                hist[c] = hist.get(c, 0) + 1
                if c == 0: continue
                violations.append(Violation("%s: %s (verdict %d)" % (desc["op"], V2.get(c, "?"), c), case=desc,
                                            oracle=("spec_op2 (dense specification on brute-force denotations)" if c < 10 else None),
                                            corr="corr:pt_check_%s (Model.PTensorOps vs fggs.indices)" % group, failing_input_found=(c < 10),
                                            call="PatternedTensor.%s" % desc["op"]))
            ops = {}
            for v, desc in gv: ops[desc["op"]] = ops.get(desc["op"], 0) + 1
            cov["tensor_level"]["model_checked_ops2"][group] = dict(cases=len(gv), by_op=ops, verdicts=hist, kernel_reevaluated=nkp)
        return done
    for group, cf in PT2.items():
        gv = [(v, d) for v, d in ptvals2 if OPS.GROUP2[v[0]] == group]
        if gv: jobs.append((cf, [v for v, _ in gv], "c06pt" + group, 8, make_done(group, gv)))
    # (ii-s) storage layouts: torch's (sizes, strides, offset, flat storage) of the laid-out operands and of the
    # non-contiguous results, read through the strided-view model of Model/Storage.v
    svals = cov.pop("_svals", [])
    def storage_done(codes, nk):
        hist = {}
        for v, c in zip(svals, codes):
            hist[c] = hist.get(c, 0) + 1
            if c:
                violations.append(Violation("storage view: %s (verdict %d)" % ({10: "sizes / strides of different lengths", 11: "an address outside the storage",
                                            12: "the strided-view model reads other values than torch"}.get(c, "?"), c),
                                            case=dict(kind=STORAGE_VIEW.kind, value=v), corr="corr:storage_view_check (Model.Storage vs torch strided storage)",
                                            failing_input_found=False, call="torch.Tensor storage of PatternedTensor.physical"))
        cov["tensor_level"]["storage_layouts"]["view_model_checked"] = dict(cases=len(svals), verdicts=hist, kernel_reevaluated=nk)
    if svals: jobs.append((STORAGE_VIEW, svals, "c06sview", 8, storage_done))
    # (iii) judge everything the monitor saw
    vals = [v for v in MON.seen.values() if v[0] != "malformed"]
    for v in MON.seen.values():
        if v[0] == "malformed":
            violations.append(Violation("PatternedTensor with malformed axes constructed inside the library: %s" % v[1], case=None,
                                        corr="representation invariant monitor", failing_input_found=False))
    mon_k = [0]
    def repr_done(codes, nk):
        mon_k[0] = nk
        for v, c in zip(vals, codes):
            if c:
                violations.append(Violation("representation invariant broken (%s)" % {1: "sizes / paxes = free axes of vaxes / no size-1 physical axis", 2: "index map not injective"}.get(c, c),
                                            case=dict(psize=v[0], paxes=v[1], vaxes=v[2]), oracle="repr_inv_b", corr="C06_repr_inv_injective / monitor",
                                            call="PatternedTensor.__post_init__ (FGGS_VERIF=1 monitor)"))
    if vals: jobs.append((REPR, vals, "c06repr", 30, repr_done))
    run_jobs(jobs, seed)
    cov["axis_level"]["kernel_reevaluated"] = cov["axis_level"]["kernel_reevaluated"][0]
    cov.update(evaluations=n_axis + n_ops + len(vals), distinct_nontrivial=d_axis + d_ops,
               rule="axis level: distinct (es, fs) pairs with at least one non-physical axis; tensor level: distinct (operation, operand patterns) instances whose operands are not all dense (the storage layout of the operands -- contiguous / expanded-partial / expanded-full / permuted / strided / offset / overlap -- is a separate histogram: tensor_level.storage_layouts)",
               monitor=dict(constructions_seen=MON.count, distinct_representations=len(vals), kernel_reevaluated=mon_k[0]),
               open_items=OPEN_ITEMS)
    cov.setdefault("samples", [])
    return cov, violations

OPEN_ITEMS = [
    "CLOSED (notes/UNIFY.md section 6): unify completeness on typed axes is unbounded AND total -- C06_unify_complete_model_fuel: with the fuel the model itself uses, unify answers on every typed pair of patterns, has not warned, and returns a most general unifier / reports disjointness; no side condition is left. The former fuel formula of the model (6 * nodes + 10) was REFUTED (C06_unify_fuel_old_refuted: a.X = X.a' with X = PhysicalAxis(2**16) needs 49 > 46; a finding about the model, not about /repo, which has no fuel) and replaced by one that provably suffices (old term + 3 * (Sum nodes + 1) * (log2 of the largest dimension + 1)); the bounded theorems C06_unify_complete_upto12 / _2d_upto6 and the brute-force coincidence oracle on every implementation unifier stay as cross-checks",
    "C06_ty_has_type is one direction only: the converse (has_type e t = true, normal, linear -> typed in some context) is tied by the sound checker ty_b on the generator's universes, not proved in general",
    "reshape: C06_reshape_refines_typed discharges the unifier premises (complete_for, solvable, size_preserving) of C06_reshape_refines_partial for every typed target (typed_target: the primes of the dimension types regroup into the target sizes); the remaining premise is wf of the result (checked by the run-time monitor on every construction). C06_reshape_merge_succeeds / C06_reshape_unit_dims_succeed prove the 'always succeeds' half for explicit targets; targets containing -1 are checked by the correspondence only (must_succeed flag, verdict 5)",
    "where: C06_where_refines_partial covers three operands of ONE typed shape (all code paths: swap, freshen, unify, fullness test, antiunify, masked_fill_, strided copy_); broadcasting between the operands of where is model + correspondence only (pt_check_select, spec_op2)",
    "stack: model + correspondence only (pt_check_select). A refinement proof needs, per input, that the unifier of (lggs, t.vaxes) is solvable and in range (it is, by wts, whenever the generalisation lggs is typed like the inputs) plus soundness of unify and injectivity of the generalised pattern; typing of lggs is not a theorem in general: extend_antisubst memoises on structurally equal parts, which may occur at positions of different sum types",
    "project: proved for typed pairs (C06_project_refines), any fuel; nothing open",
    "copy_: value semantics proved (C06_copy); the storage re-use rule (copy_reuses) is correspondence only (observed through data_ptr)",
    "__iter__: modelled (pt_iter), model-checked (pt_check_reduce, op 59) and proved (C06_iter: the tensors yielded are the slices along the leading dimension, the unit branch keeps storage / axes / default) under the guard of dim_to_dense; tolist and getitem-by-integer iteration beyond C06_getitem: correspondence only",
    "log_softmax / norm / exp / expm1 / log / logaddexp: correspondence only (no Coq model); any is proved (C06_any) under the guard 'dimension not empty or default false' (C06_any_empty_dim_refuted), dim_to_dense is proved (C06_dim_to_dense) under the guard 'a size-1 dimension is unitAxis'",
    "a general link from the context-free has_type of Model/Axis.v to the context judgement ty (one direction proved: C06_ty_has_type; the other tied by ty_b on the generator's universes)",
    "F24 (degenerate one-element sum types, not generated): expansion does not broadcast a size-1 dimension whose axis is SumAxis(0, unitAxis, 0); the binary theorems carry the guard bcast_ok and C06_expansion_nonunit_size1_refuted is the witness",
]

def _fix(x):
    """JSON round trip: lists back to the tuples of the wire format"""
    if isinstance(x, list):
        if len(x) == 2 and x[0] == "Phys": return ("Phys", (x[1][0], x[1][1]))
        if len(x) == 2 and x[0] == "Prod": return ("Prod", [_fix(y) for y in x[1]])
        if len(x) == 2 and x[0] == "Sum": return ("Sum", (x[1][0], _fix(x[1][1]), x[1][2]))
        return [_fix(y) for y in x]
    return x

def replay(path):
    r = json.load(open(path))
    c = r["case"]
    if isinstance(c, dict) and "kind" in c:
        v = _fix(c["value"])
        kind = c["kind"]
        if kind == "c06-unify": cf, nv = UNIFY, impl_unify(v[0], v[1], v[3])
        elif kind == "c06-anti": cf, nv = ANTI, impl_antiunify(v[0], v[1])
        elif kind == "c06-basic": cf, nv = BASIC, impl_basic(v[0])
        elif kind == "c06-index": cf, nv = INDEX, impl_index(v[0], [tuple(x[0]) for x in v[1]])
        elif kind == "c06-product": cf, nv = PRODUCT, impl_product(v[0])
        elif kind == "c06-repr":
            print("representation recorded by the monitor:", v); cf, nv = REPR, (v[0], [tuple(p) for p in v[1]], v[2])
        else:
            print("re-run `bin/check C06 quick` with VERIF_SEED=%s (value: %s)" % (r.get("seed"), json.dumps(c["value"])[:2000]))
            return 1
        code = run_coq(cf, [nv], tag="replay")[0]
        print("input:", nv[:-1] if kind != "c06-repr" else nv)
        print("implementation output now:", nv[-1])
        print("verdict code (vm_compute in the kernel):", code)
        return 1 if code else 0
    if isinstance(c, dict) and "op" in c:
        return OPS.replay_case(c)
    print("cannot replay this case automatically; re-run bin/check C06 %s with VERIF_SEED=%s" % (r.get("tier"), r.get("seed")))
    return 1

MANIFEST = dict(
    level="proof",
    text="Coq theorems about a Gallina model of fggs/indices.py's axis algebra (eval bound, stride = affine form, index inverts eval, pattern injectivity = at most one backing element, unify soundness and -- for typed patterns, unbounded, with the model's own fuel (C06_unify_complete_model_fuel: the model always answers) -- completeness / most general unifier, antiunify generalises both arguments and records parts of equal sizes) and of PatternedTensor: to_dense = denote, view operations, unary maps, binary / commutative / sub / div through expansion WITH broadcasting, __post_init__, dense construction / full / from_int / eye, default_to, getitem (never raises in range), clone/freshen, copy_ and to (value semantics), any (both code paths), dim_to_dense, __iter__, project (typed pairs: the returned dense tensor indexed by paxes is self indexed by vaxes), where (three operands of one typed shape: torch.where of the denotations), reshape / view (typed targets: denotes the reshaped tensor given wf of the result; succeeds on adjacent merges and size-1 insertion / removal with explicit sizes), preservation of the representation invariant by every constructor and its equivalence with the monitor's oracle; Gallina models of stack and copy_'s storage rule; the strided-view model of torch storage (Model/Storage.v): an elementwise map over the storage is the map of the logical contents for every offset / strides, coordinates along stride-0 dimensions are irrelevant, views with equal logical contents denote the same tensor, and the shortcut 'operate on the repeated cell of an expanded constant' is sound iff it tests that ALL strides are 0 (C06_map_expanded_all_zero / C06_map_expanded_some_zero_refuted). The models are tied to /repo by running both on generated typed axes/patterns (including one-hot operands: no physical axis, ndim >= 1; and, for 35% of the operands, physical tensors that are partially / fully expanded, permuted, sliced, offset or overlapping torch views, the way a caller or an earlier operation of the library may supply them); brute-force specifications judge every implementation output; every listed tensor operation and compositions of up to three are compared with torch on the denoted dense tensors; every PatternedTensor constructed inside the library is checked against the extracted representation invariant.",
    note="Trusted: Coq kernel + vm_compute, extraction cross-checked against vm_compute, the Python harness (numbering of PhysicalAxis objects, independent evaluator of axes), torch's dense kernels as reference. All findings of this check (F1, F16, F16b, F21, F22, F23) are repaired in /repo; F24 (one-element sum types, outside the generated domain) is documented with a Coq witness. Open: where with broadcasting between its operands, stack (model + correspondence), reshape targets with -1 and wf of reshape's result (run-time monitor), fuel sufficiency of unify in general.",
    technique="Coq proof (model + theorems) + model/implementation correspondence with brute-force specification oracles + differential testing against torch on denotations + runtime invariant monitor",
    design_ref="DESIGN.md section 6, C06; Appendix A.6; Appendix C")
