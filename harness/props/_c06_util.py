"""Helpers for C06 (also meant for C07 / C13): wire descriptors for axes, the typed pattern
generator of DESIGN.md section 7, an evaluator of axes that is independent of the library, and
construction of PatternedTensors from plain-data specs.

Plain-data formats
  type  : ("atom", n) | ("prod", [type...]) | ("sum", [type...])
  axis  : ("Phys", (uid, n)) | ("Prod", [axis...]) | ("Sum", (before, axis, after))     (wire format)
  tensor: dict(types=[type...], vaxes=[axis...], paxes=[(uid, n)...], default=float, dtype="f64"|"f32"|"bool",
               values=[... row-major over paxes sizes ...])
"""
from __future__ import annotations
import itertools, math, random
from harness.core import Sum, Rec, Tup, List, Pos, Nat, Bool

# ---------------------------------------------------------------------------- wire
_AxisRec = Rec("axis", "d_axis", lambda: AxisT)
AxisT = Sum("axis", "Axis", {"Phys": Tup(Pos, Nat), "Prod": List(_AxisRec), "Sum": Tup(Nat, _AxisRec, Nat)})
PnT = Tup(Pos, Nat)
AXIS_GLUE = "let rec d_axis s = (" + AxisT.dec() + ") s"

UNIT = ("Prod", [])

# ---------------------------------------------------------------------------- types
def tsize(t):
    if t[0] == "atom": return t[1]
    if t[0] == "prod": return math.prod(tsize(s) for s in t[1])
    return sum(tsize(s) for s in t[1])

def tleaves(t):
    return 1 if t[0] == "atom" else sum(tleaves(s) for s in t[1])

def tkey(t):
    return repr(t)

def tcode(t):
    """prefix code understood by AxisCheck.ity_of_code"""
    if t[0] == "atom": return [0, t[1]]
    out = [1 if t[0] == "prod" else 2, len(t[1])]
    for s in t[1]: out += tcode(s)
    return out

def all_types(max_leaves=3, max_size=12, atoms=(2, 3, 4)):
    """index types n | t x t | t + t, up to max_leaves leaves and total size max_size (plus the unit type)"""
    by = {1: [("atom", n) for n in atoms]}
    for L in range(2, max_leaves + 1):
        cur = []
        for a in range(1, L):
            for x in by[a]:
                for y in by[L - a]:
                    for k in ("prod", "sum"):
                        t = (k, [x, y])
                        if tsize(t) <= max_size: cur.append(t)
        by[L] = cur
    out = [("prod", [])]
    for L in sorted(by): out += by[L]
    return out

def onehot_types(max_size=6):
    """sum types with a size-1 summand (a unit leaf inside a SumAxis): the types of one-hot vectors, of the
    dimensions of a single stored cell, of `eye(n)[i]`.  Kept apart from all_types(): the exhaustive universes
    of the axis level (whose typing is proved in the kernel) are unchanged; these types feed the random
    tensor-level streams only."""
    out = []
    for n in range(2, max_size + 1):
        for i in range(n):
            parts = ([("atom", i)] if i else []) + [("atom", 1)] + ([("atom", n - i - 1)] if n - i - 1 else [])
            out.append(("sum", parts))
    return out

def onehot_axis(n, i):
    """SumAxis(i, unitAxis, n-i-1): the axis of a one-hot dimension of size n with the hot position i"""
    return ("Sum", (i, UNIT, n - i - 1))

def onehot_type(n, i):
    return ("sum", ([("atom", i)] if i else []) + [("atom", 1)] + ([("atom", n - i - 1)] if n - i - 1 else []))

def onehot_like(spec, rng, keep=0.0):
    """a spec of the same shape, kind and dtype whose dimensions are one-hot (SumAxis(i, unitAxis, n-i-1)) or
    unit; with probability `keep` one dimension keeps the axis it had (a one-hot dimension next to a physical
    one).  Without a kept dimension the tensor has NO physical axis although ndim >= 1: it stores one element."""
    vaxes, types = [], []
    kept = rng.randrange(len(spec["vaxes"])) if spec["vaxes"] and rng.random() < keep else None
    for d, (e, t) in enumerate(zip(spec["vaxes"], spec["types"])):
        n = a_numel(e)
        if d == kept: vaxes.append(e); types.append(t)
        elif n == 1: vaxes.append(UNIT); types.append(("prod", []))
        else:
            i = rng.randrange(n); vaxes.append(onehot_axis(n, i)); types.append(onehot_type(n, i))
    paxes = fv_list(vaxes); rng.shuffle(paxes)
    m = math.prod(k for _, k in paxes)
    kind = "bool" if spec["dtype"] == "bool" else "float"
    vals = gen_values(m, rng, kind, specials=(m > 1))
    if kind == "bool" and m == 1: vals = [True] if rng.random() < 0.7 else vals
    return dict(types=types, vaxes=vaxes, paxes=paxes, default=spec["default"], dtype=spec["dtype"], values=vals)

def is_onehot(spec):
    """no physical axis although some dimension is not unit"""
    return not spec["paxes"] and any(a_numel(e) != 1 for e in spec["vaxes"])

# ---------------------------------------------------------------------------- axes (plain data)
def a_numel(e):
    if e[0] == "Phys": return e[1][1]
    if e[0] == "Prod": return math.prod(a_numel(x) for x in e[1])
    return e[1][0] + a_numel(e[1][1]) + e[1][2]

def a_product(fs):
    """mirror of the smart constructor productAxis (used to build *inputs* that respect the invariants)"""
    es = []
    for f in fs:
        if f[0] == "Prod": es.extend(f[1])
        else: es.append(f)
    return es[0] if len(es) == 1 else ("Prod", es)

def a_eval(e, env, subst=None):
    """virtual index denoted by the axis under env (uid -> int); bound variables are followed through subst"""
    if e[0] == "Phys":
        k = e[1][0]
        if subst is not None and k in subst: return a_eval(subst[k], env, subst)
        return env[k]
    if e[0] == "Prod":
        acc = 0
        for x in e[1]: acc = acc * a_numel(x) + a_eval(x, env, subst)
        return acc
    return e[1][0] + a_eval(e[1][1], env, subst)

def a_fv(e, out=None):
    """(uid, n) in order of first occurrence"""
    if out is None: out = {}
    if e[0] == "Phys": out.setdefault(e[1][0], e[1][1])
    elif e[0] == "Prod":
        for x in e[1]: a_fv(x, out)
    else: a_fv(e[1][1], out)
    return out

def fv_list(es):
    out = {}
    for e in es: a_fv(e, out)
    return list(out.items())

def a_size(e):
    if e[0] == "Phys": return 1
    if e[0] == "Prod": return 1 + sum(a_size(x) for x in e[1])
    return 1 + a_size(e[1][1])

def all_envs(vars_):
    """all in-range environments over [(uid, n)] as dicts"""
    ks = [k for k, _ in vars_]
    for vals in itertools.product(*[range(n) for _, n in vars_]):
        yield dict(zip(ks, vals))

# ---------------------------------------------------------------------------- generator
class Pool:
    """physical axes available for sharing, by index type; uids are handed out in order"""
    def __init__(self, start=1):
        self.by = {}; self.next = start
    def fresh(self, t):
        k = self.next; self.next += 1
        self.by.setdefault(tkey(t), []).append((k, tsize(t)))
        return (k, tsize(t))
    def copy(self):
        p = Pool(self.next); p.by = {k: list(v) for k, v in self.by.items()}; return p

def gen_axis(t, pool: Pool, rng, p_phys=0.35, p_share=0.4):
    """a random axis of index type t: per node stay physical (fresh or shared with a position of the
    same type), split a product, choose an injection of a sum"""
    if tsize(t) == 1 and t[0] != "sum": return UNIT
    if t[0] == "atom" or rng.random() < p_phys:
        cands = pool.by.get(tkey(t), [])
        if cands and rng.random() < p_share: return ("Phys", rng.choice(cands))
        return ("Phys", pool.fresh(t))
    if t[0] == "prod":
        return a_product([gen_axis(s, pool, rng, p_phys, p_share) for s in t[1]])
    j = rng.randrange(len(t[1]))
    before = sum(tsize(s) for s in t[1][:j]); after = sum(tsize(s) for s in t[1][j + 1:])
    return ("Sum", (before, gen_axis(t[1][j], pool, rng, p_phys, p_share), after))

def enum_axes(t, pool: Pool):
    """every axis of type t over the pool (canonical: a fresh variable is always the next uid);
    yields (axis, pool')"""
    if tsize(t) == 1 and t[0] != "sum":
        yield UNIT, pool; return
    for kn in pool.by.get(tkey(t), []):
        yield ("Phys", kn), pool
    p = pool.copy(); kn = p.fresh(t)
    yield ("Phys", kn), p
    if t[0] == "prod":
        def rec(i, acc, pl):
            if i == len(t[1]):
                yield a_product(acc), pl; return
            for a, pl2 in enum_axes(t[1][i], pl):
                yield from rec(i + 1, acc + [a], pl2)
        yield from rec(0, [], pool)
    elif t[0] == "sum":
        for j, s in enumerate(t[1]):
            before = sum(tsize(x) for x in t[1][:j]); after = sum(tsize(x) for x in t[1][j + 1:])
            for a, pl in enum_axes(s, pool):
                yield ("Sum", (before, a, after)), pl

def enum_patterns(types, pool=None):
    """every vaxes list of the given dimension types; yields (vaxes, pool')"""
    pool = pool or Pool()
    def rec(i, acc, pl):
        if i == len(types):
            yield acc, pl; return
        for a, pl2 in enum_axes(types[i], pl):
            yield from rec(i + 1, acc + [a], pl2)
    yield from rec(0, [], pool)

def gen_pattern(types, rng, pool=None, **kw):
    pool = pool or Pool()
    return [gen_axis(t, pool, rng, **kw) for t in types], pool

# ---- refinements: an index of PRODUCT type p1 x ... x pk (a flat list of small atoms) seen through any grouping of
# CONSECUTIVE atoms into blocks, one PhysicalAxis per block (12 = 2x2x3 as 12, 2*6, 4*3, 2*2*3).  Any two groupings have a
# common refinement, so Axis.unify must succeed on them by SPLITTING the larger last factor (branches m < n / m > n of its
# product loop), also when that factor is already bound.  A block axis may be shared between positions with the same atoms.
REFINE_BASES = [[2, 2], [2, 3], [3, 2], [2, 2, 2], [2, 2, 3], [2, 3, 2], [3, 2, 2], [2, 2, 2, 2], [2, 3, 3], [3, 3, 2], [2, 2, 5]]

def blk_type(ps):
    return ("prod", [("atom", p) for p in ps])

def gen_refine_axis(ps, pool, rng, p_split=0.6, p_share=0.4):
    """a product of PhysicalAxes, one per block of a random grouping of the atom list ps into consecutive blocks"""
    blocks = [[ps[0]]] if ps else []
    for p in ps[1:]:
        if rng.random() < p_split: blocks.append([p])
        else: blocks[-1].append(p)
    fs = []
    for b in blocks:
        t = blk_type(b)
        cands = pool.by.get(tkey(t), [])
        if cands and rng.random() < p_share: fs.append(("Phys", rng.choice(cands)))
        else: fs.append(("Phys", pool.fresh(t)))
    return a_product(fs)


def gen_shape_types(rng, max_dims=3, max_numel=48, types=None, p_unit=0.12):
    types = types or all_types()
    while True:
        nd = rng.choice([1, 1, 2, 2, 2, 3])[0:1] if False else rng.choice([1, 2, 2, 2, 3, 3])
        nd = min(nd, max_dims)
        ts = [(("prod", []) if rng.random() < p_unit else rng.choice(types[1:])) for _ in range(nd)]
        if math.prod(tsize(t) for t in ts) <= max_numel: return ts

# ---------------------------------------------------------------------------- library objects
class World:
    """uid <-> PhysicalAxis object"""
    def __init__(self):
        self.obj = {}; self.uid = {}; self.keep = []
    def phys(self, k, n):
        from fggs.indices import PhysicalAxis
        if k not in self.obj:
            o = PhysicalAxis(n); self.obj[k] = o; self.uid[id(o)] = k; self.keep.append(o)
        assert self.obj[k]._numel == n, (k, n)
        return self.obj[k]
    def build(self, e):
        from fggs.indices import ProductAxis, SumAxis
        if e[0] == "Phys": return self.phys(*e[1])
        if e[0] == "Prod": return ProductAxis(tuple(self.build(x) for x in e[1]))
        return SumAxis(e[1][0], self.build(e[1][1]), e[1][2])
    def name(self, o, fresh=None):
        """uid of a PhysicalAxis; unknown objects get the next uid (or fresh())"""
        i = id(o)
        if i not in self.uid:
            k = (max(self.obj) + 1 if self.obj else 1) if fresh is None else fresh()
            self.obj[k] = o; self.uid[i] = k; self.keep.append(o)
        return self.uid[i]
    def wire(self, e):
        from fggs.indices import PhysicalAxis, ProductAxis, SumAxis
        if isinstance(e, PhysicalAxis): return ("Phys", (self.name(e), e._numel))
        if isinstance(e, ProductAxis): return ("Prod", [self.wire(x) for x in e.factors])
        if isinstance(e, SumAxis): return ("Sum", (e.before, self.wire(e.term), e.after))
        raise TypeError(type(e))
    def max_uid(self):
        return max(self.obj) if self.obj else 0

def wire_local(vaxes, paxes=None):
    """wire format of axes with uids numbered locally in order of first appearance (paxes first)"""
    w = World()
    p = [("Phys", (w.name(k), k._numel))[1] for k in (paxes or [])]
    return [w.wire(e) for e in vaxes], p

# ---------------------------------------------------------------------------- values
INF = math.inf
DEFAULTS = [0.0, 1.0, -INF, INF, 2.5]

def gen_values(n, rng, kind="float", specials=True, nan=False):
    if kind == "bool":
        return [rng.random() < 0.5 for _ in range(n)]
    vals = []
    base = list(range(1, n + 1)); rng.shuffle(base)
    for i in range(n):
        v = base[i] / 4.0 * (1 if rng.random() < 0.7 else -1)
        vals.append(v)
    if specials and n > 0:
        for sp in [0.0, INF, -INF] + ([math.nan] if nan else []):
            if rng.random() < 0.45: vals[rng.randrange(n)] = sp
    return vals

def gen_tensor(rng, types=None, kind="float", default=None, dtype=None, pool=None, nan=False,
               max_numel=48, max_phys=64, universe=None, **kw):
    """a random typed patterned tensor spec (dimension types drawn from `universe`, default all_types())"""
    for _ in range(100):
        ts = types if types is not None else gen_shape_types(rng, max_numel=max_numel, types=universe)
        pl = pool.copy() if pool is not None else Pool()
        vaxes, pl = gen_pattern(ts, rng, pl, **kw)
        paxes = fv_list(vaxes)
        if math.prod(n for _, n in paxes) <= max_phys: break
    rng.shuffle(paxes)
    n = math.prod(n for _, n in paxes)
    if kind == "bool":
        d = rng.random() < 0.4 if default is None else default
        dt = "bool"
    else:
        d = rng.choice(DEFAULTS) if default is None else default
        dt = dtype or ("f64" if rng.random() < 0.8 else "f32")
    return dict(types=ts, vaxes=vaxes, paxes=paxes, default=d, dtype=dt,
                values=gen_values(n, rng, kind, nan=nan)), pl

def torch_dtype(dt):
    import torch
    return {"f64": torch.float64, "f32": torch.float32, "bool": torch.bool, "i64": torch.int64}[dt]

def build_tensor(spec, world: World = None):
    import torch
    from fggs.indices import PatternedTensor
    world = world or World()
    paxes = tuple(world.phys(k, n) for k, n in spec["paxes"])
    vaxes = tuple(world.build(e) for e in spec["vaxes"])
    phys = torch.tensor(spec["values"], dtype=torch_dtype(spec["dtype"])).reshape([n for _, n in spec["paxes"]])
    if spec.get("layout"): phys = layout_physical(phys, spec["layout"])
    return PatternedTensor(phys, paxes, vaxes, spec["default"])

# ---------------------------------------------------------------------------- storage layouts of the physical tensor
# The property is about the dense tensor a PatternedTensor DENOTES; how torch stores `physical` (strides, storage
# offset, non-contiguity, stride-0 expansion, overlapping windows) must not matter.  A spec may carry
#   layout = ["offset", pre, post]          0-dim physical: one cell inside a longer buffer
#          | ["expanded", dims, off]        stride 0 along `dims` (a torch .expand() view; PARTIAL when dims is a
#                                           proper subset of the physical dimensions), base at storage offset `off`
#          | ["permuted", perm]             the memory order of the dimensions is perm (non-contiguous, dense)
#          | ["strided", dim, step, phase]  every step-th cell of a larger buffer along dim, starting at phase
#          | ["overlap", a, b]              dimensions a < b have the SAME stride (sliding windows over one buffer:
#                                           cells with equal index sums along a and b share memory)
# add_layout() picks one and rewrites spec["values"] into values the layout can hold (constant along expanded
# dimensions, a function of i_a + i_b for overlapping ones), so that dense_ref / the wire format keep describing
# the logical contents; layout_physical() builds the view and asserts that it reads back exactly those values.
def add_layout(spec, rng):
    sizes = [n for _, n in spec["paxes"]]; nd = len(sizes)
    vals = list(spec["values"])
    if math.prod(sizes) == 0: return spec
    if nd == 0:
        spec["layout"] = ["offset", rng.randrange(3), rng.randrange(2)]
        return spec
    kind = rng.choice(["expanded"] * 5 + ["strided"] * 2 + (["permuted"] * 2 + ["overlap"] * 2 if nd >= 2 else []))
    idxs = list(itertools.product(*[range(n) for n in sizes]))
    pos = {ix: i for i, ix in enumerate(idxs)}
    if kind == "expanded":
        if nd >= 2 and rng.random() < 0.8: dims = sorted(rng.sample(range(nd), rng.randint(1, nd - 1)))
        else: dims = list(range(nd))
        vals = [vals[pos[tuple(0 if d in dims else x for d, x in enumerate(ix))]] for ix in idxs]
        lay = ["expanded", dims, rng.randrange(3)]
    elif kind == "strided":
        lay = ["strided", rng.randrange(nd), rng.choice([2, 3]), rng.randrange(2)]
    elif kind == "permuted":
        perm = list(range(nd))
        while perm == list(range(nd)): rng.shuffle(perm)
        lay = ["permuted", perm]
    else:
        a, b = sorted(rng.sample(range(nd), 2))
        def rep(ix):
            s = ix[a] + ix[b]; ia = min(s, sizes[a] - 1)
            l = list(ix); l[a] = ia; l[b] = s - ia
            return tuple(l)
        vals = [vals[pos[rep(ix)]] for ix in idxs]
        lay = ["overlap", a, b]
    spec["values"] = vals; spec["layout"] = lay
    return spec

def layout_kind(spec):
    lay = spec.get("layout")
    if not lay: return "contiguous"
    if lay[0] == "expanded":
        return "expanded-partial" if len(lay[1]) < len(spec["paxes"]) else "expanded-full"
    return lay[0]

def layout_physical(phys, lay):
    """a tensor equal to phys whose storage is laid out as `lay` says (fresh buffers; unused cells hold junk)"""
    import torch
    kind = lay[0]; sizes = list(phys.shape); nd = len(sizes)
    def junk(shape):
        return torch.full(list(shape), True if phys.dtype == torch.bool else -123.0, dtype=phys.dtype)
    if kind == "offset":
        buf = junk([lay[1] + 1 + lay[2]]); buf[lay[1]] = phys
        out = buf[lay[1]]
    elif kind == "expanded":
        base = phys
        for d in lay[1]: base = base.narrow(d, 0, 1)
        buf = junk([lay[2] + base.numel()]); buf[lay[2]:] = base.reshape(-1)
        out = buf[lay[2]:].view(base.shape).expand(sizes)
    elif kind == "permuted":
        perm = list(lay[1]); inv = [perm.index(i) for i in range(nd)]
        out = phys.permute(perm).contiguous().permute(inv)
    elif kind == "strided":
        d, step, phase = lay[1], lay[2], lay[3]
        shape = list(sizes); shape[d] = sizes[d] * step
        big = junk(shape); ix = (slice(None),) * d + (slice(phase, None, step),)
        big[ix] = phys; out = big[ix]
    elif kind == "overlap":
        a, b = lay[1], lay[2]; na, nb = sizes[a], sizes[b]
        buf = junk([(na + nb - 1 if d == a else n) for d, n in enumerate(sizes) if d != b])
        for s in range(na + nb - 1):
            ia = min(s, na - 1)
            buf.select(a, s).copy_(phys.select(b, s - ia).select(a, ia))
        cs = list(buf.stride())
        out = buf.as_strided(sizes, [cs[a] if d == b else (cs[d] if d < b else cs[d - 1]) for d in range(nd)])
    else:
        raise ValueError("unknown layout %r" % (lay,))
    if not same(out, phys) or list(out.shape) != sizes:
        raise AssertionError("C06 harness: layout %r cannot hold the values of the spec" % (lay,))
    return out

def storage_view(t):
    """(sizes, strides, storage offset, flat storage) of a torch tensor: what the strided-view model of
    Model/Storage.v reads"""
    import torch
    flat = torch.empty(0, dtype=t.dtype).set_(t.untyped_storage())
    return list(t.shape), list(t.stride()), t.storage_offset(), flat

def dense_ref(spec):
    """the dense tensor a spec denotes, computed from the definition (independent of the library)"""
    import torch
    shape = [a_numel(e) for e in spec["vaxes"]]
    d = torch.full(shape, spec["default"], dtype=torch_dtype(spec["dtype"]))
    phys = torch.tensor(spec["values"], dtype=torch_dtype(spec["dtype"])).reshape([n for _, n in spec["paxes"]])
    seen = set()
    for env in all_envs(spec["paxes"]):
        idx = tuple(a_eval(e, env) for e in spec["vaxes"])
        assert idx not in seen, "generator produced a non-injective pattern"
        seen.add(idx)
        d[idx] = phys[tuple(env[k] for k, _ in spec["paxes"])]
    return d

def same(a, b, tol=0.0):
    """exact equality of tensors with NaNs compared as a pattern; tol > 0: relative tolerance on finite cells"""
    import torch
    if a.shape != b.shape or a.dtype != b.dtype: return False
    if a.dtype == torch.bool or not a.dtype.is_floating_point: return bool(torch.equal(a, b))
    an, bn = a.isnan(), b.isnan()
    if not torch.equal(an, bn): return False
    a2 = torch.where(an, torch.zeros_like(a), a); b2 = torch.where(bn, torch.zeros_like(b), b)
    if tol == 0.0: return bool(torch.equal(a2, b2))
    fin = a2.isfinite() & b2.isfinite()
    if not torch.equal(torch.where(fin, torch.zeros_like(a2), a2), torch.where(fin, torch.zeros_like(b2), b2)): return False
    return bool(torch.allclose(torch.where(fin, a2, torch.zeros_like(a2)), torch.where(fin, b2, torch.zeros_like(b2)),
                               rtol=tol, atol=tol))
