"""C04: grammars whose factors are PatternedTensors (diagonal / sum-embedded / one-hot / expanded / product patterns),
rules with 2-3 external nodes over domains of DIFFERENT sizes, nonterminals of arity 2-3.

A *pattern* is plain data (JSON-able):
    dict(psizes=[size of physical axis j], axes=[descriptor per virtual axis], phys=[spec value per physical entry,
         row-major], default=spec value, expanded=[physical axes along which the storage is a stride-0 view],
         route="ctor" | "api", kind=str)
    descriptor:  ["p", j]            the physical axis j  (the same j on two virtual axes = a diagonal)
                 ["s", b, d, a]      SumAxis(b, d, a): indices b .. b+|d|-1 are d's, all others are `default`
                 ["u"]               the unit axis (size 1)
                 ["m", [d1, d2]]     ProductAxis: index i = i1*|d2| + i2
The dense denotation is computed HERE (pat_dense), independently of PatternedTensor.to_dense(); it is what the Coq model
is given, and the harness checks by read-back that to_dense() of the object it built agrees with it.
"""
import itertools, math
from fractions import Fraction
from harness import gen

VALS = [Fraction(1, 4), Fraction(1, 2), Fraction(1)]      # log-weights -2, -1, 0

def d_size(d, psizes):
    if d[0] == "p": return psizes[d[1]]
    if d[0] == "s": return d[1] + d_size(d[2], psizes) + d[3]
    if d[0] == "u": return 1
    if d[0] == "m": return math.prod(d_size(x, psizes) for x in d[1])
    raise ValueError(d)

def d_index(d, i, psizes, phys):
    """virtual index i of axis d -> True and phys updated (physical axis -> index), or False (the entry is `default`)"""
    if d[0] == "p":
        if phys.get(d[1], i) != i: return False
        phys[d[1]] = i; return True
    if d[0] == "s":
        i -= d[1]
        return 0 <= i < d_size(d[2], psizes) and d_index(d[2], i, psizes, phys)
    if d[0] == "u": return i == 0
    if d[0] == "m":
        for x in reversed(d[1]):
            i, r = divmod(i, d_size(x, psizes))
            if not d_index(x, r, psizes, phys): return False
        return True
    raise ValueError(d)

def pat_shape(pat):
    return [d_size(d, pat["psizes"]) for d in pat["axes"]]

def pat_dense(pat):
    """nested list of spec values: the tensor the pattern denotes"""
    ps = pat["psizes"]; shape = pat_shape(pat)
    strides = [math.prod(ps[j + 1:]) for j in range(len(ps))]
    def at(idx):
        phys = {}
        for d, i in zip(pat["axes"], idx):
            if not d_index(d, i, ps, phys): return pat["default"]
        assert len(phys) == len(ps), "pattern with a physical axis that no virtual axis mentions"
        return pat["phys"][sum(phys[j] * strides[j] for j in range(len(ps)))]
    def rec(prefix):
        if len(prefix) == len(shape): return at(prefix)
        return [rec(prefix + [i]) for i in range(shape[len(prefix)])]
    return rec([])

def pat_build(pat, wconv, dtype):
    """the PatternedTensor (route 'ctor': the dataclass constructor with explicit paxes/vaxes; route 'api': the same
    pattern put together from a dense PatternedTensor with eye-style constructor calls is not offered by the library, so
    'api' differs only in how stride-0 storage and size-1 axes come about: expand() / unsqueeze() of the library)"""
    import torch
    from fggs.indices import PatternedTensor, PhysicalAxis, SumAxis, ProductAxis, productAxis, unitAxis
    ps = pat["psizes"]
    t = torch.tensor([wconv(v) for v in pat["phys"]], dtype=dtype).reshape(ps)
    for j in pat.get("expanded", []):
        t = t.select(j, 0).unsqueeze(j).expand(ps)          # stride 0 along j (the values are constant along j)
    ks = [PhysicalAxis(n) for n in ps]                        # a PhysicalAxis of size 1 is erased by __post_init__
    def ax(d):
        if d[0] == "p": return ks[d[1]]
        if d[0] == "s": return SumAxis(d[1], ax(d[2]), d[3])
        if d[0] == "u": return unitAxis
        return productAxis([ax(x) for x in d[1]]) if pat.get("route") == "api" else ProductAxis(tuple(ax(x) for x in d[1]))
    return PatternedTensor(t, tuple(ks), tuple(ax(d) for d in pat["axes"]), default=wconv(pat["default"]))

def pat_jsonable(pat):
    return dict(pat, phys=[str(v) for v in pat["phys"]], default=str(pat["default"]))

def pat_from_json(p):
    return dict(p, phys=[Fraction(v) for v in p["phys"]], default=Fraction(p["default"]))

# ---------------------------------------------------------------------------------------------------------------
def label_types(rng):
    """node labels with their INDEX TYPE.  The library requires that all tensors indexed by the same node label are typed
    alike there (Axis.unify warns 'index type mismatch' otherwise: SumAxes with different before/after, a ProductAxis
    against a SumAxis), so the type is fixed per label:  ("atom", n) | ("sum", b, m, a)  (size b+m+a, the stored part is
    an atom of size m; m = 1 is a one-hot) | ("prod", 2, 2)  (size 4).  Returns (sizes, types); the first two labels share
    the size of their stored part (the 'core'), so that a diagonal can tie an axis of size m to one of size b+m+a."""
    c = rng.choice([2, 2, 3, 3, 1])
    def sum_of(c):
        extra = rng.randint(1, 4 - c) if c < 4 else 0
        b = rng.randint(0, extra); return ("sum", b, c, extra - b)
    types = [("atom", c) if c > 1 or rng.random() < 0.5 else sum_of(1)]
    r = rng.random()
    types.append(sum_of(c) if r < 0.6 else (("atom", c) if r < 0.8 else ("atom", rng.choice([n for n in (2, 3, 4) if n != c]))))
    if rng.random() < 0.45:
        r = rng.random()
        types.append(("prod", 2, 2) if r < 0.3 else (sum_of(rng.choice([1, 2, c])) if r < 0.65 else ("atom", rng.randint(1, 4))))
    rng.shuffle(types)
    return [t[1] if t[0] == "atom" else (4 if t[0] == "prod" else t[1] + t[2] + t[3]) for t in types], types

def random_pattern(rng, ltypes):
    """a pattern whose virtual axes have the given label types.  None = leave the factor an ordinary dense torch tensor."""
    n = len(ltypes)
    if n == 0 or rng.random() < 0.12: return None
    psizes = []; axes = [None] * n; expanded = []; kinds = []
    def new_p(size):
        psizes.append(size); return len(psizes) - 1
    def core(t): return t[1] if t[0] == "atom" else (t[2] if t[0] == "sum" else None)
    def sparse(t, j): return ["p", j] if t[0] == "atom" else ["s", t[1], ["p", j], t[3]]
    def full(t): return t[1] if t[0] == "atom" else (4 if t[0] == "prod" else t[1] + t[2] + t[3])
    todo = list(range(n)); rng.shuffle(todo)
    # a diagonal: two (or three) virtual axes share ONE physical axis; on a sum-typed label it is embedded (sizes differ)
    by_core = {}
    for a in todo:
        if core(ltypes[a]) is not None: by_core.setdefault(core(ltypes[a]), []).append(a)
    groups = [g for c, g in sorted(by_core.items()) if len(g) >= 2]
    if groups and rng.random() < 0.8:
        g = rng.choice(groups); grp = g[:3] if (len(g) >= 3 and rng.random() < 0.35) else g[:2]
        j = new_p(core(ltypes[grp[0]]))
        for a in grp: axes[a] = sparse(ltypes[a], j)
        todo = [a for a in todo if a not in grp]
        kinds.append("diag%d%s" % (len(grp), "_embedded" if any(ltypes[a][0] == "sum" for a in grp) else ""))
    prods = [a for a in todo if ltypes[a][0] == "prod"]
    if len(prods) >= 2 and rng.random() < 0.5:
        j1, j2 = new_p(2), new_p(2)
        for a in prods[:2]: axes[a] = ["m", [["p", j1], ["p", j2]]]
        todo = [a for a in todo if a not in prods[:2]]; kinds.append("diag2_product")
    for a in todo:
        t = ltypes[a]; r = rng.random()
        if t[0] == "prod" and r < 0.7:
            axes[a] = ["m", [["p", new_p(2)], ["p", new_p(2)]]]; kinds.append("product")
        elif t[0] == "sum" and r < 0.6:
            axes[a] = sparse(t, new_p(t[2])); kinds.append("onehot" if t[2] == 1 else "embedded")
        elif full(t) >= 2 and r < 0.8:               # expanded: stride-0 storage along a dense axis
            j = new_p(full(t)); axes[a] = ["p", j]; expanded.append(j); kinds.append("expanded")
        elif full(t) == 1 and r < 0.5:
            axes[a] = ["u"]; kinds.append("unit")
        else:
            axes[a] = ["p", new_p(full(t))]; kinds.append("dense_axis")
    # values: finite (so that the sparsity alone decides which derivations exist), rarely -inf inside the storage
    cnt = math.prod(psizes)
    phys = [rng.choice(VALS) if rng.random() < 0.93 else Fraction(0) for _ in range(cnt)]
    if expanded:
        strides = [math.prod(psizes[j + 1:]) for j in range(len(psizes))]
        for k in range(cnt):
            idx = [(k // strides[j]) % psizes[j] for j in range(len(psizes))]
            k0 = sum((0 if j in expanded else idx[j]) * strides[j] for j in range(len(psizes)))
            phys[k] = phys[k0]
    sparse_pat = any(k.startswith(("diag", "embedded", "onehot")) for k in kinds)
    default = Fraction(0) if (not sparse_pat or rng.random() < 0.85) else Fraction(1, 4)     # -inf; rarely a finite default (-2)
    return dict(psizes=psizes, axes=axes, phys=phys, default=default, expanded=expanded,
                route=rng.choice(["ctor", "api"]), kind="+".join(sorted(kinds)))

def pattern_spec(rng, recursive=False):
    """(spec, pats): nonterminals of arity 2-3 (the start symbol too, so every start assignment is a query), 2-3 node
    labels with different domain sizes, every rule with 2-3 external nodes and 0-2 internal ones; each internal node is
    attached to a terminal edge that also visits an external node; terminal weights come from random_pattern."""
    nlabels, ltypes = label_types(rng); n_nl = len(nlabels)
    n_nt = rng.choice([1, 2, 2, 3])
    elabels = [dict(term=False, type=[rng.randrange(n_nl) for _ in range(rng.choice([2, 2, 3]))]) for _ in range(n_nt)]
    rules = []; feats = set(["patterned"])
    tpool = {}                                           # type (tuple) -> [terminal label]
    def terminal(ty):
        ty = tuple(ty)
        if ty in tpool and rng.random() < 0.4: return rng.choice(tpool[ty])
        elabels.append(dict(term=True, type=list(ty))); tpool.setdefault(ty, []).append(len(elabels) - 1)
        return len(elabels) - 1
    CAP = 220                                            # assignments per rule (the model enumerates them)
    for x in range(n_nt):
        kids = list(range(x + 1, n_nt))
        plans = ["base"] if not kids else rng.choice([["kid"], ["kid", "base"], ["base", "kid"]])
        if recursive and x == n_nt - 1: plans = rng.choice([["rec", "base"], ["base", "rec"]])
        for plan in plans:
            nodes = list(elabels[x]["type"]); ext = list(range(len(nodes))); edges = []
            def size(): return math.prod(nlabels[l] for l in nodes)
            for _ in range(rng.choice([0, 1, 1, 1, 2])):
                l = rng.randrange(n_nl)
                if size() * nlabels[l] > CAP: break
                nodes.append(l); v = len(nodes) - 1
                att = [v, rng.choice(ext)]
                if rng.random() < 0.25: att.append(rng.choice([i for i in range(len(nodes)) if i not in att] or [att[1]]))
                att = list(dict.fromkeys(att)); rng.shuffle(att)
                edges.append((terminal([nodes[i] for i in att]), att))
            if plan in ("kid", "rec"):
                y = x if plan == "rec" else rng.choice(kids)
                att = []
                for l in elabels[y]["type"]:
                    cands = [i for i, ll in enumerate(nodes) if ll == l and i not in att]
                    # prefer internal nodes for a recursive edge (otherwise X(a,b) -> X(a,b) adds nothing)
                    ints = [i for i in cands if i not in ext]
                    if plan == "rec" and ints and rng.random() < 0.8: cands = ints
                    if not cands or (plan == "rec" and not ints and size() * nlabels[l] <= CAP and rng.random() < 0.7):
                        allc = [i for i, ll in enumerate(nodes) if ll == l]
                        if size() * nlabels[l] <= CAP or not allc: nodes.append(l); cands = [len(nodes) - 1]
                        else: cands = allc
                    att.append(rng.choice(cands))
                edges.append((y, att))
            # further terminal edges over the externals (so that >= 2 external nodes are connected) and the rest
            for _ in range(rng.choice([1, 1, 2])):
                k = rng.choice([1, 2, 2, 3]); k = min(k, len(nodes))
                att = rng.sample(range(len(nodes)), k)
                if rng.random() < 0.6 and len(ext) >= 2 and k >= 2: att[:2] = rng.sample(ext, 2); att = list(dict.fromkeys(att))
                edges.append((terminal([nodes[i] for i in att]), att))
            # nodes attached to nothing: attach them (an unattached internal node only multiplies ties)
            used = {i for _, att in edges for i in att}
            for i in range(len(nodes)):
                if i not in used and (i not in ext or rng.random() < 0.7):
                    edges.append((terminal([nodes[i]]), [i]))
            rng.shuffle(edges)
            rules.append(dict(lhs=x, nodes=nodes, edges=edges, ext=ext))
            if plan == "rec": feats.add("patterned_recursive")
    pats = {}; weights = {}
    for el, e in enumerate(elabels):
        if not e["term"]: continue
        shape = [nlabels[l] for l in e["type"]]
        p = random_pattern(rng, [ltypes[l] for l in e["type"]])
        if p is None:
            weights[el] = gen.nested(shape, lambda: rng.choice(VALS) if rng.random() < 0.9 else Fraction(0))
            feats.add("pat:plain_tensor")
        else:
            assert pat_shape(p) == shape, (p, shape)
            pats[el] = p; weights[el] = pat_dense(p)
            for k in p["kind"].split("+"): feats.add("pat:" + k)
            if p["default"] != 0: feats.add("pat:finite_default")
    if len(set(nlabels)) == len(nlabels): feats.add("domains_all_different_sizes")
    for t in ltypes: feats.add("label_type:" + t[0])
    spec = dict(nlabels=nlabels, elabels=elabels, start=0, rules=rules, weights=weights, features=sorted(feats), recursive=recursive)
    return spec, pats

def tied_internal(spec, pats):
    """number of (rule, edge) pairs whose patterned factor ties an INTERNAL node of the rule to an EXTERNAL one through
    a shared physical axis, in a rule with >= 2 external nodes (the shape the physical->virtual pointer translation of
    log_viterbi_einsum_forward has to get right)"""
    def paxes(d):
        if d[0] == "p": return {d[1]}
        if d[0] == "s": return paxes(d[2])
        if d[0] == "m": return set().union(*[paxes(x) for x in d[1]])
        return set()
    n = 0
    for r in spec["rules"]:
        if len(set(r["ext"])) < 2: continue
        for el, att in r["edges"]:
            p = pats.get(el)
            if p is None: continue
            for a in range(len(att)):
                for b in range(len(att)):
                    if att[a] in r["ext"] and att[b] not in r["ext"] and paxes(p["axes"][a]) & paxes(p["axes"][b]): n += 1
    return n
