"""C04: grammars whose factors are PatternedTensors (diagonal / sum-embedded / one-hot / expanded / product patterns),
rules with 2-3 external nodes over domains of DIFFERENT sizes, nonterminals of arity 2-3.

A *pattern* is plain data (JSON-able):
    dict(psizes=[size of physical axis j], axes=[descriptor per virtual axis], phys=[spec value per physical entry,
         row-major], default=spec value, expanded=[physical axes along which the storage is a stride-0 view],
         route="ctor" | "api", kind=str)
    descriptor:  ["p", j]            the physical axis j  (the same j on two virtual axes = a diagonal)
                 ["s", b, d, a]      SumAxis(b, d, a): indices b .. b+|d|-1 are d's, all others are `default`
                 ["u"]               the unit axis (size 1)
                 ["m", [d1, d2]]     ProductAxis: index i = i1*|d2| + i2
The dense denotation is computed HERE (pat_dense), independently of PatternedTensor.to_dense(); it is what the Coq model
is given, and the harness checks by read-back that to_dense() of the object it built agrees with it.
"""
import itertools, math
from fractions import Fraction
from harness import gen

VALS = [Fraction(1, 4), Fraction(1, 2), Fraction(1)]      # log-weights -2, -1, 0

def d_size(d, psizes):
    if d[0] == "p": return psizes[d[1]]
    if d[0] == "s": return d[1] + d_size(d[2], psizes) + d[3]
    if d[0] == "u": return 1
    if d[0] == "m": return math.prod(d_size(x, psizes) for x in d[1])
    raise ValueError(d)

def d_index(d, i, psizes, phys):
    """virtual index i of axis d -> True and phys updated (physical axis -> index), or False (the entry is `default`)"""
    if d[0] == "p":
        if phys.get(d[1], i) != i: return False
        phys[d[1]] = i; return True
    if d[0] == "s":
        i -= d[1]
        return 0 <= i < d_size(d[2], psizes) and d_index(d[2], i, psizes, phys)
    if d[0] == "u": return i == 0
    if d[0] == "m":
        for x in reversed(d[1]):
            i, r = divmod(i, d_size(x, psizes))
            if not d_index(x, r, psizes, phys): return False
        return True
    raise ValueError(d)

def pat_shape(pat):
    return [d_size(d, pat["psizes"]) for d in pat["axes"]]

def pat_dense(pat):
    """nested list of spec values: the tensor the pattern denotes"""
    ps = pat["psizes"]; shape = pat_shape(pat)
    strides = [math.prod(ps[j + 1:]) for j in range(len(ps))]
    def at(idx):
        phys = {}
        for d, i in zip(pat["axes"], idx):
            if not d_index(d, i, ps, phys): return pat["default"]
        assert len(phys) == len(ps), "pattern with a physical axis that no virtual axis mentions"
        return pat["phys"][sum(phys[j] * strides[j] for j in range(len(ps)))]
    def rec(prefix):
        if len(prefix) == len(shape): return at(prefix)
        return [rec(prefix + [i]) for i in range(shape[len(prefix)])]
    return rec([])

def pat_build(pat, wconv, dtype):
    """the PatternedTensor (route 'ctor': the dataclass constructor with explicit paxes/vaxes; route 'api': the same
    pattern put together from a dense PatternedTensor with eye-style constructor calls is not offered by the library, so
    'api' differs only in how stride-0 storage and size-1 axes come about: expand() / unsqueeze() of the library)"""
    import torch
    from fggs.indices import PatternedTensor, PhysicalAxis, SumAxis, ProductAxis, productAxis, unitAxis
    ps = pat["psizes"]
    t = torch.tensor([wconv(v) for v in pat["phys"]], dtype=dtype).reshape(ps)
    for j in pat.get("expanded", []):
        t = t.select(j, 0).unsqueeze(j).expand(ps)          # stride 0 along j (the values are constant along j)
    ks = [PhysicalAxis(n) for n in ps]                        # a PhysicalAxis of size 1 is erased by __post_init__
    def ax(d):
        if d[0] == "p": return ks[d[1]]
        if d[0] == "s": return SumAxis(d[1], ax(d[2]), d[3])
        if d[0] == "u": return unitAxis
        return productAxis([ax(x) for x in d[1]]) if pat.get("route") == "api" else ProductAxis(tuple(ax(x) for x in d[1]))
    return PatternedTensor(t, tuple(ks), tuple(ax(d) for d in pat["axes"]), default=wconv(pat["default"]))

def pat_jsonable(pat):
    return dict(pat, phys=[str(v) for v in pat["phys"]], default=str(pat["default"]))

def pat_from_json(p):
    return dict(p, phys=[Fraction(v) for v in p["phys"]], default=Fraction(p["default"]))

# ---------------------------------------------------------------------------------------------------------------
def random_pattern(rng, shape):
    """a pattern of the given virtual shape.  Returns None for 'leave this factor an ordinary dense torch tensor'."""
    n = len(shape)
    if n == 0 or rng.random() < 0.12: return None
    psizes = []; axes = [None] * n; expanded = []; kinds = []
    def new_p(size):
        psizes.append(size); return len(psizes) - 1
    todo = list(range(n)); rng.shuffle(todo)
    # tie two (or three) virtual axes to ONE physical axis: a diagonal, embedded on the larger side when the sizes differ
    if n >= 2 and rng.random() < 0.75:
        grp = todo[:3] if (n >= 3 and rng.random() < 0.3) else todo[:2]
        todo = [a for a in todo if a not in grp]
        m = min(shape[a] for a in grp)
        if m >= 2 and rng.random() < 0.15: m = rng.randint(1, m - 1)          # a shorter diagonal, embedded on every side
        j = new_p(m)
        for a in grp:
            extra = shape[a] - m
            if extra == 0: axes[a] = ["p", j]
            else:
                b = rng.randint(0, extra); axes[a] = ["s", b, ["p", j], extra - b]
        kinds.append("diag%d%s" % (len(grp), "_embedded" if any(shape[a] != m for a in grp) else ""))
    for a in todo:
        s = shape[a]; r = rng.random()
        if s >= 2 and r < 0.22:                      # one-hot: only one index is not default
            b = rng.randrange(s); axes[a] = ["s", b, ["u"], s - 1 - b]; kinds.append("onehot")
        elif s >= 2 and r < 0.45:                    # a smaller physical axis embedded in the virtual one
            m = rng.randint(1, s - 1); b = rng.randint(0, s - m); axes[a] = ["s", b, ["p", new_p(m)], s - m - b]; kinds.append("embedded")
        elif s >= 2 and r < 0.62:                    # expanded: stride-0 storage
            j = new_p(s); axes[a] = ["p", j]; expanded.append(j); kinds.append("expanded")
        elif s == 4 and r < 0.8:                     # a product of two physical axes
            axes[a] = ["m", [["p", new_p(2)], ["p", new_p(2)]]]; kinds.append("product")
        elif s == 1 and r < 0.5:
            axes[a] = ["u"]; kinds.append("unit")
        else:
            axes[a] = ["p", new_p(s)]; kinds.append("dense_axis")
    # values: finite (so that the sparsity alone decides which derivations exist), rarely -inf inside the storage
    cnt = math.prod(psizes)
    phys = [rng.choice(VALS) if rng.random() < 0.93 else Fraction(0) for _ in range(cnt)]
    if expanded:
        strides = [math.prod(psizes[j + 1:]) for j in range(len(psizes))]
        for k in range(cnt):
            idx = [(k // strides[j]) % psizes[j] for j in range(len(psizes))]
            k0 = sum((0 if j in expanded else idx[j]) * strides[j] for j in range(len(psizes)))
            phys[k] = phys[k0]
    sparse = any(d[0] == "s" for d in axes) or len({d[1] for d in axes if d[0] == "p"}) < sum(1 for d in axes if d[0] == "p")
    default = Fraction(0) if (not sparse or rng.random() < 0.85) else Fraction(1, 4)     # -inf; rarely a finite default (-2)
    return dict(psizes=psizes, axes=axes, phys=phys, default=default, expanded=expanded,
                route=rng.choice(["ctor", "api"]), kind="+".join(sorted(kinds)))

def pattern_spec(rng, recursive=False):
    """(spec, pats): nonterminals of arity 2-3 (the start symbol too, so every start assignment is a query), 2-3 node
    labels with different domain sizes, every rule with 2-3 external nodes and 0-2 internal ones; each internal node is
    attached to a terminal edge that also visits an external node; terminal weights come from random_pattern."""
    n_nl = rng.choice([2, 2, 3])
    nlabels = rng.sample([2, 3, 4], n_nl)
    r = rng.random()
    if r < 0.15: nlabels[rng.randrange(n_nl)] = 1
    elif r < 0.35: nlabels[1] = nlabels[0]             # two different labels with domains of the same size
    n_nt = rng.choice([1, 2, 2, 3])
    elabels = [dict(term=False, type=[rng.randrange(n_nl) for _ in range(rng.choice([2, 2, 3]))]) for _ in range(n_nt)]
    rules = []; feats = set(["patterned"])
    tpool = {}                                           # type (tuple) -> [terminal label]
    def terminal(ty):
        ty = tuple(ty)
        if ty in tpool and rng.random() < 0.4: return rng.choice(tpool[ty])
        elabels.append(dict(term=True, type=list(ty))); tpool.setdefault(ty, []).append(len(elabels) - 1)
        return len(elabels) - 1
    CAP = 220                                            # assignments per rule (the model enumerates them)
    for x in range(n_nt):
        kids = list(range(x + 1, n_nt))
        plans = ["base"] if not kids else rng.choice([["kid"], ["kid", "base"], ["base", "kid"]])
        if recursive and x == n_nt - 1: plans = rng.choice([["rec", "base"], ["base", "rec"]])
        for plan in plans:
            nodes = list(elabels[x]["type"]); ext = list(range(len(nodes))); edges = []
            def size(): return math.prod(nlabels[l] for l in nodes)
            for _ in range(rng.choice([0, 1, 1, 1, 2])):
                l = rng.randrange(n_nl)
                if size() * nlabels[l] > CAP: break
                nodes.append(l); v = len(nodes) - 1
                att = [v, rng.choice(ext)]
                if rng.random() < 0.25: att.append(rng.choice([i for i in range(len(nodes)) if i not in att] or [att[1]]))
                att = list(dict.fromkeys(att)); rng.shuffle(att)
                edges.append((terminal([nodes[i] for i in att]), att))
            if plan in ("kid", "rec"):
                y = x if plan == "rec" else rng.choice(kids)
                att = []
                for l in elabels[y]["type"]:
                    cands = [i for i, ll in enumerate(nodes) if ll == l and i not in att]
                    # prefer internal nodes for a recursive edge (otherwise X(a,b) -> X(a,b) adds nothing)
                    ints = [i for i in cands if i not in ext]
                    if plan == "rec" and ints and rng.random() < 0.8: cands = ints
                    if not cands or (plan == "rec" and not ints and size() * nlabels[l] <= CAP and rng.random() < 0.7):
                        allc = [i for i, ll in enumerate(nodes) if ll == l]
                        if size() * nlabels[l] <= CAP or not allc: nodes.append(l); cands = [len(nodes) - 1]
                        else: cands = allc
                    att.append(rng.choice(cands))
                edges.append((y, att))
            # further terminal edges over the externals (so that >= 2 external nodes are connected) and the rest
            for _ in range(rng.choice([1, 1, 2])):
                k = rng.choice([1, 2, 2, 3]); k = min(k, len(nodes))
                att = rng.sample(range(len(nodes)), k)
                if rng.random() < 0.6 and len(ext) >= 2 and k >= 2: att[:2] = rng.sample(ext, 2); att = list(dict.fromkeys(att))
                edges.append((terminal([nodes[i] for i in att]), att))
            # nodes attached to nothing: attach them (an unattached internal node only multiplies ties)
            used = {i for _, att in edges for i in att}
            for i in range(len(nodes)):
                if i not in used and (i not in ext or rng.random() < 0.7):
                    edges.append((terminal([nodes[i]]), [i]))
            rng.shuffle(edges)
            rules.append(dict(lhs=x, nodes=nodes, edges=edges, ext=ext))
            if plan == "rec": feats.add("patterned_recursive")
    pats = {}; weights = {}
    for el, e in enumerate(elabels):
        if not e["term"]: continue
        shape = [nlabels[l] for l in e["type"]]
        p = random_pattern(rng, shape)
        if p is None:
            weights[el] = gen.nested(shape, lambda: rng.choice(VALS) if rng.random() < 0.9 else Fraction(0))
            feats.add("pat:plain_tensor")
        else:
            assert pat_shape(p) == shape, (p, shape)
            pats[el] = p; weights[el] = pat_dense(p)
            for k in p["kind"].split("+"): feats.add("pat:" + k)
            if p["default"] != 0: feats.add("pat:finite_default")
    if len(set(nlabels)) == len(nlabels): feats.add("domains_all_different_sizes")
    spec = dict(nlabels=nlabels, elabels=elabels, start=0, rules=rules, weights=weights, features=sorted(feats), recursive=recursive)
    return spec, pats

def tied_internal(spec, pats):
    """number of (rule, edge) pairs whose patterned factor ties an INTERNAL node of the rule to an EXTERNAL one through
    a shared physical axis, in a rule with >= 2 external nodes (the shape the physical->virtual pointer translation of
    log_viterbi_einsum_forward has to get right)"""
    def paxes(d):
        if d[0] == "p": return {d[1]}
        if d[0] == "s": return paxes(d[2])
        if d[0] == "m": return set().union(*[paxes(x) for x in d[1]])
        return set()
    n = 0
    for r in spec["rules"]:
        if len(set(r["ext"])) < 2: continue
        for el, att in r["edges"]:
            p = pats.get(el)
            if p is None: continue
            for a in range(len(att)):
                for b in range(len(att)):
                    if att[a] in r["ext"] and att[b] not in r["ext"] and paxes(p["axes"][a]) & paxes(p["axes"][b]): n += 1
    return n
