"""C02 -- recursive FGGs: least fixed point, or a warning / ValueError."""
import random, json, warnings
from fractions import Fraction
from harness.core import *
from harness import gen
from harness.props._sp_util import *
from harness.props import _c02_tol

PID = "C02"
LEVEL = "proof"
OBS_REAL = Tup(Bool, Bool, Bool, List(Tup(Nat, List(RealB))))
OBS_TROP = Tup(Bool, Bool, Bool, List(Tup(Nat, List(TropB))))
OBS_BOOL = Tup(Bool, Bool, Bool, List(Tup(Nat, List(Bool))))
OPTS = Tup(Nat, Nat, QQ)
CF = {
    "real": CheckFn("fp-real", "Model.Kleene", "fp_check_real", Tup(GrammarT, List(Tup(Nat, List(RealW))), OPTS, Nat, OBS_REAL)),
    "trop": CheckFn("fp-trop", "Model.Kleene", "fp_check_trop", Tup(GrammarT, List(Tup(Nat, List(TropV))), OPTS, Nat, OBS_TROP)),
    "bool": CheckFn("fp-bool", "Model.Kleene", "fp_check_bool", Tup(GrammarT, List(Tup(Nat, List(Bool))), OPTS, Nat, OBS_BOOL)),
}
NOBS = {"real": List(Tup(Nat, List(RealB))), "trop": List(Tup(Nat, List(TropB))), "bool": List(Tup(Nat, List(Bool)))}
CF.update({
    "nreal": CheckFn("newton-real", "Model.Newton", "newton_check_real", Tup(GrammarT, List(Tup(Nat, List(RealW))), Nat, NOBS["real"])),
    "ntrop": CheckFn("newton-trop", "Model.Newton", "newton_check_trop", Tup(GrammarT, List(Tup(Nat, List(TropV))), Nat, NOBS["trop"])),
    "nbool": CheckFn("newton-bool", "Model.Newton", "newton_check_bool", Tup(GrammarT, List(Tup(Nat, List(Bool))), Nat, NOBS["bool"])),
})
CHECKFNS = list(CF.values()) + _c02_tol.CHECKFNS
ASSUMPTIONS = [
    "Real/Log values are judged against a certified enclosure [lo, u] of the least fixed point computed in exact rational arithmetic: lo = K rounded-down Kleene steps, u = inflated lo verified to be a pre-fixed point (Park); grammars for which no enclosure is found (near-critical or divergent) are discarded and counted",
    "only the direction 'budget exhausted => warning' is checked (the property does not forbid extra warnings)",
    "float32 is not exercised for recursive grammars",
    "tolerance-ladder stream (harness/props/_c02_tol.py): nullary grammars X -> X X c | a X | b with dyadic weights, float64 only, Real and Log; the Log semiring's stopping distance is converted to an absolute one ((e^tol - 1) * x*) and the rounding allowances (1e-12 x* Real, 2e-11 x* Log; residual allowance 1% of tol + 1e-13 x* for the critical family; eps = 1e-11/(1-L), x20 for Log, for mag_check) are computed in Python and trusted; the pass-count estimate behind 'no warning may be issued' (kmax = 4 x estimate + 100) is computed in Python from the proved contraction (L^k x*, critical: 1/(c k)); rungs below 1e-12 x the value's magnitude and rungs needing more than 2500 passes (quick tier) are dropped, so critical grammars are run with fixed-point only at tol >= 1e-4..1e-6 and with newton down to 1e-12; vector / block systems at a ladder of tolerances are C11's vtol stream (single tol each), not repeated here",
    "linear-system stream: Real/Log weights are damped by 1/4 and about half the cells are exact zeros so that most systems are sub-critical; systems for which no enclosure is certified are discarded and counted (value_checks_inconclusive_discarded); Viterbi weights are <= 0 in the log domain (no positive cycles)",
    "Newton stream: the implementation is run with kmax in {1,2,3} and tol = 1e-300 (Bool: 0), so that the stop test can only fire at an exact fixed point, where further passes change nothing (C02_newton_stationary); its unconverged result is compared inside Coq with the model's exact kmax-th Newton iterate (Real/Log: rtol 1e-6, atol 1e-9; Viterbi 1e-9; Bool exact) and with the kmax-th Kleene iterate as lower bound (C02_newton_sandwich)",
]
METHODS = ["fixed-point", "newton", "linear"]
CONFIGS2 = [SR("real", "float64", Fraction(1, 4)), SR("log", "float64", Fraction(1, 4)), SR("viterbi", "float64"), SR("bool", "bool")]
K_ENCL = 120

def run_impl(spec, sr, method, tol, kmax, ids="explicit", rng=None, rtol=None, atol=None, patterned=False, staged=False):
    """returns (raised, warned, {nt: [obs]})"""
    import fggs
    def stage(g):
        with warnings.catch_warnings():
            warnings.simplefilter("ignore")
            fggs.sum_products(g, method=method, semiring=sr.semiring(), tol=tol, kmax=kmax)
    b = gen.build_fgg(spec, sr.wconv, ids=ids, rng=rng, dtype=sr.torch_dtype(), patterned=patterned, stage=stage if staged else None)
    with warnings.catch_warnings(record=True) as wl:
        warnings.simplefilter("always")
        try:
            res = fggs.sum_products(b.fgg, method=method, semiring=sr.semiring(), tol=tol, kmax=kmax)
        except ValueError as e:
            if "not linearly recursive" in str(e):
                return True, False, {}
            raise
    warned = any("maximum iteration exceeded" in str(w.message) for w in wl)
    out = {}
    for i, e in enumerate(spec["elabels"]):
        if e["term"] or b.els[i] not in res: continue
        out[i] = [sr.obs(x, rtol, atol) if sr.name != "bool" else sr.obs(x) for x in dense_list(res[b.els[i]])]
    return False, warned, out

# ---- Newton stream: the unconverged result after exactly kmax passes against newton_iter kmax ----
def _nullary(w): return w
def forced_newton_specs():
    """hand-written non-linear recursive shapes"""
    F = Fraction
    def el(term, ty): return dict(term=term, type=ty)
    out = []
    # X -> X X a | b (nullary)
    out.append(dict(nlabels=[2], elabels=[el(False, []), el(True, []), el(True, [])], start=0,
        rules=[dict(lhs=0, nodes=[], edges=[(0, []), (0, []), (1, [])], ext=[]), dict(lhs=0, nodes=[], edges=[(2, [])], ext=[])],
        weights={1: F(1), 2: F(1, 2)}, features=["forced:XXa|b"], recursive=True))
    # cubic: X -> X X X a | b
    out.append(dict(nlabels=[2], elabels=[el(False, []), el(True, []), el(True, [])], start=0,
        rules=[dict(lhs=0, nodes=[], edges=[(0, []), (0, []), (0, []), (1, [])], ext=[]), dict(lhs=0, nodes=[], edges=[(2, [])], ext=[])],
        weights={1: F(1), 2: F(1, 2)}, features=["forced:XXXa|b"], recursive=True))
    # X(n) -> X(n) X(m) t(n,m) | u(n): arity 1, domain 2
    out.append(dict(nlabels=[2], elabels=[el(False, [0]), el(True, [0, 0]), el(True, [0])], start=0,
        rules=[dict(lhs=0, nodes=[0, 0], edges=[(0, [0]), (0, [1]), (1, [0, 1])], ext=[0]), dict(lhs=0, nodes=[0], edges=[(2, [0])], ext=[0])],
        weights={1: [[F(1), F(1, 2)], [F(1, 4), F(1)]], 2: [F(1, 2), F(1)]}, features=["forced:arity1"], recursive=True))
    # mutual: S -> X ; X -> Y Y a | b ; Y -> X c | d  (S one-step on top of a non-linear SCC {X, Y})
    out.append(dict(nlabels=[2], elabels=[el(False, []), el(False, []), el(False, []), el(True, []), el(True, []), el(True, []), el(True, [])], start=0,
        rules=[dict(lhs=0, nodes=[], edges=[(1, [])], ext=[]),
               dict(lhs=1, nodes=[], edges=[(2, []), (2, []), (3, [])], ext=[]), dict(lhs=1, nodes=[], edges=[(4, [])], ext=[]),
               dict(lhs=2, nodes=[], edges=[(1, []), (5, [])], ext=[]), dict(lhs=2, nodes=[], edges=[(6, [])], ext=[])],
        weights={3: F(1), 4: F(1, 2), 5: F(1), 6: F(1, 4)}, features=["forced:mutual"], recursive=True))
    # a linear SCC feeding a non-linear one: Y -> Y a | b ; X -> X X Y | Y
    out.append(dict(nlabels=[2], elabels=[el(False, []), el(False, []), el(True, []), el(True, [])], start=0,
        rules=[dict(lhs=0, nodes=[], edges=[(0, []), (0, []), (1, [])], ext=[]), dict(lhs=0, nodes=[], edges=[(1, [])], ext=[]),
               dict(lhs=1, nodes=[], edges=[(1, []), (2, [])], ext=[]), dict(lhs=1, nodes=[], edges=[(3, [])], ext=[])],
        weights={2: F(1), 3: F(1, 2)}, features=["forced:linear-below-nonlinear"], recursive=True))
    return out

def nonlinear_comps(spec):
    """number of SCCs of the nonterminal graph with a rule having >= 2 edges labelled inside the SCC"""
    nts = [i for i, e in enumerate(spec["elabels"]) if not e["term"]]
    succ = {x: set() for x in nts}
    for r in spec["rules"]:
        for el, _ in r["edges"]:
            if not spec["elabels"][el]["term"]: succ[r["lhs"]].add(el)
    reach = {x: {x} for x in nts}
    changed = True
    while changed:
        changed = False
        for x in nts:
            new = set(reach[x])
            for y in list(reach[x]): new |= succ[y]
            if new != reach[x]: reach[x] = new; changed = True
    comps = {frozenset(y for y in nts if y in reach[x] and x in reach[y]) for x in nts}
    return sum(1 for c in comps if any(sum(1 for el, _ in r["edges"] if el in c) >= 2 for r in spec["rules"] if r["lhs"] in c))

NEWTON_SRS = [SR("real", "float64", Fraction(1, 4)), SR("bool", "bool"), SR("log", "float64", Fraction(1, 4)), SR("viterbi", "float64")]
NCF = {"real": "nreal", "trop": "ntrop", "bool": "nbool"}

def newton_case(spec, sr, kmax, ids="explicit", rng=None, patterned=False):
    """run method='newton' with budget kmax and a stop test that can only fire at an exact fixed point"""
    tol = 0 if sr.name == "bool" else 1e-300
    raised, warned, out = run_impl(spec, sr, "newton", tol, kmax, ids=ids, rng=rng,
                                   rtol=Fraction(1, 10**6) if sr.name in ("real", "log") else Fraction(1, 10**9),
                                   atol=Fraction(1, 10**9), patterned=patterned)
    return (grammar_wire(spec), weights_wire(spec, sr), kmax, sorted(out.items())), warned

def newton_stream(tier, seed, violations):
    rng = random.Random(seed * 31 + 7)
    n = int(os.environ.get("VERIF_N_NEWTON", 0)) or (55 if tier == "quick" else 500)
    specs = forced_newton_specs()
    # non-linear SCCs of several non-scalar nonterminals: Newton's inner multi_solve eliminates matrix blocks
    for _ in range(int(os.environ.get("VERIF_N_NEWTON_LINSYS", 0)) or (10 if tier == "quick" else n // 5)):
        specs.append(gen.linear_system_spec(rng, nonlinear=True, max_flat=6))
    n = max(n, len(specs))
    while len(specs) < n:
        spec = gen.random_spec(rng, recursive=True, linear=False, allow_inf=False, max_nt=3, max_rules=3, max_nodes=3, max_edges=3, max_dom=2)
        spec["weights"] = {el: gen.nested_map(w, lambda v: v if v <= 1 else Fraction(1, 2)) for el, w in spec["weights"].items()}
        specs.append(spec)
    bycf = {k: [] for k in NCF.values()}; meta = {k: [] for k in NCF.values()}
    hist = dict(kmax={1: 0, 2: 0, 3: 0}, with_nonlinear_component=0, warned=0, semiring={}, nonlinear_matrix_block_systems=0)
    distinct = set()
    for i, spec in enumerate(specs):
        nl = nonlinear_comps(spec)
        for ci, sr in enumerate(NEWTON_SRS):
            kmax = 1 + (i + ci) % 3
            case = dict(spec=gen.spec_jsonable(spec), semiring=repr(sr), method="newton", tol=(0 if sr.name == "bool" else 1e-300), kmax=kmax, stream="newton")
            call = "fggs.sum_products(fgg, method='newton', semiring=%r, tol=%g, kmax=%d)" % (sr, case["tol"], kmax)
            try:
                val, warned = newton_case(spec, sr, kmax, ids=["explicit", "implicit", "mixed"][i % 3], rng=rng, patterned=(i % 2 == 1))
            except Exception as e:
                violations.append(Violation("sum_products raised %r" % (e,), case=case, call=call, corr="corr:newton(kmax)", oracle="no exception"))
                continue
            hist["kmax"][kmax] += 1; hist["warned"] += bool(warned)
            hist["semiring"][sr.name] = hist["semiring"].get(sr.name, 0) + 1
            if nl:
                hist["with_nonlinear_component"] += 1
                hist["nonlinear_matrix_block_systems"] += ("linsys" in spec["features"])
                distinct.add((json.dumps(gen.spec_jsonable(spec), sort_keys=True), sr.name, kmax))
            k = NCF[sr.carrier()]
            bycf[k].append(val); meta[k].append((case, call, val))
    total = 0; nk = 0
    for k, vals in bycf.items():
        if not vals: continue
        codes, n_k = run_model(CF[k], vals, seed=seed, coq_sample=3 if tier == "quick" else 20, tag="c02" + k)
        nk += n_k; total += len(vals)
        for (case, call, val), c in zip(meta[k], codes):
            if c == 0: continue
            if c == 31:     # the exact sum-product is infinite: outside C02's guard ("whose sum-product is finite")
                hist["outside_guard_infinite"] = hist.get("outside_guard_infinite", 0) + 1; continue
            what = {1: "after kmax Newton passes the returned value lies BELOW the kmax-th Kleene iterate (Newton must converge at least as fast as Kleene: C02_newton_sandwich)",
                    4: "an entry of sum_products is missing",
                    10: "the value returned after exactly kmax passes of newton differs from the model's kmax-th Newton iterate (Model/Newton.v: newton_iter)"}.get(c, "framework inconsistency (code %d)" % c)
            violations.append(Violation(what, case=case, observed=dict(values=val[3]),
                                        oracle={1: "Kleene lower bound (C02_newton_sandwich)"}.get(c), corr="C02 / corr:newton(kmax) = newton_iter kmax",
                                        failing_input_found=c in (1, 4), call=call))
    return dict(evaluations=total, distinct_nontrivial=len(distinct), kernel_reevaluated=nk, histogram=hist,
                sample=(meta["nreal"][0][0] if meta["nreal"] else None))

# ---- linear-system stream: linearly recursive SCCs of several NON-scalar nonterminals (matrix blocks) ----
LINSYS_METHODS = ["linear", "newton", "linear", "newton", "fixed-point"]
WHAT = {1: "returned value lies outside the certified enclosure of the least fixed point (= limit of the bounded-depth derivation sums)",
        4: "an entry of sum_products is missing",
        5: "method='linear' on a grammar that is not linearly recursive did not raise ValueError",
        6: "ValueError raised although the grammar is linearly recursive / method is not 'linear'",
        7: "iteration budget exhausted before the stopping criterion was met, but no warning was issued"}
ORACLE = {1: "enclosure (C02_park)", 5: "expect_value_error", 6: "expect_value_error", 7: "must_warn"}

def linsys_stream(tier, seed, violations, bycf, meta):
    """gen.linear_system_spec x {Real, Log, Viterbi, Bool} x method in {linear, newton (dispatched to linear), fixed-point
    (control)}; the cases are appended to the main stream's batches (converged values judged by the certified enclosure,
    exact in Viterbi/Bool)"""
    rng = random.Random(seed * 131 + 17)
    n = int(os.environ.get("VERIF_N_LINSYS", 0)) or (40 if tier == "quick" else 1200)
    feats = {}; distinct = set(); hist = dict(method={}, semiring={}, ids={}, patterned=0, staged=0)
    total = 0; sample = None
    for i in range(n):
        spec = gen.linear_system_spec(rng)
        key = json.dumps(gen.spec_jsonable(spec), sort_keys=True)
        for f in spec["features"]: feats[f] = feats.get(f, 0) + 1
        gw = grammar_wire(spec)
        ids = ["explicit", "implicit", "mixed"][i % 3]; patterned = (i % 2 == 0); staged = (i % 7 == 3)
        hist["ids"][ids] = hist["ids"].get(ids, 0) + 1; hist["patterned"] += patterned; hist["staged"] += staged
        for ci, sr in enumerate(CONFIGS2):
            rot = LINSYS_METHODS[(i + ci) % len(LINSYS_METHODS)]
            # the cheap exact semirings get both solvers on every grammar
            for method in ([rot] if sr.name in ("real", "log") else ["linear", "newton"]):
                mi = METHODS.index(method)
                kmax = 400; tol = 1e-10 if sr.name in ("real", "log") else 1e-6
                call = "fggs.sum_products(fgg, method=%r, semiring=%r, tol=%g, kmax=%d)" % (method, sr, tol, kmax)
                try:
                    raised, warned, out = run_impl(spec, sr, method, tol, kmax, ids=ids, rng=rng,
                                                   rtol=Fraction(1, 10**6), atol=Fraction(1, 10**7), patterned=patterned, staged=staged)
                except Exception as e:
                    violations.append(Violation("sum_products raised %r" % (e,),
                                                case=dict(spec=gen.spec_jsonable(spec), semiring=repr(sr), method=method, tol=tol, kmax=kmax, stream="linsys"),
                                                call=call, corr="corr:sum_products(recursive), linear-system stream",
                                                oracle="no exception other than the documented ValueError"))
                    continue
                hist["method"][method] = hist["method"].get(method, 0) + 1
                hist["semiring"][sr.name] = hist["semiring"].get(sr.name, 0) + 1
                distinct.add((key, sr.name, method)); total += 1
                obs = (raised, warned, (not warned) and (not raised), sorted(out.items()))
                bycf[sr.carrier()].append((gw, weights_wire(spec, sr), (mi, 3, Fraction(tol)), K_ENCL, obs))
                meta[sr.carrier()].append((spec, sr, method, tol, kmax, obs, "linsys"))
                if sample is None and sr.name == "bool":
                    sample = dict(spec=gen.spec_jsonable(spec), semiring=repr(sr), method=method, tol=tol, kmax=kmax, observed=obs)
    return dict(evaluations=total, distinct_nontrivial=len(distinct), histogram=hist, feature_histogram=feats, sample=sample,
                value_checks_conclusive=0, value_checks_inconclusive_discarded=0, warned_not_value_checked=0)

def f2_predicate(spec, sr, method):
    return sr.name == "viterbi" and method in ("newton", "linear")

def run(tier, seed):
    rng = random.Random(seed)
    n = int(os.environ.get("VERIF_N", 0)) or (150 if tier == "quick" else 4000)
    violations = []
    bycf = {k: [] for k in ("real", "trop", "bool")}; meta = {k: [] for k in bycf}
    feats = {}; distinct = set(); kinds = dict(values=0, budget=0, valueerror=0)
    for i in range(n):
        linear = rng.choice([True, False, None])
        if i % 6 == 4:
            spec = gen.chain_spec(rng)
        elif i % 6 == 0:
            spec = gen.pattern_chain_spec(rng)
        else:
            spec = gen.random_spec(rng, recursive=True, linear=linear, allow_inf=False, max_nt=3, max_rules=3, max_nodes=3, max_edges=3, max_dom=2)
        # keep only weights <= 1 so that Viterbi cycles have weight <= 0
        spec["weights"] = {el: gen.nested_map(w, lambda v: v if v <= 1 else Fraction(1, 2)) for el, w in spec["weights"].items()}
        key = json.dumps(gen.spec_jsonable(spec), sort_keys=True)
        distinct.add(key)
        for f in spec["features"]: feats[f] = feats.get(f, 0) + 1
        gw = grammar_wire(spec)
        for ci, sr in enumerate(CONFIGS2):
            budget_case = (i % 3 == 2)
            mi = ((i // 3 + ci) % 2) if budget_case else (i + ci) % 3
            method = METHODS[mi]
            if budget_case:
                kmax = 1 + (i // 3) % 2; tol = 1e-6; kinds["budget"] += 1
            else:
                kmax = 400; tol = 1e-10 if sr.name in ("real", "log") else 1e-6; kinds["values"] += 1
            call = "fggs.sum_products(fgg, method=%r, semiring=%r, tol=%g, kmax=%d)" % (method, sr, tol, kmax)
            try:
                raised, warned, out = run_impl(spec, sr, method, tol, kmax, ids=["explicit", "implicit", "mixed"][i % 3], rng=rng,
                                               rtol=Fraction(1, 10**6), atol=Fraction(1, 10**7), patterned=(i % 2 == 0), staged=(i % 5 == 1))
            except Exception as e:
                violations.append(Violation("sum_products raised %r" % (e,), case=dict(spec=gen.spec_jsonable(spec), semiring=repr(sr), method=method, tol=tol, kmax=kmax),
                                            call=call, corr="corr:sum_products(recursive)", oracle="no exception other than the documented ValueError"))
                continue
            if raised: kinds["valueerror"] += 1
            chkvals = (not budget_case) and (not warned) and (not raised)
            obs = (raised, warned, chkvals, sorted(out.items()))
            bycf[sr.carrier()].append((gw, weights_wire(spec, sr), (mi, min(kmax, 3), Fraction(tol)), K_ENCL, obs))
            meta[sr.carrier()].append((spec, sr, method, tol, kmax, obs, "main"))
    lcov = linsys_stream(tier, seed, violations, bycf, meta)
    total = 0; nk = 0; inconclusive = 0; conclusive = 0
    for k, vals in bycf.items():
        codes, n_k = run_model(CF[k], vals, seed=seed, coq_sample=4 if tier == "quick" else 25, tag="c02" + k)
        nk += n_k; total += len(vals)
        if os.environ.get("VERIF_DEBUG"):
            import collections
            print(k, collections.Counter((m[2], m[4], c) for m, c in zip(meta[k], codes)))
        for (spec, sr, method, tol, kmax, obs, stream), c in zip(meta[k], codes):
            if stream == "linsys":
                if c == 30: lcov["value_checks_inconclusive_discarded"] += 1; continue
                if c == 0:
                    lcov["value_checks_conclusive" if obs[2] else "warned_not_value_checked"] += 1
                    continue
            if c == 30: inconclusive += 1; continue
            if c == 0:
                if obs[2]: conclusive += 1
                continue
            case = dict(spec=gen.spec_jsonable(spec), semiring=repr(sr), method=method, tol=tol, kmax=kmax, stream=stream)
            call = "fggs.sum_products(fgg, method=%r, semiring=%r, tol=%g, kmax=%d)" % (method, sr, tol, kmax)
            what = WHAT.get(c, "framework inconsistency (code %d)" % c)
            fk = None
            violations.append(Violation(what, case=case, observed=dict(raised=obs[0], warned=obs[1], values=obs[3]), oracle=ORACLE.get(c),
                                        corr="C02 / corr:sum_products(recursive)" + (", linear-system stream" if stream == "linsys" else ""),
                                        failing_input_found=c in (1, 4, 5, 6, 7), call=call, finding_key=fk))
    s0 = meta["real"][0] if meta["real"] else None
    ncov = newton_stream(tier, seed, violations)
    total += ncov["evaluations"]; nk += ncov["kernel_reevaluated"]
    tcov = _c02_tol.stream(tier, seed, violations)
    total += tcov["evaluations"]; nk += tcov["kernel_reevaluated"]
    cov = dict(evaluations=total, distinct_nontrivial=len(distinct) + ncov["distinct_nontrivial"] + lcov["distinct_nontrivial"] + tcov["distinct_nontrivial"], newton_stream=ncov, tolerance_ladder_stream=tcov, linear_system_stream=lcov,
               rule="main stream: random recursive FGG specs (self-loops, mutually recursive SCCs, linear/non-linear recursion, weight-one cycles in Viterbi/Bool; Real/Log weights damped by 1/4; one sixth chain grammars with deep best derivations; half with sparse PatternedTensor weights where the values allow; a fifth built in two stages with a query in between) x {Real, Log, Viterbi, Bool} x method rotating over fixed-point/newton/linear; one third of the runs with budget kmax in {1,2} (warning expected when the first kmax+1 stopping tests provably fail), the rest with kmax=400 (values judged against the certified enclosure); all grammars are recursive hence non-trivial; distinct by spec. Linear-system stream (gen.linear_system_spec): linearly recursive systems of 2-3 nonterminals, at least two of them NON-scalar (arity 1-2 over domains of size 1-3, different node labels => rectangular Jacobian blocks), self-loops on a random subset (diagonal blocks with off-diagonal entries), usually one SCC through all of them (multi_solve eliminates block by block: solves with a matrix right-hand side), otherwise block-triangular; dense blocks with about 30-80% exact zeros (mixed zero/non-zero rows and columns, whole zero rows), diagonal blocks (D(u) X(u)), arity-2 blocks T (x) I, two rules for one block, and half of the systems 'functional' (partial permutations inside a nonterminal, one or two entry points between nonterminals, one or two terminating cells: unique derivations, so a lost Jacobian entry shows in Bool/Viterbi too); shuffled rule order and label positions (all elimination orders) x {Real, Log: one of linear/newton/fixed-point rotating; Viterbi, Bool: linear AND newton} x dense/patterned weights x node-id styles, one seventh built in two stages; kmax=400, values judged against the certified enclosure; distinct by (spec, semiring, method). Newton stream: additionally non-linear variants of these systems (one rule with two component edges) so that Newton's inner multi_solve eliminates matrix blocks. Tolerance-ladder stream (_c02_tol.py): slowly converging float64 grammars X -> X X c | a X | b -- linear with contraction 63/64, 127/128 (thorough: to 1023/1024) and values 2^-10..2^16, near-critical quadratic with F'(x*) = 1 - 2^-6 / 1 - 2^-7 and x* = 2^-6..2^7, CRITICAL quadratic ((1-a)^2 = 4cb, F'(x*) = 1, e.g. S -> 1/2 S S | 1/2) with x* = 1/32..32 -- x {Real, Log}(dtype=torch.double) x {fixed-point, newton}, each run at the ladder tol = 1e-4, 1e-6, 1e-8, 1e-10, 1e-12 (rungs needing > 2500 passes or below 1e-12 x* dropped); every returned value judged in Coq against the proved stop bound FOR ITS tol (tol_check / mag_check / crit_check), no 'maximum iteration' warning allowed (kmax = 4 x proved pass count + 100), values non-decreasing along the ladder (ladder_check); distinct = ladders of >= 2 rungs",
               case_kinds=kinds, value_checks_conclusive=conclusive, value_checks_inconclusive_discarded=inconclusive,
               feature_histogram=feats, kernel_reevaluated=nk, kleene_steps=K_ENCL,
               samples=([dict(spec=gen.spec_jsonable(s0[0]), semiring=repr(s0[1]), method=s0[2], tol=s0[3], kmax=s0[4], observed=s0[5])] if s0 else [])
                       + ([lcov["sample"]] if lcov.get("sample") else []),
               open_items=["(tier B, CLOSED) Newton's method is modelled (Model/Newton.v) and C02_newton_sandwich is proved for every number of edges per rule (the Taylor inequality holds monomial by monomial; nothing is _partial). Remaining about newton: the model reads a MultiTensor as an environment (absent key = zero block; all Jacobian blocks present; elimination order = the component's order) -- that the presence pattern and the order of _order_nonterminals give the same vector is C09_multi_solve_refines, not re-proved at the level of newton's absent keys; F is the spec-level step (F_model = step on the range is the open bridge below); soundness of newton_check is proved per component (C02_newton_comp_refines / C02_kleene_comp_refines), not for the fold over the SCC order; rounding (the reason for the two maximum_ clamps, which are proved to be no-ops in exact arithmetic) and the tolerance semantics of the stop test are not modelled: with tol > 0 only the upper half (result <= every pre-fixed point) is a theorem for the returned value",
                           "must_warn unrolls the first kmax+1 stopping tests (kmax in {1,2}) on tables built with the code-shaped F_model; the loop theorems (C02_fixed_point_warns_iff, C02_newton_warns_iff) are about an abstract F/close -- F_model = step on the range (C01's spe theorem lifted to recursive components) is not connected here",
                           "C02_linear_is_least_fixed_point (multi_solve J0 F0 is the least fixed point of a linearly recursive component, any elimination order / the code's order, all ordered star-semirings; instances for Bool, Real, Viterbi) takes as hypothesis that the MultiTensors J0/F0 hold lin_J0/lin_F0 at the row-major positions of the index tuples (tabulates_J0/tabulates_F0); that linear's sum_product_edges calls produce exactly these tables is C01's spe theorem and is not connected at table level (Newton's inner multi_solve calls are covered separately: C02_newton_solve_least builds the tables by tabulation, so no such hypothesis is left there); C02_scc_decomposition is proved for exactly solved components (Prop-level exact_run), not for the table-level driver with approximate per-component results"])
    return cov, violations

def replay(path):
    r = json.load(open(path)); c = r["case"]
    spec = gen.spec_from_json(c["spec"])
    if c.get("stream") == "tol-ladder":
        print("tolerance-ladder case: re-run `bin/check C02 quick` with the recorded seed (VERIF_N=3 VERIF_N_LINSYS=1 VERIF_N_NEWTON=6 keeps only this stream at full size)")
        return 1
    if c.get("stream") == "newton":
        sr = [s for s in NEWTON_SRS if repr(s) == c["semiring"]][0]
        val, warned = newton_case(spec, sr, c["kmax"])
        code = run_coq(CF[NCF[sr.carrier()]], [val], tag="replay")[0]
        print("warned", warned, "values", val[3], "verdict code", code)
        return 1 if code != 0 else 0
    sr = [s for s in CONFIGS2 if repr(s) == c["semiring"]][0]
    raised, warned, out = run_impl(spec, sr, c["method"], c["tol"], c["kmax"], rtol=Fraction(1, 10**6), atol=Fraction(1, 10**7))
    mi = METHODS.index(c["method"])
    budget = c["kmax"] < 10
    obs = (raised, warned, (not budget) and not warned and not raised, sorted(out.items()))
    code = run_coq(CF[sr.carrier()], [(grammar_wire(spec), weights_wire(spec, sr), (mi, min(c["kmax"], 3), Fraction(c["tol"])), K_ENCL, obs)], tag="replay")[0]
    print("raised", raised, "warned", warned, "values", out, "verdict code", code)
    return 1 if code not in (0, 30) else 0

MANIFEST = dict(
    level="proof",
    text="Coq: Kleene iterates of the grammar's equations are the bounded-depth derivation sums (C01's theorem), are monotone, stay below every pre-fixed point (Park), also when rounded down; hence [K rounded Kleene steps, verified pre-fixed point] encloses the least fixed point. Every value returned by fixed-point / newton / linear on generated recursive FGGs must meet that enclosure (exactly in Bool/Viterbi); budget-exhaustion warnings and the ValueError of method='linear' are compared with the control-flow model. Also proved: the loop shapes of fixed_point / newton warn iff the stopping test never held within the budget (the pre-repair newton loop never warns), ValueError iff method=linear meets a rule with two component edges, linearly recursive components are affine with linear's J0/F0 and multi_solve(J0, F0) -- what method='linear' and newton's downgrade return -- is their least fixed point in every ordered star-semiring (C02_linear_is_least_fixed_point, composed with C09_multi_solve_refines), SCC-by-SCC exact solution is the global least fixed point, and verdict 0 of the check implies the observed values are (Bool) / enclose (Viterbi) / meet a certified enclosure of (Real, Log) the least fixed point. Newton (tier B): Model/Newton.v models the loop of sum_product.py:newton (F0 = max(F x, x); dX = multi_solve(J x, F0 - x); x += dX; x = max(x, F0); stop test; for/else warning) with the code-shaped Jacobian and multi_solve_model; proved for all ordered commutative star-semirings (premises about sub/maximum proved for Bool, Real, Viterbi): the Taylor inequality F(x) + J(x).d <= F(x+d) for rules with any number of edges, multi_solve on the tabulated blocks = least solution of y = A y + b, and the Esparza-Kiefer-Luttenberger sandwich Kleene_k <= Newton_k <= every pre-fixed point with Newton_k increasing and Newton_k <= F(Newton_k) (C02_newton_sandwich); both maximum_ clamps are no-ops in exact arithmetic; every iterate lies below the upper end of a certified enclosure and from iterate 4j on inside it; exact stop test + no warning => the result is the least fixed point; one pass solves a linearly recursive component exactly. Linear-system stream: linearly recursive components of several non-scalar nonterminals with self-loops and Jacobian blocks holding exact zeros next to non-zeros (the block elimination of multi_solve, i.e. Semiring.solve_thunks with a MATRIX right-hand side) are generated on purpose, for method linear and newton in Log, Viterbi, Bool (Real as control), and judged by the same enclosure oracle; about that pass: skipping it when the whole pivot row is zero is sound in every semiring (C02_solve_skip_all_zero_sound), testing for SOME zero entry is the same for one column (C02_solve_skip_some_zero_single_column: vector and (n,1) right-hand sides cannot tell) and wrong for two (C02_solve_skip_some_zero_refuted). Tolerance ('with an error that vanishes as tol does'): for the critical scalar system x = c x^2 + a x + b, (1-a)^2 = 4cb, the residual F(x) - x equals c (x* - x)^2 (C02_critical_residual), so the stopping test bounds the error by sqrt(tol/c) (C02_critical_stop_bound), the Kleene iterates increase below x* (C02_critical_iterates_below), Newton halves the error (C02_critical_newton_halves), crit_check accepts what fixed_point / newton may return and only values with c (x* - delta - x)^2 <= tol (C02_crit_check_sound / _accepts_fixed_point / _accepts_only / _rejects); a smaller tol cannot stop earlier, so values along a tolerance ladder do not decrease (C02_ladder_step_monotone, C02_ladder_check_rejects); for contraction < 1 the bounds are C11's (tol_check, mag_check). fixed-point and newton are run on slowly converging float64 Real/Log grammars at tol = 1e-4..1e-12 and every result is judged in Coq against the bound for its tol. Correspondence: method='newton' is run with kmax in {1,2,3} (stop test disabled by tol=1e-300) on non-linear recursive grammars in Real, Log, Viterbi, Bool and its unconverged result is compared inside Coq with the model's exact kmax-th Newton iterate (rtol 1e-6; Bool exact) and with the kmax-th Kleene iterate as lower bound.",
    note="Trusted: Coq kernel, extraction cross-checked by vm_compute, harness; converged newton results are judged by the enclosure oracle, unconverged ones (kmax <= 3) by the model of the iteration; grammars without a certified enclosure are discarded (counted in evidence).",
    technique="Coq proof (Park induction, Kleene = derivation sums, Taylor inequality + least solutions of linear systems for the Newton sandwich) + certified-enclosure oracle on implementation outputs + control-flow correspondence + model of Newton's iterates compared after a fixed number of passes",
    design_ref="DESIGN.md section 6, C02")
