"""Shared helpers for the sum-product family (C01, C02, C03, C04, C11, C12): wire types,
semiring configurations, conversion of implementation tensors to exact intervals."""
from __future__ import annotations
import math
from fractions import Fraction
from harness.core import *
from harness import gen

RuleT = Tup(Nat, List(Nat), List(Tup(Nat, List(Nat))), List(Nat))
GrammarT = Tup(List(Nat), List(Tup(Bool, List(Nat))), List(RuleT), Nat)
RealW = Option(QQ)                       # None = +inf
RealB = Tup(QQ, Option(QQ))              # [lo, hi]; hi None = "+inf exactly"
TropV = Tup(Nat, QQ)                     # (0,_) -inf | (1,q) | (2,_) +inf
TropB = Tup(TropV, TropV)

def grammar_wire(spec):
    return (list(spec["nlabels"]),
            [(e["term"], list(e["type"])) for e in spec["elabels"]],
            [(r["lhs"], list(r["nodes"]), [(el, list(att)) for el, att in r["edges"]], list(r["ext"])) for r in spec["rules"]],
            spec["start"])

VIT_MAP = {Fraction(0): None, Fraction(1, 4): -2, Fraction(1, 2): -1, Fraction(1): 0, Fraction(2): 1, Fraction(3): 2, "inf": "inf"}

class SR:
    """one semiring configuration: how spec weights become implementation floats and wire values,
    and how implementation outputs become wire observations"""
    def __init__(self, name, dtype="float64", scale=Fraction(1)):
        self.name, self.dtype, self.scale = name, dtype, Fraction(scale)
    def torch_dtype(self):
        import torch
        return {"float64": torch.float64, "float32": torch.float32, "bool": torch.bool}[self.dtype]
    def semiring(self):
        import fggs
        if self.name == "real": return fggs.RealSemiring(dtype=self.torch_dtype())
        if self.name == "log": return fggs.LogSemiring(dtype=self.torch_dtype())
        if self.name == "viterbi": return fggs.ViterbiSemiring(dtype=self.torch_dtype())
        return fggs.BoolSemiring()
    # spec value -> implementation scalar
    def wconv(self, v):
        if self.name == "real":
            return math.inf if v == "inf" else float(v * self.scale)
        if self.name == "log":
            if v == "inf": return math.inf
            return -math.inf if v == 0 else math.log(float(v * self.scale))
        if self.name == "viterbi":
            m = VIT_MAP[v]
            return -math.inf if m is None else (math.inf if m == "inf" else float(m))
        return v == "inf" or v != 0
    # spec value -> model wire value
    def wwire(self, v):
        if self.name in ("real", "log"):
            return None if v == "inf" else Fraction(v) * self.scale
        if self.name == "viterbi":
            m = VIT_MAP[v]
            return (0, Fraction(0)) if m is None else ((2, Fraction(0)) if m == "inf" else (1, Fraction(m)))
        return v == "inf" or v != 0
    def rtol(self):
        return Fraction(1, 10**9) if self.dtype == "float64" else Fraction(1, 5000)
    def atol(self):
        return Fraction(1, 10**12) if self.dtype == "float64" else Fraction(1, 10**5)
    # implementation output scalar -> wire observation
    def obs(self, x, rtol=None, atol=None):
        if rtol is not None:
            old = (self.rtol, self.atol)
            self.rtol, self.atol = (lambda: Fraction(rtol)), (lambda: Fraction(atol))
            try: return self.obs(x)
            finally: self.rtol, self.atol = old
        if self.name == "bool":
            return bool(x)
        x = float(x)
        if x != x:
            raise ValueError("nan in implementation output")
        if self.name == "real":
            if x == math.inf: return (Fraction(0), None)
            f = Fraction(x); tol = self.atol() + self.rtol() * abs(f)
            return (f - tol, f + tol)
        if self.name == "log":
            if x == math.inf: return (Fraction(0), None)
            if x == -math.inf: return (Fraction(0), Fraction(0))
            # exp of a float: enclose with a relative tolerance (exp itself is rounded)
            if x > 700: return (Fraction(0), None)    # astronomically large: read as +inf
            f = Fraction(math.exp(x)); tol = self.atol() + (self.rtol() * 4) * f
            if f == 0 and rtol is None:   # underflow: accept anything below 1e-300
                return (Fraction(0), Fraction(1, 10**300))
            return (f - tol, f + tol)
        if self.name == "viterbi":
            if x == math.inf: return ((2, Fraction(0)), (2, Fraction(0)))
            if x == -math.inf: return ((0, Fraction(0)), (0, Fraction(0)))
            f = Fraction(x); tol = self.atol() + self.rtol() * abs(f)
            return ((1, f - tol), (1, f + tol))
    def wty(self):
        return {"real": RealW, "log": RealW, "viterbi": TropV, "bool": Bool}[self.name]
    def bty(self):
        return {"real": RealB, "log": RealB, "viterbi": TropB, "bool": Bool}[self.name]
    def carrier(self):
        return {"real": "real", "log": "real", "viterbi": "trop", "bool": "bool"}[self.name]
    def __repr__(self): return "%s/%s" % (self.name, self.dtype)

class MagSR(SR):
    """Reading of the specs of gen.magnitude_spec.  Moderate values, 0 and 'inf' are read as by SR.  An EXTREME
    weight 2^e (|e| in gen.MAG_EXPS = 100/110/120, always finite) is read per configuration so that ONE such
    weight is representable and the product of TWO leaves the dtype's range:
      Real float32   2^e             Real float64   2^(8e)                       (model: the same rational)
      Viterbi        log-weight  sign(e) * 2^1023 * (1 + (|e|-100)/40)           (model: the same rational, trop)
      Log            the same log-weight L as Viterbi; the weight it denotes, exp(L), is a positive finite real
                     that is not a usable rational: the model is given 2^(8e) in its place.  Extreme weights only
                     occur in terms that contain a zero factor (gen.magnitude_killed, asserted per case), whose
                     value does not depend on the other factors (theorem C01_rule_val_annihilated_terms)
      Bool           True"""
    def __init__(self, base):
        SR.__init__(self, base.name, base.dtype, base.scale)
    def logw(self, e):
        return (1 if e > 0 else -1) * Fraction(2) ** 1023 * (1 + Fraction(abs(e) - gen.MAG_E, 40))
    def wconv(self, v):
        e = gen.mag_exponent(v)
        if e is None: return SR.wconv(self, v)
        if self.name == "real": return math.ldexp(1.0, e if self.dtype == "float32" else 8 * e)
        if self.name in ("log", "viterbi"): return float(self.logw(e))
        return True
    def wwire(self, v):
        e = gen.mag_exponent(v)
        if e is None: return SR.wwire(self, v)
        if self.name == "real": return Fraction(2) ** (e if self.dtype == "float32" else 8 * e)
        if self.name == "log": return Fraction(2) ** (8 * e)
        if self.name == "viterbi": return (1, self.logw(e))
        return True
    def obs(self, x, rtol=None, atol=None):
        """nan is handed to the oracle as the EMPTY interval, which it rejects whatever the exact value is
        (theorems C01_nan_rejected_real / _trop): verdict 1 with the concrete grammar and weights"""
        if self.name != "bool" and float(x) != float(x):
            if self.name == "viterbi": return ((2, Fraction(0)), (0, Fraction(0)))      # [+inf, -inf]
            return (Fraction(1), Fraction(0))                                            # [1, 0]
        return SR.obs(self, x, rtol, atol)

CONFIGS = [SR("real", "float64"), SR("real", "float32"), SR("log", "float64"), SR("viterbi", "float64"), SR("bool", "bool")]

def weights_wire(spec, sr):
    return [(el, [sr.wwire(v) for v in gen.flat(w)]) for el, w in sorted(spec["weights"].items())]

def dense_list(t):
    """PatternedTensor or Tensor -> flat row-major python list"""
    import torch
    d = t.to_dense() if hasattr(t, "to_dense") else t
    return d.reshape(-1).tolist()
