"""C11 -- solver options change cost, never the answer."""
import random, json, warnings, subprocess, ast, glob, math, tempfile
from fractions import Fraction
from harness.core import *
from harness import gen
from harness.props._sp_util import *
from harness.props import C01, C02, C03

PID = "C11"
LEVEL = "proof"
MT = {
    "sp": CheckFn("sp-maxtimes", "Model.CrossSemiring", "sp_check_maxtimes", C01.CF["real"].ty),
    "fp": CheckFn("fp-maxtimes", "Model.CrossSemiring", "fp_check_maxtimes", C02.CF["real"].ty),
}
TOL = CheckFn("c11-tol", "Model.Tolerance", "tol_check", Tup(QQ, QQ, QQ, QQ, QQ))
VTOL = CheckFn("c11-vtol", "Model.Tolerance", "vtol_check", Tup(List(List(QQ)), List(QQ), List(QQ), QQ, QQ, List(QQ)))
CHECKFNS = C01.CHECKFNS + C02.CHECKFNS + list(MT.values()) + C03.CHECKFNS + [TOL, VTOL]
from harness.props import _c11_mag
CHECKFNS = CHECKFNS + [_c11_mag.MAG]

def solve_fixed_point(A, c):
    """mu with mu = A mu + c, exact (Fractions, Gaussian elimination on I - A); Coq re-verifies mu = A mu + c"""
    n = len(c)
    M = [[(Fraction(1) if i == j else Fraction(0)) - A[i][j] for j in range(n)] + [c[i]] for i in range(n)]
    for i in range(n):
        piv = next(r for r in range(i, n) if M[r][i] != 0)
        M[i], M[piv] = M[piv], M[i]
        M[i] = [v / M[i][i] for v in M[i]]
        for r in range(n):
            if r != i and M[r][i] != 0:
                M[r] = [vr - M[r][i] * vi for vr, vi in zip(M[r], M[i])]
    return [M[i][n] for i in range(n)]

def vtol_cases(rng, n, violations):
    """The meaning of `tol` for VECTOR systems x = A x + c (C11_vector_stop_bound): one strongly connected component of
    two or three nonterminals with nullary rules X_i -> c_i | a_ij X_j (the cycle i -> i+1 always present, further
    entries at random; a rule X_i -> c_i is omitted when c_i = 0, so that nonterminal's block is ABSENT from the first
    iterate), or ONE nonterminal with an external node over a domain of size 2 or 3 (a BLOCK: x_v = sum_u a[v,u] x_u + c_v).
    Max row sum 15/16 .. 63/64 (dyadic entries: exact in float64), entries of c from 0 to 2^40.  Every component of the
    result of sum_products(method='fixed-point', tol) is judged in Coq by vtol_check: within
    [mu_i - tol/(1-||A||) - delta, mu_i + delta], mu the exact fixed point (re-verified in Coq), delta = max(mu)/10^12."""
    import fggs, torch
    vals, metas = [], []
    for i in range(n):
        dim = rng.choice([2, 3])
        block = (i % 3 == 2)
        den = rng.choice([16, 32, 64])
        A = [[Fraction(0)] * dim for _ in range(dim)]
        for r in range(dim):
            js = {(r + 1) % dim} | {j for j in range(dim) if rng.random() < 0.5}
            js = sorted(js)
            total = den - rng.choice([1, 1, 2]) if r == 0 else rng.randint(den // 2, den - 1)   # row 0 carries the norm
            cuts = sorted(rng.sample(range(1, total), len(js) - 1)) if len(js) > 1 else []
            parts = [b - a for a, b in zip([0] + cuts, cuts + [total])]
            for j, pnum in zip(js, parts): A[r][j] = Fraction(pnum, den)
        c = [Fraction(rng.choice([0, 1, 3, 5])) * Fraction(2) ** rng.choice([0, 10, 20, 30, 40]) for _ in range(dim)]
        if all(v == 0 for v in c): c[rng.randrange(dim)] = Fraction(2) ** 20
        tol = Fraction(1, 10 ** rng.choice([4, 6, 8]))
        kmax = 20000
        g = fggs.FGG("S" if block else "X0")
        if block:
            # S -> B(v) (start symbol of arity 0, its own non-looping component, solved after B's); B(v) -> c(v) | a(v,u) B(u)
            g.new_finite_domain("D", list(range(dim)))
            r0 = fggs.Graph(); v = r0.new_node("D"); r0.new_edge("B", [v], is_nonterminal=True); g.new_rule("S", r0)
            r1 = fggs.Graph(); v = r1.new_node("D"); r1.ext = [v]; r1.new_edge("c", [v], is_terminal=True); g.new_rule("B", r1)
            r2 = fggs.Graph(); v = r2.new_node("D"); u = r2.new_node("D"); r2.ext = [v]
            r2.new_edge("a", [v, u], is_terminal=True); r2.new_edge("B", [u], is_nonterminal=True); g.new_rule("B", r2)
            g.new_finite_factor("c", torch.tensor([float(x) for x in c], dtype=torch.float64))
            g.new_finite_factor("a", torch.tensor([[float(x) for x in row] for row in A], dtype=torch.float64))
        else:
            for r in range(dim):
                if c[r] != 0:
                    r1 = fggs.Graph(); r1.new_edge("c%d" % r, [], is_terminal=True); g.new_rule("X%d" % r, r1)
                for j in range(dim):
                    if A[r][j] != 0:
                        r2 = fggs.Graph(); r2.new_edge("a%d_%d" % (r, j), [], is_terminal=True); r2.new_edge("X%d" % j, [], is_nonterminal=True)
                        g.new_rule("X%d" % r, r2)
            for r in range(dim):
                if c[r] != 0: g.new_finite_factor("c%d" % r, torch.tensor(float(c[r]), dtype=torch.float64))
                for j in range(dim):
                    if A[r][j] != 0: g.new_finite_factor("a%d_%d" % (r, j), torch.tensor(float(A[r][j]), dtype=torch.float64))
        case = dict(shape=("one nonterminal, block of %d" % dim) if block else ("%d scalar nonterminals" % dim),
                    A=[[str(x) for x in row] for row in A], c=[str(x) for x in c], tol=str(tol), kmax=kmax)
        try:
            with warnings.catch_warnings(record=True) as wl:
                warnings.simplefilter("always")
                zs = fggs.sum_products(g, method="fixed-point", semiring=fggs.RealSemiring(dtype=torch.float64), tol=float(tol), kmax=kmax)
            byname = {k.name: zs[k] for k in zs if k.is_nonterminal}
            if block:
                obs = [Fraction(float(x)) for x in byname["B"].to_dense().reshape(-1).tolist()]
            else:
                obs = [Fraction(float(byname["X%d" % r].to_dense())) for r in range(dim)]
            warned = any("maximum iteration" in str(w.message) for w in wl)
        except Exception as e:
            violations.append(Violation("sum_products raised %r" % (e,), case=case, corr="corr:vtol")); continue
        if warned:
            violations.append(Violation("fixed-point warned (kmax=%d) on a contraction with norm < 1" % kmax, case=case, corr="corr:vtol (C11_vector_fixed_point_run)")); continue
        mu = solve_fixed_point(A, c)
        vals.append((A, c, mu, tol, max(mu) / 10 ** 12, obs))
        metas.append(dict(case, observed=[float(x) for x in obs], least_fixed_point=[float(x) for x in mu]))
    return vals, metas

def tol_cases(rng, n, violations):
    """The meaning of `tol` (fixed-point): an ABSOLUTE stopping distance, whatever the magnitude of the values.
    Grammar X -> c | a X with nullary factors (x = a x + c), contraction a close to 1, values from 1 to 2^40;
    Real: the returned value is judged in Coq (tol_check: within tol/(1-a) below c/(1-a), C11_fixed_point_stop_bound);
    Log (log-weights given directly, down to -3000): compared with method='linear' using the same bound in log space
    (log x* - log x_k <= (x* - x_k)/x_k, differential only)."""
    import fggs, torch, math
    vals, metas = [], []
    for i in range(n):
        a = Fraction(rng.choice([15, 31, 63]), 1); a = a / (a + 1)                 # 15/16, 31/32, 63/64
        tol = Fraction(1, 10 ** rng.choice([4, 6, 8]))
        kmax = 20000
        def build(wa, wc, semiring):
            g = fggs.FGG("X")
            r1 = fggs.Graph(); r1.new_edge("c", [], is_terminal=True); g.new_rule("X", r1)
            r2 = fggs.Graph(); r2.new_edge("a", [], is_terminal=True); r2.new_edge("X", [], is_nonterminal=True); g.new_rule("X", r2)
            g.new_finite_factor("a", torch.tensor(wa, dtype=torch.float64)); g.new_finite_factor("c", torch.tensor(wc, dtype=torch.float64))
            return g
        if i % 3 != 2:
            c = Fraction(2) ** rng.choice([0, 10, 20, 30, 40])
            g = build(float(a), float(c), None)
            case = dict(semiring="real", a=str(a), c=str(c), tol=str(tol), kmax=kmax)
            try:
                z = fggs.sum_product(g, method="fixed-point", semiring=fggs.RealSemiring(dtype=torch.float64), tol=float(tol), kmax=kmax)
                obs = Fraction(float(z.to_dense() if hasattr(z, "to_dense") else z))
            except Exception as e:
                violations.append(Violation("sum_product raised %r" % (e,), case=case, corr="corr:tol")); continue
            xs = c / (1 - a)
            vals.append((a, c, tol, xs / 10 ** 12, obs)); metas.append(dict(case, observed=float(obs), least_fixed_point=float(xs)))
        else:
            lc = float(rng.choice([0, -30, -700, -3000])); la = math.log(float(a))
            g = build(la, lc, None)
            case = dict(semiring="log", log_a=la, log_c=lc, tol=str(tol), kmax=kmax)
            try:
                sr = fggs.LogSemiring(dtype=torch.float64)
                zf = float(fggs.sum_product(g, method="fixed-point", semiring=sr, tol=float(tol), kmax=kmax))
                zl = float(fggs.sum_product(build(la, lc, None), method="linear", semiring=sr))
            except Exception as e:
                violations.append(Violation("sum_product raised %r" % (e,), case=case, corr="corr:tol")); continue
            # in log space the loop stops when log x_{k+1} - log x_k <= tol, i.e. x_{k+1} - x_k <= (e^tol - 1) x_k, hence
            # x* - x_k <= (e^tol - 1) x_k / (1 - a) and log x* - log x_k <= (e^tol - 1) / (1 - a)
            bound = math.expm1(float(tol)) / float(1 - a) + 1e-9
            if not (zl - bound <= zf <= zl + 1e-9):
                violations.append(Violation("Log semiring: fixed-point result %r is further than tol-implied %g from method='linear' result %r" % (zf, bound, zl),
                                            case=case, observed=zf, expected=zl, corr="C11_fixed_point_stop_bound (log space, differential)",
                                            call="sum_product(method='fixed-point', tol=%s)" % tol))
    return vals, metas

ASSUMPTIONS = [
    "every option combination (method x j_precompute x dtype x interpreter -OO) is judged in Coq against the same exact model (C01/C02 check functions), so agreement between combinations follows from agreement with the model; bitwise equality of the -OO run with the normal run is additionally measured and reported",
    "Log = log Real: both judged against the ereal model; Bool = support of Real: theorem supp_Zk; Viterbi <= Log: the Viterbi result with real-valued log-weights is judged against the max-times model and theorem maxtimes_le_plustimes gives the inequality; for recursive grammars the relations are proved at the least fixed point / certified enclosures (C11_bool_lfp_is_support_of_real_lfp: the Boolean least fixed point is the support of the supremum of the Real Kleene chain; C11_viterbi_below_real_enclosure / _prefix: every max-times iterate is below every certified Real upper bound and every Real pre-fixed point)",
    "dtype float32 and the interpreter flags are runtime behaviour: decided by differential execution only",
    "gradients across option combinations are judged by C03's gradient check when available; j_precompute=True gradients are compared with j_precompute=False here (see known findings)",
    "magnitude stream (harness/props/_c11_mag.py, Model/Magnitude.v): the enclosure of the least solution is computed in Python with integer square roots but only used after Coq has checked the certificate (cert_ok); the conversion of the Log semiring's stopping distance to an absolute one ((e^tol - 1) * hi), the rounding allowances eps (1e-11 float64, 2e-5 float32, x20 for Log, divided by 1-L) and the first-order allowance for gradients taken at the approximate solution are computed in Python and trusted",
    "meaning of tol (fixed-point): the theorems are about exact rational Kleene iteration x_{k+1} = A x_k + c with the code's stopping test (Model/Tolerance.v: mt_close = MultiTensor.allclose with rtol=0, absent block = zero, equal infinities close; NaN not modelled); the float64 run is judged against the proved band [mu - tol/(1-||A||), mu] widened by delta = max(mu)/10^12 for rounding; the fixed point mu is computed in Python (exact Fractions) and re-verified inside vtol_check (mu == A mu + c; unique by C11_vector_fixed_point_unique)",
    "the vector stream's grammars have ONE strongly connected component of nonterminals (plus, for the block shape, a non-looping start symbol above it), so fixed_point iterates exactly x |-> A x + c from the empty MultiTensor; the correspondence grammar -> (A, c) for these shapes is by construction of the generator, not a theorem",
]

class SRX(SR):
    """Viterbi with real-valued log-weights, read through exp (max-times on [0,inf])"""
    def __init__(self, scale=Fraction(1)):
        SR.__init__(self, "log", "float64", scale)
        self.vit = True
    def semiring(self):
        import fggs
        return fggs.ViterbiSemiring(dtype=self.torch_dtype())
    def __repr__(self): return "viterbi-exp/float64"

def asserts_with_side_effects():
    """static pass: assert statements / `if __debug__` blocks in fggs/*.py that could change state"""
    found = []; total = 0
    for f in sorted(glob.glob(os.path.join(REPO, "fggs", "*.py"))):
        try: tree = ast.parse(open(f).read())
        except Exception: continue
        for node in ast.walk(tree):
            if isinstance(node, ast.Assert) or (isinstance(node, ast.If) and isinstance(node.test, ast.Name) and node.test.id == "__debug__"):
                total += 1
                for sub in ast.walk(node):
                    def nonlocal_target(t):
                        return isinstance(t, (ast.Attribute, ast.Subscript)) or (isinstance(t, (ast.Tuple, ast.List)) and any(nonlocal_target(x) for x in t.elts))
                    bad = isinstance(sub, ast.NamedExpr) or \
                          (isinstance(sub, ast.Assign) and any(nonlocal_target(t) for t in sub.targets)) or \
                          (isinstance(sub, ast.AugAssign) and nonlocal_target(sub.target)) or \
                          isinstance(sub, (ast.Global, ast.Nonlocal, ast.Delete)) or \
                          (isinstance(sub, ast.Call) and isinstance(sub.func, ast.Attribute) and sub.func.attr.endswith("_") and not sub.func.attr.startswith("__"))
                    if bad:
                        found.append("%s:%d" % (os.path.basename(f), node.lineno)); break
    return total, found

def run_worker(jobs, optimize):
    env = dict(os.environ, PYTHONPATH=REPO, FGGS_REPO=REPO)
    cmd = [sys.executable] + (["-OO"] if optimize else []) + [os.path.join(VERIF, "harness", "worker_sp.py")]
    p = subprocess.run(cmd, input=json.dumps(jobs), stdout=subprocess.PIPE, stderr=subprocess.PIPE, text=True, env=env, timeout=1500)
    if p.returncode != 0:
        raise BuildError("worker failed (optimize=%s): %s" % (optimize, p.stderr[-1500:]))
    return json.loads(p.stdout)

def obs_from(res, spec, sr, recursive):
    out = {}
    for k, vs in res["values"].items():
        xs = [v if isinstance(v, bool) else float.fromhex(v) for v in vs]
        if recursive and sr.name != "bool":
            out[int(k)] = [sr.obs(x, Fraction(1, 10**6) if sr.dtype == "float64" else Fraction(1, 2000), Fraction(1, 10**7) if sr.dtype == "float64" else Fraction(1, 10**4)) for x in xs]
        else:
            out[int(k)] = [sr.obs(x) for x in xs]
    return sorted(out.items())

def run(tier, seed):
    import sys as _s
    rng = random.Random(seed)
    n = int(os.environ.get("VERIF_N", 0)) or (22 if tier == "quick" else 500)
    violations = []
    jobs = []; info = []
    distinct = set()
    for i in range(n):
        recursive = (i % 2 == 1)
        patterned = recursive and i % 8 == 3
        if patterned:
            # sparse (PatternedTensor) weights; the sparsity pattern of a nonterminal's value changes during the iteration
            spec = gen.pattern_chain_spec(rng)
            srs = [SR("real", "float64", Fraction(1, 4)), SR("real", "float32", Fraction(1, 4)), SR("log", "float64", Fraction(1, 4)), SRX(Fraction(1, 4)), SR("bool", "bool")]
        elif recursive:
            spec = gen.random_spec(rng, recursive=True, linear=rng.choice([None, False, True]), allow_inf=False, max_nt=3, max_rules=3, max_nodes=3, max_edges=3, max_dom=2)
            spec["weights"] = {el: gen.nested_map(w, lambda v: v if v <= 1 else Fraction(1, 2)) for el, w in spec["weights"].items()}
            srs = [SR("real", "float64", Fraction(1, 4)), SR("real", "float32", Fraction(1, 4)), SR("log", "float64", Fraction(1, 4)), SRX(Fraction(1, 4)), SR("bool", "bool")]
        else:
            spec = gen.random_spec(rng, recursive=False)
            srs = [SR("real", "float64"), SR("real", "float32"), SR("log", "float64"), SRX(), SR("bool", "bool")]
        distinct.add(json.dumps(gen.spec_jsonable(spec), sort_keys=True))
        for sr in srs:
            for method in C01.METHODS:
                for jp in ([False, True] if method == "newton" else [False]):
                    job = dict(spec=gen.spec_jsonable(spec), sr=("log" if isinstance(sr, SRX) else sr.name), dtype=sr.dtype, scale=str(sr.scale), method=method,
                               j_precompute=jp, tol=(1e-10 if sr.dtype == "float64" else 1e-6) if sr.name in ("real", "log") else 1e-6, kmax=400,
                               viterbi_exp=isinstance(sr, SRX), patterned=patterned)
                    jobs.append(job); info.append((spec, sr, method, jp, recursive))
    # the worker must build ViterbiSemiring for viterbi_exp jobs: encode as sr="viterbi_exp"
    for j in jobs:
        if j["viterbi_exp"]: j["sr"] = "viterbi_exp"
    res_n = run_worker(jobs, optimize=False)
    res_o = run_worker(jobs, optimize=True)
    assert all(r["debug"] for r in res_n) and not any(r["debug"] for r in res_o)
    bitwise_same = 0; bitwise_diff = []
    groups = {}   # check fn kind -> (values, metas)
    def add(cf, v, m): groups.setdefault(cf.kind, (cf, [], []))[1].append(v); groups[cf.kind][2].append(m)
    for (spec, sr, method, jp, recursive), rn, ro in zip(info, res_n, res_o):
        case0 = dict(spec=gen.spec_jsonable(spec), semiring=repr(sr), method=method, j_precompute=jp)
        if rn.get("values") == ro.get("values") and rn.get("error") == ro.get("error") and rn.get("warned") == ro.get("warned"): bitwise_same += 1
        else: bitwise_diff.append(case0)
        for mode, r in (("normal", rn), ("-OO", ro)):
            case = dict(case0, interpreter=mode)
            call = "fggs.sum_products(fgg, method=%r, semiring=%r, j_precompute=%r) under python %s" % (method, sr, jp, mode)
            if "error" in r:
                if "not linearly recursive" in r["error"]:
                    raised = True; r = dict(r, values={}, warned=False)
                else:
                    fk = "jprecompute_exception" if (jp and not C03.jpre_ok_shape(spec)) else None
                    violations.append(Violation("sum_products raised: " + r["error"], case=case, call=call, corr="corr:options", oracle="no exception expected", finding_key=fk))
                    continue
            else:
                raised = False
            gw = grammar_wire(spec)
            obs = obs_from(r, spec, sr, recursive)
            if recursive:
                cf = MT["fp"] if isinstance(sr, SRX) else C02.CF[sr.carrier()]
                add(cf, (gw, weights_wire(spec, sr), (C01.METHODS.index(method), 3, Fraction(1, 10**6)), C02.K_ENCL, (raised, r["warned"], (not r["warned"]) and (not raised), obs)), (case, call, jp and not C03.jpre_ok_shape(spec)))
            else:
                if raised:
                    violations.append(Violation("ValueError(not linearly recursive) on a non-recursive grammar", case=case, call=call, corr="corr:options")); continue
                cf = MT["sp"] if isinstance(sr, SRX) else C01.CF[sr.carrier()]
                add(cf, (gw, weights_wire(spec, sr), obs), (case, call, jp and not C03.jpre_ok_shape(spec)))
    total = 0; nk = 0; skipped = 0
    for kind, (cf, vals, metas) in groups.items():
        codes, a = run_model(cf, vals, seed=seed, coq_sample=3, tag="c11" + kind.replace("-", "")); nk += a; total += len(codes)
        for (case, call, jp), c in zip(metas, codes):
            if c == 30: skipped += 1; continue
            if c == 0: continue
            violations.append(Violation("result under this option combination disagrees with the exact model (verdict %d of %s)" % (c, kind), case=case, call=call,
                                        oracle="exact model of the sum-product (C01/C02)", corr="C11 / corr:options", failing_input_found=c in (1, 4, 5, 6, 7),
                                        finding_key=("jprecompute_wrong_value" if jp else None)))
    # the meaning of tol
    tvals, tmetas = tol_cases(rng, 12 if tier == "quick" else 150, violations)
    tcodes, a = run_model(TOL, tvals, seed=seed, coq_sample=3, tag="c11tol"); nk += a; total += len(tcodes)
    for m, c in zip(tmetas, tcodes):
        if c == 0: continue
        violations.append(Violation("fixed-point result is not within tol/(1-a) of the least fixed point (verdict %d of tol_check): tol is not an absolute stopping distance" % c,
                                    case=m, observed=m["observed"], expected=m["least_fixed_point"], oracle="tol_check (C11_fixed_point_stop_bound, C11_tol_check_rejects)",
                                    corr="C11 / corr:tol", call="sum_product(method='fixed-point', tol=%s)" % m["tol"], failing_input_found=(c == 1)))
    # magnitudes: components tiny / huge relative to tol, scale factors up- and downstream (Model/Magnitude.v)
    mvals, mmetas, mag_hist = _c11_mag.cases(rng, int(os.environ.get("VERIF_MAG_N", 0)) or (6 if tier == "quick" else 120), tier, violations)
    mcodes, a = run_model(_c11_mag.MAG, mvals, seed=seed, coq_sample=3, tag="c11mag"); nk += a; total += len(mcodes)
    for (m, call), c in zip(mmetas, mcodes):
        if c == 0: continue
        violations.append(Violation("magnitude stream, verdict %d of mag_check: %s" % (c, _c11_mag.VERDICT.get(c, "?")), case=m, observed=m["observed"],
                                    expected=dict(least_solution=m["least_solution"]), call=call, corr="C11 / corr:magnitude",
                                    oracle="mag_check (C11_certificate_encloses_least_solution, C11_newton_stop_bound, C11_fixed_point_stop_bound_quadratic, C11_value_below_base_weight_rejected)",
                                    failing_input_found=c in (1, 2, 3, 4)))
    # the meaning of tol, vector / block systems
    vvals, vmetas = vtol_cases(rng, 6 if tier == "quick" else 120, violations)
    vcodes, a = run_model(VTOL, vvals, seed=seed, coq_sample=3, tag="c11vtol"); nk += a; total += len(vcodes)
    vshapes = {}
    for m, c in zip(vmetas, vcodes):
        vshapes[m["shape"]] = vshapes.get(m["shape"], 0) + 1
        if c == 0: continue
        violations.append(Violation("fixed-point result of a vector system is not within tol/(1-||A||) of the least fixed point (verdict %d of vtol_check)" % c,
                                    case=m, observed=m["observed"], expected=m["least_fixed_point"], oracle="vtol_check (C11_vector_stop_bound, C11_vtol_check_rejects)",
                                    corr="C11 / corr:vtol", call="sum_products(method='fixed-point', tol=%s)" % m["tol"], failing_input_found=(c == 1)))
    # gradients across method x j_precompute x semiring (C03's dual-number check)
    gvals = []; gmeta = []; f9_skipped = 0
    for gi in range(max(6, n // 2)):
        recursive = (gi % 2 == 1)
        jspec = C03.jpre_spec(rng, recursive)
        for sr in (SR("real", "float64", Fraction(1, 8) if recursive else Fraction(1)), SR("log", "float64", Fraction(1, 8) if recursive else Fraction(1))):
            for method in ("fixed-point", "newton"):
                for jp in ((False, True) if sr.name == "real" else (False,)):
                    try:
                        got = C03.grad_cases(jspec, sr, method, rng=rng, j_precompute=jp)
                    except (AssertionError, RuntimeError) as e:
                        if jp:
                            f9_skipped += 1
                            violations.append(Violation("sum_product(..., j_precompute=True).backward() raised: %r" % (e,), case=dict(spec=gen.spec_jsonable(jspec), semiring=repr(sr), method=method),
                                                        corr="corr:options-gradient", call="backward with j_precompute=True",
                                                        finding_key=(None if C03.jpre_ok_shape(jspec) else "jprecompute_exception")))
                            continue
                        raise
                    for cf, wire, meta in got:
                        gvals.append(wire); gmeta.append((meta["case"], jp))
    for gi in range(max(6, n // 2)):
        recursive = (gi % 2 == 1)
        gspec, scale, keep_zero = C03.gen_spec(rng, 3 * gi + 1 if recursive else gi, recursive)
        for sname in (("real",) if keep_zero else ("real", "log")):
            sr = SR(sname, "float64", scale)
            for method in ("fixed-point", "newton", "linear"):
                try:
                    got = C03.grad_cases(gspec, sr, method, rng=rng)
                except Exception as e:
                    violations.append(Violation("sum_product(...).backward() raised: %r" % (e,), case=dict(spec=gen.spec_jsonable(gspec), semiring=repr(sr), method=method),
                                                corr="corr:options-gradient", call="backward"))
                    continue
                for cf, wire, meta in got:
                    gvals.append(wire); gmeta.append((meta["case"], False))
    if gvals:
        gcodes, a = C03.run_model_parallel(gvals, seed, 2)
        nk += a; total += len(gcodes)
        for (case, jp), c in zip(gmeta, gcodes):
            if c in (0, 30, 31): continue
            violations.append(Violation("gradient under this option combination differs from the exact derivative (C03 verdict %d)" % c, case=case,
                                        oracle="dual-number derivative (C03)", corr="C11 / C03", failing_input_found=(c == 1), call="sum_product(...).backward()",
                                        finding_key=None))
    n_assert, side = asserts_with_side_effects()
    for s in side:
        violations.append(Violation("assert / __debug__ block with a possible side effect at %s (behaviour could differ under -O)" % s, case=dict(location=s),
                                    corr="static pass over fggs/*.py", failing_input_found=False))
    cov = dict(evaluations=total, distinct_nontrivial=len(distinct), discarded_inconclusive=skipped,
               option_combinations_per_grammar=len(jobs) // max(n, 1) * 2,
               bitwise_identical_OO_vs_normal=bitwise_same, bitwise_different=len(bitwise_diff), bitwise_different_samples=bitwise_diff[:3],
               asserts_scanned=n_assert, asserts_with_side_effects=side,
               rule="random FGG specs (half non-recursive, half recursive) x {Real f64, Real f32, Log, Viterbi(real log-weights, max-times reading), Bool} x {fixed-point, newton, newton+j_precompute, linear} x {python, python -OO}; every result judged in Coq against the exact model; distinct_nontrivial = distinct specs; plus the magnitude stream: per-element scalar systems x = c x^2 + a x + b (quadratic / quadratic+linear / linear SCC) with solutions 1e-8..1e8 (all below tol, above tol, mixed), contraction 1e-6..0.8, scale factors 1e-8..1e8 upstream (earlier component) and downstream, elements without derivation, x {fixed-point, newton, newton+j_precompute, linear} x {float64, float32} x {Real, Log} x {default tol, explicit tol 1e-2/1e-3/1e-6/1e-9}: X, Z, dZ/d(base weight), dZ/dg judged in Coq (mag_check) against a certified enclosure of the least solution",
               kernel_reevaluated=nk,
               samples=[dict(info=repr(info[0][1:4]), result=res_n[0])],
               magnitude_cases=len(mvals), magnitude_histogram=mag_hist,
               tol_scalar_cases=len(tvals), tol_vector_cases=len(vvals), tol_vector_shapes=vshapes,
               gradient_cases=len(gvals), jprecompute_gradient_exceptions=f9_skipped,
               open_items=["gradients are judged on C03's j_precompute-friendly grammar family (rules with one or two edges); on other shapes j_precompute=True is covered by the known findings F9",
                           "stop bound: proved for linear systems x = A x + c over Q^n (C11_vector_stop_bound, C11_vector_fixed_point_run, C11_block_fixed_point_run) and for polynomial systems with non-negative coefficients over Q^n under a row-sum bound of the Jacobian at the least fixed point (C11_poly_stop_bound); NOT connected by a theorem to the grammar model (step ereal_ops G w as such a system), nor to several SCCs solved in sequence (the error of an earlier component enters the later one's c)",
                           "pass_bound is linear in C/tol (Bernoulli); the sharp count is the least K with a^K C <= tol (C11_vector_test_fires is stated with a^K)",
                           "Log-semiring reading of tol (differences of log-values) is judged differentially only"])
    return cov, violations

def replay(path):
    print("re-run: bin/check C11 quick with the recorded seed")
    return 1

MANIFEST = dict(
    level="proof",
    text="Coq: a semiring homomorphism commutes with every Kleene iterate of the sum-product (hence Boolean result = support of the Real result), max-times is below plus-times on [0,inf] (Viterbi <= Log in the exp reading), both carried to least fixed points / certified enclosures of recursive grammars, Log and Real share one model; one-step and linear downgrades are sound by C01/C02. Meaning of tol (fixed-point), proved for every n: for x = A x + c over Q^n (entries >= 0, max row sum a < 1) Kleene iteration from 0 with the code's stopping test (model of MultiTensor.allclose: absolute, symmetric, absent block = zero, whichever blocks are materialised) stops within K passes whenever a^K max(c) <= tol (explicit K = ceil((C-tol)/(tol(1-a)))) without warning and returns x_k with x_k <= mu <= x_k + tol/(1-a) componentwise (and x_{k+1} within a tol/(1-a)), mu the unique = least fixed point, whatever the magnitude of c; the same band for polynomial systems with non-negative coefficients whose Jacobian row sums at the least fixed point are <= a; check functions tol_check / vtol_check proved sound and rejecting, and run on scalar, two-/three-nonterminal and block-valued linear grammars with values up to 2^40. Differential execution: every combination of method x j_precompute x dtype x {python, python -OO} on generated FGGs is judged in Coq against the same exact model; bitwise agreement of -OO with the normal interpreter and a static scan of assert statements are recorded. Magnitudes: for scalar polynomial components (solutions 1e-8..1e8, default and explicit tol, scale factors up- and downstream) values and gradients of every method x dtype x {Real, Log} are judged in Coq against a certified enclosure of the least solution; proved: the certificate encloses it, newton stops within tol*L/(1-L), fixed-point within tol/(1-L), the base weight is within relative L of the solution, a value below the base weight is rejected.",
    note="Partial: dtype and interpreter flags are runtime behaviour a Gallina model cannot exhibit; decided by differential execution. Trusted: Coq kernel, extraction cross-checked by vm_compute, harness and worker.",
    technique="Coq homomorphism/lax-homomorphism theorems + model-judged differential execution over the option matrix",
    design_ref="DESIGN.md section 6, C11")
