"""C04 -- viterbi returns a well-formed derivation of maximal weight."""
import random, json, warnings, itertools, math
from fractions import Fraction
from harness.core import *
from harness import gen
from harness.props._sp_util import *

PID = "C04"
LEVEL = "proof"
_DT = {}
def _dt(): return _DT["t"]
DTreeRec = Rec("dtree", "d_dtree", _dt)
DTree = Sum("dtree", "SumProduct", {"DT": Tup(Nat, List(Nat), List(Option(DTreeRec)))})
_DT["t"] = DTree
GLUE_PREAMBLE = "let rec d_dtree s = (%s) s" % DTree.dec()
VIT = CheckFn("viterbi", "Model.Viterbi", "vit_check",
              Tup(GrammarT, List(Tup(Nat, List(TropV))), List(Nat), Nat, Tup(Nat, DTreeRec, TropV, TropB)), imports=["Model.SumProduct"])
# the code-shaped model of viterbi.py (Model/ViterbiAlg.v): F_viterbi with pointer tables, the
# per-component loop with the pointer merge, reconstruct; compared with the implementation's derivation
ALG = CheckFn("viterbi_alg", "Model.ViterbiAlg", "vit_alg_check",
              Tup(GrammarT, List(Tup(Nat, List(TropV))), List(Nat), Tup(Nat, QQ), Tup(Nat, DTreeRec)), imports=["Model.SumProduct"])
CHECKFNS = [VIT, ALG]
KMAX = 1000                      # viterbi's defaults, passed to the model as well
TOL = Fraction(1, 10**6)
ASSUMPTIONS = [
    "integer log-weights, so float arithmetic is exact and ties are frequent; any optimal derivation is accepted",
    "the optimum is the exact Viterbi-semiring least fixed point computed by the Coq model (Kleene iteration to a fixed point); start assignments whose optimum is -inf or +inf are outside the property and skipped",
]
SRV = SR("viterbi", "float64")
K_ENCL = 40
MISSING = 4999

def to_tree(deriv, b, spec):
    """FGGDerivation -> ('DT', (rule index, assignment, children))"""
    ri = None
    for i, (rule, nodes, edges) in enumerate(b.rules):
        if rule is deriv.rule: ri = i; break
    if ri is None:
        for i, (rule, nodes, edges) in enumerate(b.rules):
            if rule == deriv.rule: ri = i; break
    if ri is None: raise KeyError("derivation uses a rule that is not in the grammar")
    rule, nodes, edges = b.rules[ri]
    a = []
    for n in nodes:
        v = deriv.asst.get(n, None)
        a.append(int(v) if isinstance(v, int) and 0 <= v < MISSING else MISSING)
    ch = []
    for e in edges:
        if e.label.is_nonterminal:
            c = deriv.children.get(e)
            ch.append(None if c is None else to_tree(c, b, spec))
        else:
            ch.append(None)
    extra = [e for e in deriv.children if e not in edges]
    if extra: raise KeyError("derivation has a child for an edge that is not in the rule")
    return ("DT", (ri, a, ch))

def derive_weight(deriv, b):
    g, asst = deriv.derive()
    tot = 0.0
    for e in g.edges():
        if e.label.is_nonterminal: raise ValueError("derived graph still has a nonterminal edge")
        w = g.factors[e.label.name].weights.to_dense()
        idx = tuple(int(asst[n]) for n in e.nodes)
        tot += float(w[idx]) if idx else float(w)
    for n in g.nodes():
        if n not in asst: raise KeyError("derive(): node without a value")
    return tot

def run_impl(spec, xi, ids="explicit", rng=None):
    import fggs
    b = gen.build_fgg(spec, SRV.wconv, ids=ids, rng=rng, dtype=SRV.torch_dtype())
    with warnings.catch_warnings():
        warnings.simplefilter("ignore")
        sp = fggs.sum_product(b.fgg, semiring=SRV.semiring(), method="fixed-point")
        spv = float(sp.to_dense()[tuple(xi)]) if xi else float(sp.to_dense())
        try:
            d = fggs.viterbi(b.fgg, tuple(xi), semiring=SRV.semiring())
            tree = to_tree(d, b, spec)
        except RecursionError as e:
            return spv, ("exc", "RecursionError"), None
        except Exception as e:
            return spv, ("exc", type(e).__name__ + ": " + str(e)[:80]), None
        try:
            dw = derive_weight(d, b)
        except Exception as e:
            dw = ("exc", type(e).__name__ + ": " + str(e)[:80])
    return spv, tree, dw

def tv(x):
    if isinstance(x, tuple): return (0, Fraction(0))   # placeholder; flagged separately
    if x == math.inf: return (2, Fraction(0))
    if x == -math.inf: return (0, Fraction(0))
    return (1, Fraction(x))

DUMMY = ("DT", (0, [], []))

def classify(spec, tree_or_exc):
    """known defect classes of the unmodified code (kept for the record; all repaired in /repo)"""
    return None

def run(tier, seed):
    rng = random.Random(seed)
    n = int(os.environ.get("VERIF_N", 0)) or (260 if tier == "quick" else 4000)
    violations = []; vals = []; avals = []; meta = []; feats = {}; distinct = set()
    import sys
    sys.setrecursionlimit(3000)
    for i in range(n):
        rec = (i % 3 == 0)
        # every 12th case: a long chain (3-4 nonterminals x 3-4 states: the optimum needs up to ~16 passes of the
        # fixed-point loop, so a wrong iteration cap or a lost pointer shows)
        spec = gen.chain_spec(rng, n_nt=rng.randint(3, 4), dom=rng.randint(3, 4)) if i % 12 == 9 else gen.chain_spec(rng) if i % 6 == 3 else gen.random_spec(rng, recursive=rec, allow_inf=False, max_nt=3, max_dom=2 if rec else 3,
                               max_nodes=3 if rec else 4, max_edges=3 if rec else 4, linear=rng.choice([None, False]) if rec else None, dup_ext=False)
        spec["weights"] = {el: gen.nested_map(w, lambda v: v if v <= 1 else Fraction(1, 2)) for el, w in spec["weights"].items()}
        key = json.dumps(gen.spec_jsonable(spec), sort_keys=True); distinct.add(key)
        for f in spec["features"]: feats[f] = feats.get(f, 0) + 1
        st = spec["elabels"][spec["start"]]["type"]
        xis = list(itertools.product(*[range(spec["nlabels"][nl]) for nl in st]))
        rng.shuffle(xis)
        for xi in xis[:2]:
            try:
                spv, tree, dw = run_impl(spec, list(xi), ids=["explicit", "implicit", "mixed"][i % 3], rng=rng)
            except Exception as e:
                violations.append(Violation("harness could not run viterbi/sum_product: %r" % (e,), case=dict(spec=gen.spec_jsonable(spec), start_asst=list(xi)),
                                            corr="corr:viterbi", failing_input_found=True, call="fggs.viterbi"))
                continue
            if isinstance(tree, tuple) and tree[0] == "exc":
                obs = (1, DUMMY, (0, Fraction(0)), SRV.obs(spv)); note = tree[1]
            else:
                obs = (0, tree, tv(dw) if not isinstance(dw, tuple) else (2, Fraction(0)), SRV.obs(spv))
                note = dw[1] if isinstance(dw, tuple) else None
            vals.append((grammar_wire(spec), weights_wire(spec, SRV), list(xi), K_ENCL, obs))
            avals.append((grammar_wire(spec), weights_wire(spec, SRV), list(xi), (KMAX, TOL), (obs[0], obs[1])))
            meta.append((spec, list(xi), obs, note))
    codes, nk = run_model(VIT, vals, seed=seed, coq_sample=6 if tier == "quick" else 40, tag="c04")
    skipped = {30: 0, 31: 0}; judged = 0
    WHAT = {1: "viterbi raised instead of returning a derivation although the optimum is finite",
            5: "returned derivation is not well formed (rule of the wrong nonterminal, node without a value in its domain, external nodes disagreeing with the parent, or missing/extra child)",
            6: "weight of the returned derivation is not the maximum over all derivations",
            7: "derive()'s factor graph and assignment have a different total weight than the derivation (or derive() failed)",
            8: "sum_product(semiring=Viterbi) at the start assignment differs from the maximum over all derivations"}
    for (spec, xi, obs, note), c in zip(meta, codes):
        if c in skipped: skipped[c] += 1; continue
        judged += 1
        if c == 0: continue
        violations.append(Violation(WHAT.get(c, "framework inconsistency (code %d)" % c) + ((" [" + note + "]") if note else ""),
                                    case=dict(spec=gen.spec_jsonable(spec), start_asst=xi), observed=obs,
                                    oracle={5: "wf_dtree_b", 6: "weight = optimum", 7: "derive weight", 8: "optimum"}.get(c, "optimum finite => derivation"),
                                    corr="C04 / corr:viterbi", failing_input_found=c in WHAT, call="fggs.viterbi(fgg, %r)" % (tuple(xi),),
                                    finding_key=classify(spec, obs)))
    # --- the code-shaped model (pointer tables, merge, reconstruct) against the same derivations
    # (cases whose optimum is -inf / divergent are outside the property: vit_check's 30/31 depend on the grammar only)
    keep = [i for i, c in enumerate(codes) if c not in skipped]
    acodes, ank = run_model(ALG, [avals[i] for i in keep], seed=seed, coq_sample=4 if tier == "quick" else 30, tag="c04alg")
    AWHAT = {1: "viterbi raised although the code-shaped model finds a derivation of finite weight",
             5: "returned derivation is not well formed (judged by the model-side check)",
             10: "the implementation's derivation and the code-shaped model's derivation have different weights (one of them is not optimal; vit_check decides which)"}
    alg = dict(exact_agreement=0, agree_up_to_ties=0, skipped_value_not_finite=0, skipped_model_not_converged=0, compared=0)
    for (spec, xi, obs, note), c in zip([meta[i] for i in keep], acodes):
        if c == 31: alg["skipped_value_not_finite"] += 1; continue
        if c in (33, 34): alg["skipped_model_not_converged"] += 1; continue
        alg["compared"] += 1
        if c == 0: alg["exact_agreement"] += 1; continue
        if c == 32: alg["agree_up_to_ties"] += 1; continue
        violations.append(Violation(AWHAT.get(c, "framework inconsistency in the code-shaped viterbi model (code %d)" % c) + ((" [" + note + "]") if note else ""),
                                    case=dict(spec=gen.spec_jsonable(spec), start_asst=xi), observed=obs,
                                    oracle={1: "model finds a finite derivation", 5: "wf_dtree_b", 10: "weight = model's value"}.get(c, "viterbi_model"),
                                    corr="C04 / corr:viterbi_alg (Model/ViterbiAlg.v viterbi_model)", failing_input_found=c in (1, 5),
                                    call="fggs.viterbi(fgg, %r)" % (tuple(xi),), finding_key=classify(spec, obs)))
    cov = dict(evaluations=len(vals), viterbi_model=alg, exact_agreement=alg["exact_agreement"], kernel_reevaluated_alg=ank, distinct_nontrivial=len(distinct), judged=judged,
               skipped_divergent=skipped[30], skipped_optimum_not_finite=skipped[31],
               rule="random FGG specs with integer log-weights in {-inf,-2,-1,0} (two thirds non-recursive, one third recursive incl. weight-0 cycles and non-linear recursion), up to two start assignments each; forced shapes: rules whose attached nodes are all external, isolated nodes, size-1 domains, nullary factors, repeated attachments; distinct by spec, all with >= 1 rule",
               feature_histogram=feats, kernel_reevaluated=nk,
               samples=[dict(spec=gen.spec_jsonable(meta[0][0]), start_asst=meta[0][1], observed=meta[0][2])] if meta else [],
               open_items=["the inside of log_viterbi_einsum_forward (physical/virtual axis translation of the arg-max pointers, torch_semiring_einsum's tie-breaking) is taken by contract in Model/ViterbiAlg.v (maximum + one maximiser, first in row-major order): the model and the implementation are compared up to ties (exact_agreement is reported); DESIGN's L4 argmax_einsum_model is not built",
                           "C04_reconstruct_terminates / C04_alg_optimal need the ghost flag 'the last two iterates of every iterated component were EXACTLY equal'; for a stop by tol > 0 between different iterates or by kmax the statement is false (C04_unconverged_weight_refuted) and nothing is claimed",
                           "the cell-wise array-of-structs representation of the three pointer tensors, [rebuild] using the first (not last) binding of a repeated external node, and kmax = 0 (model: None; code: unbound/stale variables) are modelling choices validated by the correspondence only",
                           "FGGDerivation.derive() (hyperedge replacement) is not modelled in Gallina: C04_weight_is_factor_product proves that the derivation's weight is the product of its rule instances' terminal factor entries; that derive()'s factor graph has exactly these edges and values is checked per case by re-scoring derive()'s output in the harness (verdict 7)",
                           "positive-weight cycles (no finite attained maximum): the exact enclosure does not converge, verdict 30, case skipped (outside the property's quantifier)"])
    return cov, violations

def replay(path):
    r = json.load(open(path)); c = r["case"]
    spec = gen.spec_from_json(c["spec"]); xi = c["start_asst"]
    spv, tree, dw = run_impl(spec, xi)
    if isinstance(tree, tuple) and tree[0] == "exc":
        obs = (1, DUMMY, (0, Fraction(0)), SRV.obs(spv))
    else:
        obs = (0, tree, tv(dw) if not isinstance(dw, tuple) else (2, Fraction(0)), SRV.obs(spv))
    code = run_coq(VIT, [(grammar_wire(spec), weights_wire(spec, SRV), xi, K_ENCL, obs)], tag="replay")[0]
    acode = run_coq(ALG, [(grammar_wire(spec), weights_wire(spec, SRV), xi, (KMAX, TOL), (obs[0], obs[1]))], tag="replayalg")[0]
    print("sum_product", spv, "derivation", tree, "derive weight", dw, "verdict code", code, "code-shaped model verdict", acode)
    return 1 if (code not in (0, 30, 31) or (code == 0 and acode not in (0, 31, 32, 33, 34))) else 0

MANIFEST = dict(
    level="proof",
    text="Coq (Props/C04.v, all closed, no premises about the semiring): derivation trees, their weight and well-formedness are defined once (shared with C01). C04_wf_reflect: the executable well-formedness test decides the Prop (rule of the nonterminal rewritten, every node of the rule instance has a value in its domain, externals agree with the parent, exactly one child per edge) for every grammar. C04_tree_weight_below_kleene: in the Viterbi semiring every well-formed derivation's weight is below the Kleene iterate at its depth. C04_optimal: when the exact max-plus Kleene iteration reaches its fixed point, that value bounds the weight of every well-formed derivation of every nonterminal and assignment (any depth), equals the maximum over the derivations of bounded depth and is attained by one of them unless it is -inf. C04_check_sound: verdict 0 of the check means the returned derivation is well formed, has finite weight, no derivation of the start symbol at that assignment weighs more, sum_product(Viterbi) contains that value and derive()'s re-scored weight equals it. C04_weight_is_factor_product: the weight of a derivation is the product of the terminal factor entries of its rule instances (= the score of derive()'s factor graph). The (max,+) law records are proved (C04_trop_ring, C04_trop_ordered). Every derivation returned by fggs.viterbi on generated FGGs is converted to a tree and judged by the extracted check. The algorithm itself is modelled in Model/ViterbiAlg.v (arg-max per rule, F_viterbi's value / lhs_pointer / rhs_pointer cells with first-rule filling and strict-improvement overwrite, the per-component loop with the pointer merge of repair b171ddf, reconstruct with fuel): C04_ptr_inv (after any number of passes every finite cell's pointers name a rule and an in-range assignment whose edge product, with the values of the pass the pointer was recorded in, is the cell's value), C04_reconstruct_terminates (if every loop stopped with two equal iterates, reconstruct with fuel #components*(kmax+1) returns, for every finite cell, a well-formed derivation weighing the cell's value), C04_tables_lfp / C04_alg_optimal (the value tables are the least fixed point of the max-plus equations, so viterbi_model's derivation is optimal and equals the enclosure's optimum), C04_alg_check_sound (verdict 0/32 of the second check: the implementation's derivation is well formed and optimal), C04_old_pointer_loop_refuted (the pre-repair pointer discipline loops on X -> X a | b for every fuel), C04_unconverged_weight_refuted (the convergence premise is needed). fggs.viterbi's derivation is compared with viterbi_model's on every generated case (equal, or equal weight up to tie-breaking).",
    note="Trusted: Coq kernel, extraction cross-checked by vm_compute, harness conversion of FGGDerivation objects to trees and the harness's re-scoring of derive()'s output; log_viterbi_einsum_forward is modelled by its contract (maximum + a maximiser), derive() itself is not modelled.",
    technique="Coq-verified oracle (well-formedness + optimality against the exact trop least fixed point, proved to be the maximum over all derivation trees) on implementation outputs; code-shaped Gallina model of viterbi.py with invariant proofs, compared with the implementation's derivations up to ties",
    design_ref="DESIGN.md section 6, C04")
