"""C04 -- viterbi returns a well-formed derivation of maximal weight."""
import random, json, warnings, itertools, math
from fractions import Fraction
from harness.core import *
from harness import gen
from harness.props._sp_util import *
from harness.props import _c04_pat as pat

PID = "C04"
LEVEL = "proof"
_DT = {}
def _dt(): return _DT["t"]
DTreeRec = Rec("dtree", "d_dtree", _dt)
DTree = Sum("dtree", "SumProduct", {"DT": Tup(Nat, List(Nat), List(Option(DTreeRec)))})
_DT["t"] = DTree
GLUE_PREAMBLE = "let rec d_dtree s = (%s) s" % DTree.dec()
VIT = CheckFn("viterbi", "Model.Viterbi", "vit_check",
              Tup(GrammarT, List(Tup(Nat, List(TropV))), List(Nat), Nat, Tup(Nat, DTreeRec, TropV, TropB)), imports=["Model.SumProduct"])
# the code-shaped model of viterbi.py (Model/ViterbiAlg.v): F_viterbi with pointer tables, the
# per-component loop with the pointer merge, reconstruct; compared with the implementation's derivation
ALG = CheckFn("viterbi_alg", "Model.ViterbiAlg", "vit_alg_check",
              Tup(GrammarT, List(Tup(Nat, List(TropV))), List(Nat), Tup(Nat, QQ), Tup(Nat, DTreeRec)), imports=["Model.SumProduct"])
# histories of calls on ONE FGG object (Model/ViterbiHist.v): initial grammar and weights, K, and per step
# (in-place weight updates (label, flat index, value), rules added, start assignment, observation); the model
# computes the state each call is judged against itself
ObsT = Tup(Nat, DTreeRec, TropV, TropB)
HIST = CheckFn("viterbi_hist", "Model.ViterbiHist", "vit_hist_check",
               Tup(GrammarT, List(Tup(Nat, List(TropV))), Nat, List(Tup(List(Tup(Nat, Nat, TropV)), List(RuleT), List(Nat), ObsT))),
               imports=["Model.SumProduct"])
CHECKFNS = [VIT, ALG, HIST]
KMAX = 1000                      # viterbi's defaults, passed to the model as well
TOL = Fraction(1, 10**6)
ASSUMPTIONS = [
    "integer log-weights, so float arithmetic is exact and ties are frequent; any optimal derivation is accepted",
    "the optimum is the exact Viterbi-semiring least fixed point computed by the Coq model (Kleene iteration to a fixed point); start assignments whose optimum is -inf or +inf are outside the property and skipped",
    "the property is about the FGG as it is at the time of the call: in a history of calls on one object (in-place weight updates, a new tensor assigned, rules added in between) every call is judged against the state the Coq model (Model/ViterbiHist.v hist_cases) computes from the initial state and the updates; the harness checks by read-back that each update reached the factor",
    "factors whose weights are PatternedTensors (diagonal, sum-embedded, one-hot, expanded stride-0, product patterns; default -inf, rarely finite) denote a dense tensor; that denotation is computed by the harness from the plain-data pattern (harness/props/_c04_pat.py pat_dense, not by to_dense(), which is only read back as a sanity check) and is what the Coq oracle is given. Every node label has ONE index type (atom / b+m+a sum / 2x2 product) shared by all factors, as the library requires (Axis.unify reports 'index type mismatch' otherwise and the result is then unspecified: outside the property)",
    "how the FGG object was built (one label object per name, a new equal label object per use, the convenience API, FGG.copy()) must not matter: all four constructions are generated",
]
SRV = SR("viterbi", "float64")
K_ENCL = 40
MISSING = 4999

def to_tree(deriv, b, spec):
    """FGGDerivation -> ('DT', (rule index, assignment, children))"""
    ri = None
    for i, (rule, nodes, edges) in enumerate(b.rules):
        if rule is deriv.rule: ri = i; break
    if ri is None:
        for i, (rule, nodes, edges) in enumerate(b.rules):
            if rule == deriv.rule: ri = i; break
    if ri is None: raise KeyError("derivation uses a rule that is not in the grammar")
    rule, nodes, edges = b.rules[ri]
    a = []
    for n in nodes:
        v = deriv.asst.get(n, None)
        a.append(int(v) if isinstance(v, int) and 0 <= v < MISSING else MISSING)
    ch = []
    for e in edges:
        if e.label.is_nonterminal:
            c = deriv.children.get(e)
            ch.append(None if c is None else to_tree(c, b, spec))
        else:
            ch.append(None)
    extra = [e for e in deriv.children if e not in edges]
    if extra: raise KeyError("derivation has a child for an edge that is not in the rule")
    return ("DT", (ri, a, ch))

def derive_weight(deriv, b):
    g, asst = deriv.derive()
    tot = 0.0
    for e in g.edges():
        if e.label.is_nonterminal: raise ValueError("derived graph still has a nonterminal edge")
        w = g.factors[e.label.name].weights.to_dense()
        idx = tuple(int(asst[n]) for n in e.nodes)
        tot += float(w[idx]) if idx else float(w)
    for n in g.nodes():
        if n not in asst: raise KeyError("derive(): node without a value")
    return tot

VARIANTS = ["shared", "fresh", "api", "copy"]

def _rule_wire(r):
    return (r["lhs"], list(r["nodes"]), [(el, list(att)) for el, att in r["edges"]], list(r["ext"]))

class Obj:
    """one FGG object under construction / under a history, with the maps back to the spec"""
    def __init__(self, spec, variant, rng, ids="mixed"):
        import fggs
        self.spec, self.variant, self.rng, self.ids = spec, variant, rng, ids
        self.p_fresh = 1.0 if variant != "fresh" else rng.choice([1.0, 1.0, 0.5])
        self.cnl = [fggs.NodeLabel(gen.nl_name(i)) for i in range(len(spec["nlabels"]))]
        self.cel = [fggs.EdgeLabel(gen.el_name(spec, i), [self.cnl[nl] for nl in e["type"]], is_terminal=e["term"], is_nonterminal=not e["term"])
                    for i, e in enumerate(spec["elabels"])]
        self.rules = []; self.tensors = {}; self.factors = {}
    # label objects: the canonical one, or a NEW object that is equal to it
    def NL(self, i, fresh):
        import fggs
        return fggs.NodeLabel(gen.nl_name(i)) if fresh and self.rng.random() < self.p_fresh else self.cnl[i]
    def EL(self, i, fresh):
        import fggs
        if fresh and self.rng.random() < self.p_fresh:
            e = self.spec["elabels"][i]
            return fggs.EdgeLabel(gen.el_name(self.spec, i), [self.NL(nl, fresh) for nl in e["type"]], is_terminal=e["term"], is_nonterminal=not e["term"])
        return self.cel[i]
    def _id(self, s):
        return s if (self.ids == "explicit" or (self.ids == "mixed" and self.rng.random() < 0.5)) else None
    def add_rule(self, ri):
        """add rule ri of the spec to the object (rules must be added in spec order: the model indexes them so)"""
        import fggs
        r = self.spec["rules"][ri]; spec = self.spec
        assert ri == len(self.rules)
        g = fggs.Graph()
        if self.variant == "api":
            # the convenience API creates a new NodeLabel per node and a new EdgeLabel per edge and per left-hand side
            nodes = [g.new_node(gen.nl_name(nl), id=self._id("n%d" % k)) for k, nl in enumerate(r["nodes"])]
            edges = [g.new_edge(gen.el_name(spec, el), [nodes[i] for i in att], is_terminal=spec["elabels"][el]["term"],
                                is_nonterminal=not spec["elabels"][el]["term"], id=self._id("e%d" % k)) for k, (el, att) in enumerate(r["edges"])]
            g.ext = [nodes[i] for i in r["ext"]]
            rule = self.fgg.new_rule(gen.el_name(spec, r["lhs"]), g)
        else:
            fresh = self.variant == "fresh"
            nodes = [fggs.Node(self.NL(nl, fresh), id=self._id("n%d" % k)) for k, nl in enumerate(r["nodes"])]
            for nd in nodes: g.add_node(nd)
            edges = []
            for k, (el, att) in enumerate(r["edges"]):
                e = fggs.Edge(self.EL(el, fresh), [nodes[i] for i in att], id=self._id("e%d" % k))
                g.add_edge(e); edges.append(e)
            g.ext = [nodes[i] for i in r["ext"]]
            rule = fggs.HRGRule(self.EL(r["lhs"], fresh), g)
            self.fgg.add_rule(rule)
        self.rules.append((rule, nodes, edges))

def build_variant(spec, variant, rng, n_rules=None, ids="mixed", pats=None):
    """an FGG for spec whose label objects are, by variant:
    'shared' one EdgeLabel/NodeLabel object per name (as json_to_fgg does); 'fresh' a new, equal object for (almost)
    every use; 'api' built with new_finite_domain / new_node / new_edge / new_rule / new_finite_factor (a new label
    object per node, edge and left-hand side); 'copy' FGG.copy() of a 'shared' object.  Only the first n_rules rules
    are added (Obj.add_rule adds the others later).  pats: terminal -> pattern (harness/props/_c04_pat.py): that factor's
    weights are the PatternedTensor built from the pattern (whose hand-computed denotation spec["weights"] holds; checked
    by read-back) instead of a dense torch tensor."""
    import fggs, torch
    o = Obj(spec, "shared" if variant == "copy" else variant, rng, ids=ids)
    st = spec["start"]
    if variant == "api":
        o.fgg = fggs.FGG(gen.el_name(spec, st)) if not spec["elabels"][st]["type"] else fggs.FGG(o.EL(st, True))
        for i, size in enumerate(spec["nlabels"]):
            o.fgg.new_finite_domain(gen.nl_name(i), ["v%d_%d" % (i, k) for k in range(size)])
    else:
        o.fgg = fggs.FGG(o.EL(st, variant == "fresh"))
        if variant != "fresh" or rng.random() < 0.5:
            for nl in o.cnl: o.fgg.add_node_label(nl)
            for el in o.cel: o.fgg.add_edge_label(el)
    nr = len(spec["rules"]) if n_rules is None else n_rules
    for ri in range(nr): o.add_rule(ri)
    if variant != "api":
        for i, size in enumerate(spec["nlabels"]):
            o.fgg.add_domain(o.NL(i, variant == "fresh"), fggs.FiniteDomain(["v%d_%d" % (i, k) for k in range(size)]))
    for el, w in sorted(spec["weights"].items()):
        t = torch.tensor(gen.nested_map(w, SRV.wconv), dtype=SRV.torch_dtype())
        if pats and el in pats:
            shape = [spec["nlabels"][nl] for nl in spec["elabels"][el]["type"]]
            want = t.reshape(shape)
            t = pat.pat_build(pats[el], SRV.wconv, SRV.torch_dtype())
            if list(t.shape) != shape or not torch.equal(t.to_dense(), want):
                raise RuntimeError("harness: PatternedTensor built from pattern %r of t%d does not denote the hand-computed tensor (to_dense() %r != %r)"
                                   % (pats[el], el, t.to_dense().tolist(), want.tolist()))
        name = gen.el_name(spec, el)
        if variant == "api" and o.fgg.has_edge_label_name(name):
            fac = o.fgg.new_finite_factor(name, t)
        else:
            doms = [o.fgg.domains[gen.nl_name(nl)] for nl in spec["elabels"][el]["type"]]
            fac = fggs.FiniteFactor(doms, t)
            o.fgg.add_factor(o.EL(el, variant in ("fresh", "api")), fac)
        o.tensors[el] = t; o.factors[el] = fac
    if variant == "copy":
        f2 = o.fgg.copy()
        old = o.fgg.all_rules(); new = f2.all_rules()
        assert len(old) == len(new)
        m = {id(a): b_ for a, b_ in zip(old, new)}
        o.rules = [(m[id(r)], ns, es) for r, ns, es in o.rules]
        o.fgg = f2
        o.factors = {el: f2.factors[gen.el_name(spec, el)] for el in o.factors}
        o.tensors = {el: o.factors[el].weights.physical for el in o.factors}
    return o

def snapshot(o):
    """deep snapshot of the object's observable state: rule objects, their nodes/edges, domains' sizes, factor weights"""
    f = o.fgg
    return ([(id(r), r.lhs.name, [(n.id, n.label.name) for n in r.rhs.nodes()], [(e.id, e.label.name, [n.id for n in e.nodes]) for e in r.rhs.edges()],
              [n.id for n in r.rhs.ext]) for r in f.all_rules()],
            sorted((k, d.size()) for k, d in f.domains.items()),
            sorted((k, tuple(fac.weights.shape), dense_list(fac.weights)) for k, fac in f.factors.items()),
            f.start.name)

def observe(o, xi):
    """sum_product + viterbi + derive() on the object as it is now -> (obs for vit_check, note, used factor entries,
    whether the calls changed the object)"""
    import fggs
    before = snapshot(o)
    used = []
    with warnings.catch_warnings():
        warnings.simplefilter("ignore")
        sp = fggs.sum_product(o.fgg, semiring=SRV.semiring(), method="fixed-point")
        spv = float(sp.to_dense()[tuple(xi)]) if xi else float(sp.to_dense())
        note = None; dw = None
        try:
            d = fggs.viterbi(o.fgg, tuple(xi), semiring=SRV.semiring())
            tree = to_tree(d, o, o.spec)
        except RecursionError:
            tree = None; note = "RecursionError"
        except Exception as e:
            tree = None; note = type(e).__name__ + ": " + str(e)[:80]
        if tree is not None:
            try:
                dw = derive_weight(d, o)
                g, asst = d.derive()
                for e in g.edges():
                    used.append((int(e.label.name[1:]), tuple(int(asst[n]) for n in e.nodes)))
            except Exception as e:
                dw = None; note = type(e).__name__ + ": " + str(e)[:80]
    if tree is None:
        obs = (1, DUMMY, (0, Fraction(0)), SRV.obs(spv))
    else:
        obs = (0, tree, tv(dw) if dw is not None else (2, Fraction(0)), SRV.obs(spv))
    return obs, note, used, snapshot(o) != before

GRID = [Fraction(0), Fraction(1, 4), Fraction(1, 2), Fraction(1)]
HOWS = ["tensor", "physical", "assign"]

def apply_update(o, cur, el, k, val, how):
    """change entry k (row-major) of terminal el's weights to spec value val on the live object"""
    x = SRV.wconv(val)
    fac = o.factors[el]
    if how == "tensor":          # the tensor object that was handed to FiniteFactor, modified in place
        o.tensors[el].reshape(-1)[k] = x
    elif how == "physical":      # through the factor: the storage of its PatternedTensor
        fac.weights.physical.reshape(-1)[k] = x
    else:                        # a new tensor assigned to the factor
        t = fac.weights.to_dense().clone(); t.reshape(-1)[k] = x
        fac.weights = t; o.tensors[el] = t
    cur[el][k] = val
    got = dense_list(fac.weights); want = [SRV.wconv(v) for v in cur[el]]
    if got != want: raise RuntimeError("harness: update %s of t%d[%d] did not reach the factor (%r != %r)" % (how, el, k, got, want))

def run_history(spec, plan, rng):
    """plan: dict(variant, build_seed, ids, cut, n_steps, steps) -- steps None: generate (and record in plan) n_steps
    steps with rng; otherwise replay the recorded ones.  Returns (wire value for HIST, per-step records)."""
    brng = random.Random(plan["build_seed"])
    o = build_variant(spec, plan["variant"], brng, n_rules=plan["cut"], ids=plan["ids"])
    cur = {el: list(gen.flat(w)) for el, w in spec["weights"].items()}
    shapes = {el: [spec["nlabels"][nl] for nl in spec["elabels"][el]["type"]] for el in cur}
    st = spec["elabels"][spec["start"]]["type"]
    xis = list(itertools.product(*[range(spec["nlabels"][nl]) for nl in st]))
    generate = plan.get("steps") is None
    recorded = [] if generate else plan["steps"]
    wire_steps = []; recs = []; used = []; nadded = plan["cut"]
    for j in range(plan["n_steps"] if generate else len(recorded)):
        if generate:
            ups = []; add = []
            if j > 0:
                if nadded < len(spec["rules"]) and (rng.random() < 0.6 or j == plan["n_steps"] - 1):
                    add = list(range(nadded, len(spec["rules"]) if rng.random() < 0.7 else nadded + 1))
                for _ in range(rng.choice([0, 1, 1, 1, 2]) if cur else 0):
                    cand = [(el, sum(i * math.prod(shapes[el][a + 1:]) for a, i in enumerate(idx))) for el, idx in used if el in cur]
                    cand = [(el, k) for el, k in cand if cur[el][k] != GRID[0]]
                    if cand and rng.random() < 0.6:
                        # an entry the previous answer relied on gets worse: the previous answer is probably no longer optimal
                        el, k = rng.choice(cand); val = rng.choice([v for v in GRID if v < cur[el][k]])
                    else:
                        el = rng.choice(sorted(cur))
                        if not cur[el]: continue
                        k = rng.randrange(len(cur[el])); val = rng.choice([v for v in GRID if v != cur[el][k]])
                    ups.append((el, k, val, rng.choice(HOWS)))   # (the live state is updated below, when the step is executed)
            step = dict(updates=[[el, k, str(val), how] for el, k, val, how in ups], add_rules=add, start_asst=list(rng.choice(xis)))
            recorded.append(step)
        step = recorded[j]
        for ri in step["add_rules"]: o.add_rule(ri); nadded += 1
        for el, k, val, how in step["updates"]: apply_update(o, cur, int(el), int(k), Fraction(val), how)
        xi = list(step["start_asst"])
        obs, note, used, changed = observe(o, xi)
        wire_steps.append(([(int(el), int(k), SRV.wwire(Fraction(val))) for el, k, val, how in step["updates"]],
                           [_rule_wire(spec["rules"][ri]) for ri in step["add_rules"]], xi, obs))
        recs.append(dict(obs=obs, note=note, changed=changed))
    if generate: plan["steps"] = recorded
    part = dict(spec, rules=spec["rules"][:plan["cut"]])
    return (grammar_wire(part), weights_wire(spec, SRV), K_ENCL, wire_steps), recs

def run_impl(spec, xi, ids="explicit", rng=None, variant="shared", pats=None):
    import fggs
    b = gen.build_fgg(spec, SRV.wconv, ids=ids, rng=rng, dtype=SRV.torch_dtype()) if (variant == "shared" and not pats) else build_variant(spec, variant, rng, ids=ids, pats=pats)
    with warnings.catch_warnings():
        warnings.simplefilter("ignore")
        sp = fggs.sum_product(b.fgg, semiring=SRV.semiring(), method="fixed-point")
        spv = float(sp.to_dense()[tuple(xi)]) if xi else float(sp.to_dense())
        try:
            d = fggs.viterbi(b.fgg, tuple(xi), semiring=SRV.semiring())
            tree = to_tree(d, b, spec)
        except RecursionError as e:
            return spv, ("exc", "RecursionError"), None
        except Exception as e:
            return spv, ("exc", type(e).__name__ + ": " + str(e)[:80]), None
        try:
            dw = derive_weight(d, b)
        except Exception as e:
            dw = ("exc", type(e).__name__ + ": " + str(e)[:80])
    return spv, tree, dw

def tv(x):
    if isinstance(x, tuple): return (0, Fraction(0))   # placeholder; flagged separately
    if x == math.inf: return (2, Fraction(0))
    if x == -math.inf: return (0, Fraction(0))
    return (1, Fraction(x))

DUMMY = ("DT", (0, [], []))

def classify(spec, tree_or_exc):
    """known defect classes of the unmodified code (kept for the record; all repaired in /repo)"""
    return None

WHAT = {1: "viterbi raised instead of returning a derivation although the optimum is finite",
        5: "returned derivation is not well formed (rule of the wrong nonterminal, node without a value in its domain, external nodes disagreeing with the parent, or missing/extra child)",
        6: "weight of the returned derivation is not the maximum over all derivations",
        7: "derive()'s factor graph and assignment have a different total weight than the derivation (or derive() failed)",
        8: "sum_product(semiring=Viterbi) at the start assignment differs from the maximum over all derivations"}

def gen_spec(rng, i):
    rec = (i % 3 == 0)
    if i % 12 == 9:
        # a long chain (3-4 nonterminals x 3-4 states: the optimum needs up to ~16 passes of the fixed-point loop, so a
        # wrong iteration cap or a lost pointer shows)
        spec = gen.chain_spec(rng, n_nt=rng.randint(3, 4), dom=rng.randint(3, 4))
    elif i % 6 == 3:
        # chains of 1..3 nonterminals; n_nt = 1 is a SINGLETON self-recursive component (X(u) -> step(u,v) X(v) | stop(u))
        # whose optimum needs the recursive rule several times
        n_nt = rng.choice([1, 1, 2, 3])
        spec = gen.chain_spec(rng, n_nt=n_nt, dom=rng.randint(2, 4) if n_nt == 1 else None)
        if n_nt == 1: spec["features"] = ["chain", "self_loop_chain"]
    else:
        spec = gen.random_spec(rng, recursive=rec, allow_inf=False, max_nt=3, max_dom=2 if rec else 3, max_nodes=3 if rec else 4,
                               max_edges=3 if rec else 4, linear=rng.choice([None, False]) if rec else None, dup_ext=False)
    spec["weights"] = {el: gen.nested_map(w, lambda v: v if v <= 1 else Fraction(1, 2)) for el, w in spec["weights"].items()}
    return spec

def self_loop_singleton(spec):
    """some nonterminal is directly self-recursive and no other nonterminal is mutually recursive with it"""
    nts = [i for i, e in enumerate(spec["elabels"]) if not e["term"]]
    succ = {x: {el for r in spec["rules"] if r["lhs"] == x for el, _ in r["edges"] if not spec["elabels"][el]["term"]} for x in nts}
    def reach(x):
        seen = set(); todo = list(succ[x])
        while todo:
            y = todo.pop()
            if y not in seen: seen.add(y); todo.extend(succ[y])
        return seen
    return any(x in succ[x] and not any(y != x and x in reach(y) for y in reach(x)) for x in nts)

def run(tier, seed):
    rng = random.Random(seed)
    import time; T = {}; t0 = time.process_time(); w0 = time.time()
    n = int(os.environ.get("VERIF_N", 0)) or (260 if tier == "quick" else 4000)
    violations = []; vals = []; avals = []; meta = []; feats = {}; distinct = set(); vhist = {}
    import sys
    sys.setrecursionlimit(3000)
    for i in range(n):
        spec = gen_spec(rng, i)
        key = json.dumps(gen.spec_jsonable(spec), sort_keys=True); distinct.add(key)
        for f in spec["features"]: feats[f] = feats.get(f, 0) + 1
        if self_loop_singleton(spec): feats["singleton_self_recursive_scc"] = feats.get("singleton_self_recursive_scc", 0) + 1
        st = spec["elabels"][spec["start"]]["type"]
        xis = list(itertools.product(*[range(spec["nlabels"][nl]) for nl in st]))
        rng.shuffle(xis)
        # how the object is built: label objects shared per name / a new equal object per use / convenience API / copy()
        variant = VARIANTS[(i // 2) % 4]; ids = ["explicit", "implicit", "mixed"][(i + i // 6) % 3]
        vhist[variant] = vhist.get(variant, 0) + 1
        for xi in xis[:2]:
            bseed = rng.getrandbits(30)
            case = dict(spec=gen.spec_jsonable(spec), start_asst=list(xi), variant=variant, ids=ids, build_seed=bseed)
            try:
                spv, tree, dw = run_impl(spec, list(xi), ids=ids, rng=random.Random(bseed), variant=variant)
            except Exception as e:
                violations.append(Violation("harness could not run viterbi/sum_product: %r" % (e,), case=case,
                                            corr="corr:viterbi", failing_input_found=True, call="fggs.viterbi"))
                continue
            if isinstance(tree, tuple) and tree[0] == "exc":
                obs = (1, DUMMY, (0, Fraction(0)), SRV.obs(spv)); note = tree[1]
            else:
                obs = (0, tree, tv(dw) if not isinstance(dw, tuple) else (2, Fraction(0)), SRV.obs(spv))
                note = dw[1] if isinstance(dw, tuple) else None
            vals.append((grammar_wire(spec), weights_wire(spec, SRV), list(xi), K_ENCL, obs))
            avals.append((grammar_wire(spec), weights_wire(spec, SRV), list(xi), (KMAX, TOL), (obs[0], obs[1])))
            meta.append((spec, list(xi), obs, note, case))
    T['impl_single_calls'] = round(time.time() - w0, 1); w0 = time.time()
    # --- grammars whose factors are PatternedTensors (diagonal / embedded / one-hot / expanded / product patterns; default
    # -inf, rarely finite), nonterminals of arity 2-3 over domains of different sizes, rules with 2-3 external nodes and
    # internal nodes tied to external ones by a pattern; the model is given the hand-computed dense denotation
    npat = int(os.environ.get("VERIF_NPAT", 0)) or (56 if tier == "quick" else 1200)
    pstat = dict(grammars=0, calls=0, judged=0, judged_first_two_externals_differ=0, grammars_with_internal_node_tied_to_external=0, kinds={}, variants={})
    first_pat = len(vals)
    for i in range(npat):
        spec, pats = pat.pattern_spec(rng, recursive=(i % 4 == 3))
        distinct.add(json.dumps(gen.spec_jsonable(spec), sort_keys=True)); pstat["grammars"] += 1
        for f in spec["features"]: feats[f] = feats.get(f, 0) + 1
        if pat.tied_internal(spec, pats): pstat["grammars_with_internal_node_tied_to_external"] += 1
        for p_ in pats.values(): pstat["kinds"][p_["kind"]] = pstat["kinds"].get(p_["kind"], 0) + 1
        st = spec["elabels"][spec["start"]]["type"]
        xis = list(itertools.product(*[range(spec["nlabels"][nl]) for nl in st]))
        rng.shuffle(xis)
        xis.sort(key=lambda x: x[0] == x[1])          # start assignments whose first two components differ first (stable)
        variant = VARIANTS[i % 4]; ids = ["explicit", "implicit", "mixed"][i % 3]
        pstat["variants"][variant] = pstat["variants"].get(variant, 0) + 1
        for xi in list(dict.fromkeys(xis[:3] + xis[-1:])):
            bseed = rng.getrandbits(30)
            case = dict(spec=gen.spec_jsonable(spec), start_asst=list(xi), variant=variant, ids=ids, build_seed=bseed,
                        patterns={str(el): pat.pat_jsonable(p_) for el, p_ in pats.items()})
            try:
                spv, tree, dw = run_impl(spec, list(xi), ids=ids, rng=random.Random(bseed), variant=variant, pats=pats)
            except Exception as e:
                violations.append(Violation("harness could not run viterbi/sum_product on a grammar with PatternedTensor weights: %r" % (e,), case=case,
                                            corr="corr:viterbi", failing_input_found=True, call="fggs.viterbi"))
                continue
            if isinstance(tree, tuple) and tree[0] == "exc":
                obs = (1, DUMMY, (0, Fraction(0)), SRV.obs(spv)); note = tree[1]
            else:
                obs = (0, tree, tv(dw) if not isinstance(dw, tuple) else (2, Fraction(0)), SRV.obs(spv))
                note = dw[1] if isinstance(dw, tuple) else None
            note = ((note + "; ") if note else "") + "PatternedTensor weights: " + ", ".join("t%s=%s" % (el, p_["kind"]) for el, p_ in sorted(pats.items()))
            vals.append((grammar_wire(spec), weights_wire(spec, SRV), list(xi), K_ENCL, obs))
            avals.append((grammar_wire(spec), weights_wire(spec, SRV), list(xi), (KMAX, TOL), (obs[0], obs[1])))
            meta.append((spec, list(xi), obs, note, case)); pstat["calls"] += 1
    T['impl_patterned_calls'] = round(time.time() - w0, 1); w0 = time.time()
    codes, nk = run_model(VIT, vals, seed=seed, coq_sample=6 if tier == "quick" else 40, tag="c04")
    skipped = {30: 0, 31: 0}; judged = 0
    for (spec, xi, obs, note, case), c in zip(meta, codes):
        if c in skipped: skipped[c] += 1; continue
        judged += 1
        if "patterns" in case:
            pstat["judged"] += 1; pstat["judged_first_two_externals_differ"] += int(xi[0] != xi[1])
        if c == 0: continue
        violations.append(Violation(WHAT.get(c, "framework inconsistency (code %d)" % c) + ((" [" + note + "]") if note else "") + " [object built as '%s']" % case["variant"],
                                    case=case, observed=obs,
                                    oracle={5: "wf_dtree_b", 6: "weight = optimum", 7: "derive weight", 8: "optimum"}.get(c, "optimum finite => derivation"),
                                    corr="C04 / corr:viterbi", failing_input_found=c in WHAT, call="fggs.viterbi(fgg, %r)" % (tuple(xi),),
                                    finding_key=classify(spec, obs)))
    # --- the code-shaped model (pointer tables, merge, reconstruct) against the same derivations
    # (cases whose optimum is -inf / divergent are outside the property: vit_check's 30/31 depend on the grammar only)
    keep = [i for i, c in enumerate(codes) if c not in skipped]
    T['model_vit_check'] = round(time.time() - w0, 1); w0 = time.time()
    acodes, ank = run_model(ALG, [avals[i] for i in keep], seed=seed, coq_sample=4 if tier == "quick" else 30, tag="c04alg")
    T['model_vit_alg_check'] = round(time.time() - w0, 1)
    AWHAT = {1: "viterbi raised although the code-shaped model finds a derivation of finite weight",
             5: "returned derivation is not well formed (judged by the model-side check)",
             10: "the implementation's derivation and the code-shaped model's derivation have different weights (one of them is not optimal; vit_check decides which)"}
    alg = dict(exact_agreement=0, agree_up_to_ties=0, skipped_value_not_finite=0, skipped_model_not_converged=0, compared=0)
    for (spec, xi, obs, note, case), c in zip([meta[i] for i in keep], acodes):
        if c == 31: alg["skipped_value_not_finite"] += 1; continue
        if c in (33, 34): alg["skipped_model_not_converged"] += 1; continue
        alg["compared"] += 1
        if c == 0: alg["exact_agreement"] += 1; continue
        if c == 32: alg["agree_up_to_ties"] += 1; continue
        violations.append(Violation(AWHAT.get(c, "framework inconsistency in the code-shaped viterbi model (code %d)" % c) + ((" [" + note + "]") if note else ""),
                                    case=case, observed=obs,
                                    oracle={1: "model finds a finite derivation", 5: "wf_dtree_b", 10: "weight = model's value"}.get(c, "viterbi_model"),
                                    corr="C04 / corr:viterbi_alg (Model/ViterbiAlg.v viterbi_model)", failing_input_found=c in (1, 5),
                                    call="fggs.viterbi(fgg, %r)" % (tuple(xi),), finding_key=classify(spec, obs)))
    # --- histories of calls on the same object: viterbi, in-place weight updates / a new tensor assigned / rules added,
    # viterbi again; every call is judged by vit_check against the state the MODEL computes from the updates
    w0 = time.time()
    nh = int(os.environ.get("VERIF_NH", 0)) or (48 if tier == "quick" else 900)
    hvals = []; hmeta = []
    hist = dict(histories=0, calls=0, updates={h: 0 for h in HOWS}, rules_added_between_calls=0, staged=0, variants={}, all_calls_outside_property=0,
                accepted=0, object_changed_by_call=0)
    for i in range(nh):
        spec = gen_spec(rng, [3, 0, 9, 3, 4, 3][i % 6])
        distinct.add(json.dumps(gen.spec_jsonable(spec), sort_keys=True))
        staged = len(spec["rules"]) >= 2 and i % 4 == 2
        plan = dict(variant=VARIANTS[i % 4], build_seed=rng.getrandbits(30), ids=["explicit", "implicit", "mixed"][i % 3],
                    cut=rng.randint(1, len(spec["rules"]) - 1) if staged else len(spec["rules"]), n_steps=3 if tier == "quick" else rng.randint(2, 5), steps=None)
        case = dict(spec=gen.spec_jsonable(spec), history=plan)
        try:
            hv, recs = run_history(spec, plan, rng)
        except Exception as e:
            violations.append(Violation("harness could not run a history of viterbi calls: %r" % (e,), case=case, corr="corr:viterbi_hist",
                                        failing_input_found=True, call="fggs.viterbi"))
            continue
        hist["histories"] += 1; hist["calls"] += len(recs); hist["staged"] += int(staged)
        hist["variants"][plan["variant"]] = hist["variants"].get(plan["variant"], 0) + 1
        for s in plan["steps"]:
            hist["rules_added_between_calls"] += len(s["add_rules"])
            for u in s["updates"]: hist["updates"][u[3]] += 1
        for j, rc in enumerate(recs):
            if rc["changed"]:
                hist["object_changed_by_call"] += 1
                violations.append(Violation("sum_product/viterbi changed the FGG object it was given (deep snapshot of rules, domains and factor weights before/after call %d differs)" % (j + 1),
                                            case=case, oracle="snapshot before = snapshot after", corr="C04 / input not modified", failing_input_found=True, call="fggs.viterbi"))
        hvals.append(hv); hmeta.append((spec, plan, case, recs))
    T['impl_histories'] = round(time.time() - w0, 1); w0 = time.time()
    hcodes, hnk = run_model(HIST, hvals, seed=seed, coq_sample=3 if tier == "quick" else 20, tag="c04hist")
    T['model_vit_hist_check'] = round(time.time() - w0, 1)
    for (spec, plan, case, recs), c in zip(hmeta, hcodes):
        if c == 0: hist["accepted"] += 1; continue
        if c == 31: hist["all_calls_outside_property"] += 1; continue
        j, cc = divmod(c, 100)
        rc = recs[j - 1] if 1 <= j <= len(recs) else dict(obs=None, note=None)
        s = plan["steps"][j - 1] if 1 <= j <= len(recs) else {}
        violations.append(Violation("call %d of a history on ONE FGG object (built as '%s'; before this call: updates %r, rules added %r): " % (j, plan["variant"], s.get("updates"), s.get("add_rules"))
                                    + WHAT.get(cc, "framework inconsistency (code %d)" % c) + " -- judged against the object's state at that call" + ((" [" + rc["note"] + "]") if rc["note"] else ""),
                                    case=case, observed=rc["obs"], oracle={5: "wf_dtree_b", 6: "weight = optimum", 7: "derive weight", 8: "optimum"}.get(cc, "optimum finite => derivation"),
                                    corr="C04 / corr:viterbi_hist (Model/ViterbiHist.v, C04_hist_check_optimal)", failing_input_found=cc in WHAT,
                                    call="fggs.viterbi(fgg, %r)" % (tuple(s.get("start_asst", ())),), finding_key=classify(spec, rc["obs"])))
    cov = dict(wall_seconds_by_phase=T, evaluations=len(vals) + hist["calls"], single_calls=len(vals), patterned_weights=pstat, viterbi_model=alg, exact_agreement=alg["exact_agreement"], kernel_reevaluated_alg=ank, distinct_nontrivial=len(distinct), judged=judged,
               skipped_divergent=skipped[30], skipped_optimum_not_finite=skipped[31], object_construction=vhist, histories=hist, kernel_reevaluated_hist=hnk,
               rule="random FGG specs with integer log-weights in {-inf,-2,-1,0} (two thirds non-recursive, one third recursive incl. weight-0 cycles and non-linear recursion; chains of 1-4 nonterminals, 1 = a singleton self-recursive component), up to two start assignments each; forced shapes: rules whose attached nodes are all external, isolated nodes, size-1 domains, nullary factors, repeated attachments; the FGG object is built in four ways in rotation (one label object per name / a new equal EdgeLabel+NodeLabel object per use / the convenience API new_node,new_edge,new_rule,new_finite_factor / FGG.copy()); plus histories of 3 (thorough: 2-5) calls on one object with in-place updates of the tensor given to FiniteFactor, of weights.physical, assignment of a new tensor, and rules added between calls (updates prefer entries the previous answer used), every call judged against the state at that call, with deep before/after snapshots of the object around every call; plus grammars whose factors are PatternedTensors (pattern_spec: 2-3 node labels typed atom / sum b+m+a / 2x2 product with domains of different sizes 1-4, nonterminals of arity 2-3 incl. the start symbol, rules with 2-3 external and 0-2 internal nodes, each internal node attached to a factor that also visits an external node, one quarter recursive; per factor a diagonal over 2-3 axes (embedded where the sizes differ), embedded, one-hot, expanded stride-0, product, unit or dense axes, default -inf or rarely -2, or a plain torch tensor), up to 4 start assignments each (those whose first two components differ first), all four object constructions, judged by vit_check and vit_alg_check against the hand-computed dense denotation (coverage.patterned_weights); distinct by spec, all with >= 1 rule",
               feature_histogram=feats, kernel_reevaluated=nk,
               samples=[dict(spec=gen.spec_jsonable(meta[0][0]), start_asst=meta[0][1], observed=meta[0][2])] + ([dict(history=hmeta[0][1])] if hmeta else []) if meta else [],
               open_items=["the inside of log_viterbi_einsum_forward (physical/virtual axis translation of the arg-max pointers, torch_semiring_einsum's tie-breaking) is taken by contract in Model/ViterbiAlg.v (maximum + one maximiser, first in row-major order): the model and the implementation are compared up to ties (exact_agreement is reported); DESIGN's L4 argmax_einsum_model is not built",
                           "C04_reconstruct_terminates / C04_alg_optimal need the ghost flag 'the last two iterates of every iterated component were EXACTLY equal'; for a stop by tol > 0 between different iterates or by kmax the statement is false (C04_unconverged_weight_refuted) and nothing is claimed",
                           "the cell-wise array-of-structs representation of the three pointer tensors, [rebuild] using the first (not last) binding of a repeated external node, and kmax = 0 (model: None; code: unbound/stale variables) are modelling choices validated by the correspondence only",
                           "FGGDerivation.derive() (hyperedge replacement) is not modelled in Gallina: C04_weight_is_factor_product proves that the derivation's weight is the product of its rule instances' terminal factor entries; that derive()'s factor graph has exactly these edges and values is checked per case by re-scoring derive()'s output in the harness (verdict 7)",
                           "positive-weight cycles (no finite attained maximum): the exact enclosure does not converge, verdict 30, case skipped (outside the property's quantifier)",
                           "object identity (is vs ==) has no counterpart in the Gallina model (labels are numbers): equal-but-not-identical label objects are covered by the correspondence only (four construction variants); histories change weights and add rules, they do not remove rules, change domains or options (kmax/tol/semiring) between calls",
                           "the denotation of a PatternedTensor (physical storage + axis patterns -> dense tensor) is computed in the harness (pat_dense), not in Gallina: C04's Coq model sees dense weights only (the Gallina model of patterns is C06/C07's); histories of calls are not run on patterned weights; factors typed differently at one node label (index type mismatch, e.g. a ProductAxis against a SumAxis: einsum silently returns the semiring zero there, with a UserWarning) are not generated"])
    return cov, violations

def replay(path):
    r = json.load(open(path)); c = r["case"]
    spec = gen.spec_from_json(c["spec"])
    if "history" in c:
        plan = dict(c["history"])
        hv, recs = run_history(spec, plan, random.Random(0))
        code = run_coq(HIST, [hv], tag="replayhist")[0]
        print("history", plan, "observations", [rc["obs"] for rc in recs], "verdict code", code, "(100*call + vit_check verdict)",
              "object changed by a call:", [rc["changed"] for rc in recs])
        return 1 if (code not in (0, 31) or any(rc["changed"] for rc in recs)) else 0
    xi = c["start_asst"]
    pats = {int(el): pat.pat_from_json(p_) for el, p_ in c["patterns"].items()} if "patterns" in c else None
    spv, tree, dw = run_impl(spec, xi, ids=c.get("ids", "explicit"), rng=random.Random(c.get("build_seed", 0)), variant=c.get("variant", "shared"), pats=pats)
    if isinstance(tree, tuple) and tree[0] == "exc":
        obs = (1, DUMMY, (0, Fraction(0)), SRV.obs(spv))
    else:
        obs = (0, tree, tv(dw) if not isinstance(dw, tuple) else (2, Fraction(0)), SRV.obs(spv))
    code = run_coq(VIT, [(grammar_wire(spec), weights_wire(spec, SRV), xi, K_ENCL, obs)], tag="replay")[0]
    acode = run_coq(ALG, [(grammar_wire(spec), weights_wire(spec, SRV), xi, (KMAX, TOL), (obs[0], obs[1]))], tag="replayalg")[0]
    print("sum_product", spv, "derivation", tree, "derive weight", dw, "verdict code", code, "code-shaped model verdict", acode)
    return 1 if (code not in (0, 30, 31) or (code == 0 and acode not in (0, 31, 32, 33, 34))) else 0

MANIFEST = dict(
    level="proof",
    text="Coq (Props/C04.v, all closed, no premises about the semiring): derivation trees, their weight and well-formedness are defined once (shared with C01). C04_wf_reflect: the executable well-formedness test decides the Prop (rule of the nonterminal rewritten, every node of the rule instance has a value in its domain, externals agree with the parent, exactly one child per edge) for every grammar. C04_tree_weight_below_kleene: in the Viterbi semiring every well-formed derivation's weight is below the Kleene iterate at its depth. C04_optimal: when the exact max-plus Kleene iteration reaches its fixed point, that value bounds the weight of every well-formed derivation of every nonterminal and assignment (any depth), equals the maximum over the derivations of bounded depth and is attained by one of them unless it is -inf. C04_check_sound: verdict 0 of the check means the returned derivation is well formed, has finite weight, no derivation of the start symbol at that assignment weighs more, sum_product(Viterbi) contains that value and derive()'s re-scored weight equals it. C04_weight_is_factor_product: the weight of a derivation is the product of the terminal factor entries of its rule instances (= the score of derive()'s factor graph). The (max,+) law records are proved (C04_trop_ring, C04_trop_ordered). Every derivation returned by fggs.viterbi on generated FGGs is converted to a tree and judged by the extracted check. The algorithm itself is modelled in Model/ViterbiAlg.v (arg-max per rule, F_viterbi's value / lhs_pointer / rhs_pointer cells with first-rule filling and strict-improvement overwrite, the per-component loop with the pointer merge of repair b171ddf, reconstruct with fuel): C04_ptr_inv (after any number of passes every finite cell's pointers name a rule and an in-range assignment whose edge product, with the values of the pass the pointer was recorded in, is the cell's value), C04_reconstruct_terminates (if every loop stopped with two equal iterates, reconstruct with fuel #components*(kmax+1) returns, for every finite cell, a well-formed derivation weighing the cell's value), C04_tables_lfp / C04_alg_optimal (the value tables are the least fixed point of the max-plus equations, so viterbi_model's derivation is optimal and equals the enclosure's optimum), C04_alg_check_sound (verdict 0/32 of the second check: the implementation's derivation is well formed and optimal), C04_old_pointer_loop_refuted (the pre-repair pointer discipline loops on X -> X a | b for every fuel), C04_unconverged_weight_refuted (the convergence premise is needed). fggs.viterbi's derivation is compared with viterbi_model's on every generated case (equal, or equal weight up to tie-breaking). Histories of calls on ONE FGG object are modelled in Model/ViterbiHist.v as a state machine (state = rules + terminal weights; a step = in-place weight updates and added rules, then one observed call): C04_hist_state (call j is judged against the initial rules plus all rules added, and the initial weights with all updates applied in order, up to step j; earlier observations play no role), C04_hist_update_same / _other (an update writes exactly one entry), C04_hist_check_sound / C04_hist_check_optimal (verdict 0: every call of the history that falls under the property returned a well-formed derivation that is optimal for the rules and weights the object had AT THAT CALL), C04_hist_check_rejects (verdict 100*j+c: call j is the first rejected one and c is vit_check's verdict on it), C04_example_hist (a derivation computed from an earlier state is rejected as call 2 with verdict 6). The harness generates such histories (in-place update of the tensor handed to FiniteFactor, of weights.physical, a new tensor assigned, rules added; updates prefer entries the previous answer relied on), takes deep snapshots of the object before/after every call (the call must not change it), and builds every FGG in one of four ways (shared label objects, a new equal EdgeLabel/NodeLabel object per use, the convenience API, FGG.copy()); chains of ONE nonterminal (a singleton self-recursive component whose optimum needs the recursive rule several times) are generated. Grammars whose factors are PatternedTensors (diagonal / sum-embedded / one-hot / expanded / product patterns over node labels with one index type each, domains of different sizes, nonterminals of arity 2-3, internal nodes tied to external ones through a shared physical axis) are generated as plain-data patterns; the oracle judges viterbi's derivation against the dense denotation computed by the harness, so the physical->virtual translation of the arg-max pointers in log_viterbi_einsum_forward is exercised with >= 2 output axes.",
    note="Trusted: Coq kernel, extraction cross-checked by vm_compute, harness conversion of FGGDerivation objects to trees and the harness's re-scoring of derive()'s output; log_viterbi_einsum_forward is modelled by its contract (maximum + a maximiser), derive() itself is not modelled.",
    technique="Coq-verified oracle (well-formedness + optimality against the exact trop least fixed point, proved to be the maximum over all derivation trees) on implementation outputs; code-shaped Gallina model of viterbi.py with invariant proofs, compared with the implementation's derivations up to ties",
    design_ref="DESIGN.md section 6, C04")
