"""C09 tier B: PatternedTensor.solve at the level of its axis loop.

Generated patterned systems x = a x + b over typed index types (plain-data axes of
harness/props/_c06_util.py), instrumented runs of the implementation (what the axis loop
returned, how many passes it took, the dense operands handed to semiring.solve_thunks and its
result), and the wire values of the two check functions of Model/PSolveCheck.v.

case = dict(kind="psolve", semiring, cls, a=tensor spec, b=tensor spec, n, m (number of dense
            columns, >= 1), vec (b has one dimension), A, B (dense abstract values, from the
            definition of the patterns), depth)
tensor spec = dict(vaxes=[axis...], paxes=[(uid, n)...], values=nested/flat abstract values in
                   row-major order over paxes, default=abstract value)
"""
import itertools, math, warnings
from fractions import Fraction
from harness.core import *
from harness.props import _c09_util as U
from harness.props import _c06_util as X
from harness.props._c06_util import AxisT, PnT
from harness.props._c09_util import INF, NINF, F

WV = Tup(Nat, QQ)
def M(t): return List(List(t))
TenAx = Tup(Bool, List(PnT), List(AxisT))
PS_AXIS = CheckFn("c09-psolve-axis", "Model.PSolveCheck", "psolve_axis_check",
                  Tup(TenAx, TenAx, Pos, Tup(Nat, AxisT, Nat, Bool)),
                  imports=["Model.Axis", "Model.PSolve"])
PS_VALUE = CheckFn("c09-psolve-value", "Model.PSolveCheck", "psolve_value_check",
                   Tup(Tup(Nat, Nat, WV), AxisT, List(AxisT), M(WV), M(WV), Tup(M(WV), M(WV), M(WV)), M(WV)),
                   imports=["Model.Axis", "Model.PSolve"])

AXIS_CODE_TEXT = {
    1: "the support of the solution axis computed by PatternedTensor.solve does not contain the support of b (verified oracle contains_b rejects it)",
    2: "the support of the solution axis computed by PatternedTensor.solve is not closed under a: a nonzero of a maps a supported index outside the support (verified oracle closed_b rejects it)",
    3: "PatternedTensor.solve returned b.clone() although a column of a meets the support of b (verified oracle disjoint_b rejects it)",
    10: "PatternedTensor.solve left its axis loop differently from the model (normal exit vs b.clone())",
    11: "the solution axis computed by PatternedTensor.solve is not alpha-equivalent to the model's",
    12: "the number of passes of the axis loop differs from the model's",
    13: "the warning flag differs from the model's",
    14: "the model of the axis loop failed (fuel, error, arity)",
    15: "a premise of the closure/termination theorems does not hold on this case: a warning was issued, or the clone of a.vaxes[0] computed in some pass has a size-1 factor inside a product",
    16: "internal: the last unifier changes a size although nothing was warned about (impossible by C09_unify_sized)",
    17: "harness: a physical axis occurs with two different sizes on the wire",
}
VALUE_CODE_TEXT = {
    4: "the first operand of solve_thunks is not the gather of a along the solution axis",
    5: "the second operand of solve_thunks is not the gather of b along the solution axis",
    6: "the result is not the scatter of the solution of the projected system along the solution axis (zero elsewhere)",
    12: "harness: malformed shapes on the wire",
}

# ----------------------------------------------------------------------------- plain-data helpers
INL = ("Sum", (0, X.UNIT, 1))
INR = ("Sum", (1, X.UNIT, 0))
BIT = ("sum", [("atom", 1), ("atom", 1)])

def numel_list(vs): return math.prod(X.a_numel(e) for e in vs)

def flat_col(vs, env):
    i = 0
    for e in vs: i = i * X.a_numel(e) + X.a_eval(e, env)
    return i

def spec_values(spec):
    """flat list of the physical values in row-major order over paxes"""
    out = []
    def rec(v):
        if isinstance(v, (list, tuple)):
            for y in v: rec(y)
        else: out.append(v)
    rec(spec["values"])
    return out

def dense_of(spec, name):
    """n x m matrix (first dimension x the remaining dimensions flattened row-major) of abstract
    values denoted by the spec, from the definition"""
    vs = spec["vaxes"]; n = X.a_numel(vs[0]); m = numel_list(vs[1:])
    D = [[spec["default"]] * m for _ in range(n)]
    vals = spec_values(spec)
    seen = set()
    for idx, env in enumerate(X.all_envs(spec["paxes"])):
        i = X.a_eval(vs[0], env); j = flat_col(vs[1:], env)
        assert (i, j) not in seen, "generator produced a non-injective pattern"
        seen.add((i, j))
        D[i][j] = vals[idx]
    return D

def closure_depth(name, A, Bm):
    z = U.zero_of(name); n = len(A)
    S = {i for i in range(n) if any(v != z for v in Bm[i])}
    depth = 0
    while True:
        T = S | {i for i in range(n) for j in S if A[i][j] != z}
        if T == S: return depth
        S = T; depth += 1

def pattern_depth(a, b):
    """closure depth at the level of the patterns (every physical cell counted as nonzero)"""
    n = X.a_numel(a["vaxes"][0])
    edges = {(X.a_eval(a["vaxes"][0], env), X.a_eval(a["vaxes"][1], env)) for env in X.all_envs(a["paxes"])}
    S = {X.a_eval(b["vaxes"][0], env) for env in X.all_envs(b["paxes"])}
    depth = 0
    while True:
        T = S | {i for (i, j) in edges if j in S}
        if T == S: return depth
        S = T; depth += 1

# ----------------------------------------------------------------------------- values
def grid(name, style):
    if name == "bool": return [True, True, True, False]
    if name in ("real", "log"):
        return [F(1, 4), F(1, 2), F(1, 4), F(1, 8), F(0)] if style == "small" else [F(1, 4), F(1, 2), F(1), F(2), F(0), INF]
    return [F(-1), F(-2), F(-3), F(-1), NINF] if style == "small" else [F(-2), F(-1), F(0), F(1), NINF, INF]

def gen_values(rng, name, count, style):
    g = grid(name, style)
    return [rng.choice(g) for _ in range(count)]

def nonzero_default(rng, name):
    if name == "bool": return True
    if name in ("real", "log"): return rng.choice([F(1, 4), F(1, 2)])
    return rng.choice([F(-1), F(-2)])

def mk_tensor(rng, name, vaxes, style, default=None, paxes=None):
    ps = list(paxes) if paxes is not None else X.fv_list(vaxes)
    cnt = math.prod(n for _, n in ps)
    return dict(vaxes=vaxes, paxes=ps, values=gen_values(rng, name, cnt, style),
                default=U.zero_of(name) if default is None else default)

# ----------------------------------------------------------------------------- families
def bits_axis(pat, names):
    """product axis over 1+1 components: '0' = inl, '1' = inr, a letter = a physical axis of size 2"""
    fs = []
    for c in pat:
        fs.append(INL if c == "0" else INR if c == "1" else ("Phys", names[c]))
    return X.a_product(fs)

def fam_bits(rng, name, d, rows, cols, bpat, mcols, start=1, share=False):
    """share: the letters of bpat name the SAME physical axes as in rows / cols (b is not disjoint from a)"""
    letters = []
    for p in (rows, cols):
        for c in p:
            if c not in "01" and c not in letters: letters.append(c)
    names = {c: (start + i, 2) for i, c in enumerate(letters)}
    nxt = start + len(letters)
    bl = []
    for c in bpat:
        if c not in "01" and c not in bl: bl.append(c)
    if share:
        bnames = {}
        for c in bl:
            if c in names: bnames[c] = names[c]
            else: bnames[c] = (nxt, 2); nxt += 1
    else:
        bnames = {c: (nxt + i, 2) for i, c in enumerate(bl)}
        nxt += len(bl)
    avs = [bits_axis(rows, names), bits_axis(cols, names)]
    bvs = [bits_axis(bpat, bnames)]
    if mcols: bvs.append(("Phys", (nxt, mcols)))
    return avs, bvs

def f25_patterns(rng):
    """the class of finding F25: the support of b shares one physical axis between two positions;
    the image under a generalises both occurrences by different axes and a constant of the
    support by an axis that a later pass must still discover"""
    perm = [0, 1, 2]; rng.shuffle(perm)
    c1 = rng.choice("01"); c2 = rng.choice("01")
    b = [None] * 3; a1 = [None] * 3; a0 = [None] * 3
    b[perm[0]] = "X"; b[perm[1]] = "X"; b[perm[2]] = c1
    a1[perm[0]] = "R"; a1[perm[1]] = c2; a1[perm[2]] = c1
    a0[perm[0]] = "P"; a0[perm[1]] = "Q"; a0[perm[2]] = "R"
    return a0, a1, b

def sum_axis(parts, j, inner):
    before = sum(parts[:j]); after = sum(parts[j + 1:])
    return ("Sum", (before, inner, after))

def gen_case(rng, name, fam, uid0=1):
    """returns (cls, a-spec, b-spec)"""
    style = rng.choice(["small", "small", "grid"])
    z = U.zero_of(name)
    if fam == "f25-regression":     # the exact input of the report
        avs, bvs = fam_bits(rng, name, 3, "PQR", "R00", "XX0", 0)
        return "f25-regression", mk_tensor(rng, name, avs, "small"), mk_tensor(rng, name, bvs, "small")
    if fam == "f25":
        a0, a1, b = f25_patterns(rng)
        avs, bvs = fam_bits(rng, name, 3, a0, a1, b, rng.choice([0, 0, 2]))
        return "f25-class", mk_tensor(rng, name, avs, style), mk_tensor(rng, name, bvs, "small")
    if fam == "shift":
        d = rng.choice([2, 3, 3])
        V = "ABCD"; c = rng.choice("01")
        kind = rng.choice(["shift-r", "shift-l", "rot"])
        if kind == "shift-r": cols = V[:d]; rows = c + V[:d - 1]
        elif kind == "shift-l": cols = V[:d]; rows = V[1:d] + c
        else: cols = V[:d - 1] + rng.choice("01"); rows = c + V[:d - 1]
        bpat = rng.choice(["0" * d, "1" * d, "".join(rng.choice("01") for _ in range(d))])
        if rng.random() < 0.25:
            i = rng.randrange(d); bpat = bpat[:i] + "Y" + bpat[i + 1:]
        avs, bvs = fam_bits(rng, name, d, rows, cols, bpat, rng.choice([0, 0, 0, 2]))
        return "bits-" + kind, mk_tensor(rng, name, avs, style), mk_tensor(rng, name, bvs, "small")
    if fam == "bits-shared":      # b shares physical axes with a: PatternedTensor.solve must freshen b first
        d = rng.choice([2, 3])
        V = "ABC"[:d]
        rows = "".join(rng.sample(V, d)); cols = "".join(rng.sample(V, d))
        if rng.random() < 0.4:
            i = rng.randrange(d); rows = rows[:i] + rng.choice("01") + rows[i + 1:]
        bl = [rng.choice(V + "01") for _ in range(d)]
        if not any(c in V for c in bl): bl[rng.randrange(d)] = rng.choice(V)
        if not any(c in "01" for c in bl): bl[rng.randrange(d)] = rng.choice("01")
        avs, bvs = fam_bits(rng, name, d, rows, cols, "".join(bl), rng.choice([0, 0, 2]), share=True)
        return "bits-shared", mk_tensor(rng, name, avs, style), mk_tensor(rng, name, bvs, "small")
    if fam == "bits-random":
        d = rng.choice([2, 3])
        pool = "01AB" + ("C" if d == 3 else "")
        rows = "".join(rng.choice(pool) for _ in range(d)); cols = "".join(rng.choice(pool) for _ in range(d))
        bpat = "".join(rng.choice("01XY") for _ in range(d))
        avs, bvs = fam_bits(rng, name, d, rows, cols, bpat, rng.choice([0, 0, 2]))
        return "bits-random", mk_tensor(rng, name, avs, style), mk_tensor(rng, name, bvs, "small")
    if fam == "diag":
        n = rng.choice([2, 3, 4])
        K = ("Phys", (1, n))
        kind = rng.choice(["diag-a", "diag-a", "diag-b", "diag-both"])
        avs = [K, K] if kind != "diag-b" else [("Phys", (1, n)), ("Phys", (2, n))]
        if kind == "diag-a":
            bvs = [("Phys", (3, n))] + ([("Phys", (4, 2))] if rng.random() < 0.4 else [])
        else:
            bvs = [("Phys", (3, n)), ("Phys", (3, n))]
        return kind, mk_tensor(rng, name, avs, style), mk_tensor(rng, name, bvs, "small")
    if fam == "sum":
        parts = rng.choice([[2, 2], [1, 2], [2, 1, 2], [1, 1, 2], [3, 2]])
        def inj(uid):
            j = rng.randrange(len(parts))
            inner = X.UNIT if parts[j] == 1 else ("Phys", (uid, parts[j]))
            return j, sum_axis(parts, j, inner)
        jr, r = inj(1); jc, c = inj(2); jb, bb = inj(3)
        cls = "sum-disjoint" if jc != jb else ("sum-meets" if jr == jc else "sum-step")
        bvs = [bb] + ([("Phys", (4, 2))] if rng.random() < 0.3 else [])
        return cls, mk_tensor(rng, name, [r, c], style), mk_tensor(rng, name, bvs, "small")
    if fam == "zero":
        kind = rng.choice(["zero-atom", "zero-factor", "zero-cols", "zero-summand"])
        if kind == "zero-atom":
            avs = [("Phys", (1, 0)), ("Phys", (2, 0))]; bvs = [("Phys", (3, 0))]
        elif kind == "zero-factor":
            avs = [X.a_product([("Phys", (1, 2)), ("Phys", (2, 0))]), X.a_product([("Phys", (3, 2)), ("Phys", (4, 0))])]
            bvs = [X.a_product([("Phys", (5, 2)), ("Phys", (6, 0))])]
        elif kind == "zero-cols":
            avs = [("Phys", (1, 2)), ("Phys", (2, 2))]; bvs = [("Phys", (3, 2)), ("Phys", (4, 0))]
        else:   # a summand of size 0 next to a live one
            avs = [("Sum", (0, ("Phys", (1, 2)), 0)), ("Sum", (0, ("Phys", (2, 2)), 0))]
            bvs = [("Sum", (0, ("Phys", (3, 2)), 0))]
        return kind, mk_tensor(rng, name, avs, style), mk_tensor(rng, name, bvs, "small")
    # typed random patterns over the index types of _c06_util
    types = [t for t in X.all_types(max_leaves=3, max_size=8, atoms=(2, 3)) if 2 <= X.tsize(t) <= 8]
    T = rng.choice(types)
    pool = X.Pool()
    avs, pool = X.gen_pattern([T, T], rng, pool, p_phys=rng.choice([0.2, 0.35, 0.6]), p_share=rng.choice([0.3, 0.6]))
    shared = (fam == "shared")
    bpool = pool if shared else X.Pool(pool.next)
    btypes = [T]
    r = rng.random()
    if r < 0.2: btypes.append(("atom", rng.choice([2, 3])))
    elif r < 0.35: btypes.append(T)
    bvs, bpool = X.gen_pattern(btypes, rng, bpool, p_phys=rng.choice([0.15, 0.3, 0.6]), p_share=0.6 if shared else 0.4)
    adef = bdef = None
    cls = "typed"
    if fam == "default":
        if rng.random() < 0.5: adef = nonzero_default(rng, name); cls = "typed-adefault"
        else: bdef = nonzero_default(rng, name); cls = "typed-bdefault"
    if shared: cls = "typed-shared" if set(k for k, _ in X.fv_list(avs)) & set(k for k, _ in X.fv_list(bvs)) else "typed"
    a = mk_tensor(rng, name, avs, style, default=adef); b = mk_tensor(rng, name, bvs, "small", default=bdef)
    if math.prod(n for _, n in a["paxes"]) > 64 or numel_list(bvs[1:]) > 4: return gen_case(rng, name, fam)
    return cls, a, b

FAMILIES = ["typed"] * 6 + ["shared", "default", "shift", "shift", "shift", "bits-random", "bits-random",
                            "bits-shared", "bits-shared", "f25", "f25", "diag", "sum", "sum", "zero"]

def psolve_cases(rng, tier, semirings):
    per = 34 if tier == "quick" else 400
    cases = []
    for name in semirings:
        fams = ["f25-regression", "shift", "f25", "diag", "sum", "zero", "default", "shared", "bits-shared", "bits-shared"] \
               + [rng.choice(FAMILIES) for _ in range(per - 10)]
        for fam in fams:
            cls, a, b = gen_case(rng, name, fam)
            vec = len(b["vaxes"]) == 1
            A = dense_of(a, name) if len(a["vaxes"]) == 2 else None
            # a is n x n: dense_of flattens the second dimension only
            Bm = dense_of(b, name)
            n = X.a_numel(a["vaxes"][0]); m = numel_list(b["vaxes"][1:])
            depth = closure_depth(name, A, Bm) if n and m else 0
            cases.append(dict(kind="psolve", semiring=name, cls="ps-" + cls, a=a, b=b, n=n, m=m, vec=vec, A=A, B=Bm,
                              depth=depth, pdepth=pattern_depth(a, b)))
    return cases

# ----------------------------------------------------------------------------- the implementation, instrumented
def build(name, spec, world):
    from fggs.indices import PatternedTensor
    paxes = tuple(world.phys(k, n) for k, n in spec["paxes"])
    vaxes = tuple(world.build(e) for e in spec["vaxes"])
    phys = U.tensor(name, spec_values(spec), shape=[n for _, n in spec["paxes"]])
    return PatternedTensor(phys, paxes, vaxes, U.to_float(name, spec["default"]))

def wv(name, x):
    """float / bool seen by the implementation -> (tag, q)"""
    if isinstance(x, bool): return (0, F(1 if x else 0))
    if x != x: return (3, F(0))
    if x == math.inf: return (1, F(0))
    if x == -math.inf: return (2, F(0))
    return (0, F(x))

def wv_mat(name, t, rows, cols):
    """rows x cols matrix of wire values of a tensor read as (first dim) x (rest flattened)"""
    t2 = t.reshape(rows, cols) if t.numel() else t
    return [[wv(name, t2[i, j].item()) for j in range(cols)] for i in range(rows)]

def run_case(c):
    import torch
    import fggs.indices as I
    name = c["semiring"]; S = U.semiring(name)
    w = X.World()
    a = build(name, c["a"], w); b = build(name, c["b"], w)
    nxt = w.max_uid() + 1
    n, m = c["n"], c["m"]
    ad = a.to_dense(); bd = b.to_dense()
    exp_a = U.tensor(name, c["A"], shape=(n, n)); exp_b = U.tensor(name, c["B"], shape=tuple(bd.shape))
    if not (torch.equal(ad, exp_a) and torch.equal(bd, exp_b)):
        raise RuntimeError("harness: patterned construction does not denote the intended dense tensors")
    sa = (U.snapshot(a.physical), a.default, a.paxes, a.vaxes); sb = (U.snapshot(b.physical), b.default, b.paxes, b.vaxes)
    rec = {}
    orig_solve = S.solve_thunks
    def solve_thunks(at, bt):
        ra = at(); rb = bt()
        rec["ra"] = ra.clone(); rec["rb"] = rb.clone()
        x = orig_solve(lambda: ra.clone(), lambda: rb.clone())   # the thunks are called once per attempt (LU, then generic): fresh tensors each time
        rec["x"] = x.clone()
        return x
    S.solve_thunks = solve_thunks
    depth = [0]; passes = [0]
    orig_anti = I.Axis.antiunify
    def anti(e, f, antisubst):
        if depth[0] == 0: passes[0] += 1
        depth[0] += 1
        try: return orig_anti(e, f, antisubst)
        finally: depth[0] -= 1
    I.Axis.antiunify = anti
    try:
        with warnings.catch_warnings(record=True) as wl:
            warnings.simplefilter("always")
            x = a.solve(b, S)
        warned = any(issubclass(ww.category, UserWarning) for ww in wl)
    finally:
        I.Axis.antiunify = orig_anti
    modified = (U.snapshot(a.physical), a.default, a.paxes, a.vaxes) != sa or (U.snapshot(b.physical), b.default, b.paxes, b.vaxes) != sb \
               or not torch.equal(a.to_dense(), ad) or not torch.equal(b.to_dense(), bd)
    xd = x.to_dense()
    if tuple(xd.shape) != tuple(bd.shape): raise U.BadValue("output shape %r for rhs shape %r" % (tuple(xd.shape), tuple(bd.shape)))
    e_w = w.wire(x.vaxes[0]); ebs_w = [w.wire(e) for e in x.vaxes[1:]]
    out = dict(tag=0 if "x" in rec else 1, e=e_w, ebs=ebs_w, passes=passes[0], warned=warned, modified=modified, next=nxt,
               Xd=wv_mat(name, xd, n, m), X=[[U.read_out(name, xd.reshape(n, m)[i, j].item()) for j in range(m)] for i in range(n)] if n and m else [[] for _ in range(n)])
    if "x" in rec:
        p = rec["ra"].shape[0]; q = rec["rb"].shape[1] if rec["rb"].ndim == 2 else 1
        out.update(p=p, q=q, RA=wv_mat(name, rec["ra"], p, p), RB=wv_mat(name, rec["rb"], p, q), Xin=wv_mat(name, rec["x"], p, q))
    return out

def axis_value(c, r):
    z = U.zero_of(c["semiring"])
    ta = (c["a"]["default"] == z, c["a"]["paxes"], c["a"]["vaxes"])
    tb = (c["b"]["default"] == z, c["b"]["paxes"], c["b"]["vaxes"])
    return (ta, tb, r["next"], (r["tag"], r["e"], r["passes"], r["warned"]))

def value_value(c, r):
    name = c["semiring"]; n, m = c["n"], c["m"]
    A = [[wv(name, U.to_float(name, v)) for v in row] for row in c["A"]]
    B = [[wv(name, U.to_float(name, v)) for v in row] for row in c["B"]]
    z = wv(name, U.to_float(name, U.zero_of(name)))
    return ((n, m, z), r["e"], r["ebs"], A, B, (r["RA"], r["RB"], r["Xin"]), r["Xd"])

def unjson_case(c):
    """inverse of U.jsonable on a psolve case (axes stay nested lists: every consumer indexes them)"""
    name = c["semiring"]
    def un(v): return U.unjson(name, v)
    def spec(sp):
        sp = dict(sp)
        sp["values"] = un(sp["values"]); sp["default"] = un(sp["default"])
        sp["paxes"] = [tuple(kn) for kn in sp["paxes"]]
        sp["vaxes"] = [axis(e) for e in sp["vaxes"]]
        return sp
    def axis(e):
        if e[0] == "Phys": return ("Phys", tuple(e[1]))
        if e[0] == "Prod": return ("Prod", [axis(x) for x in e[1]])
        return ("Sum", (e[1][0], axis(e[1][1]), e[1][2]))
    c = dict(c); c["a"] = spec(c["a"]); c["b"] = spec(c["b"]); c["A"] = un(c["A"]); c["B"] = un(c["B"])
    return c
