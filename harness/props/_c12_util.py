"""C12 helpers: the "twin rule" stream.

Node and edge ids only have to be unique inside ONE right-hand side, so two rules of the same
left-hand side may have EQUAL edges (same label, same attachment nodes, same ids -- `Edge` and
`Node` are frozen dataclasses compared by value) and still be different rules: they differ in the
external-node tuple (order or choice of the external nodes) or in nodes that no edge touches.
Anything that identifies a rule by its edges (a memo table, a set, a dict) conflates them.

twin_spec      adds such twins to a random spec (the twinned spec is the canonical grammar of the
               case, judged by the exact model of C01 / C02 / C04 / C03).
build_path     builds the fggs.FGG of a spec through one of the construction paths the library
               offers (direct objects, JSON dict -> json_to_hrg, hrg_to_json round trip, FGG.copy)
               in one of the id styles (ids restarting in every rule, globally distinct, implicit,
               the very same Node/Edge objects shared by all rules).
"""
import random, warnings, json, os
from fractions import Fraction
from harness import gen
from harness.props._sp_util import *

ID_STYLES = ["restart", "global", "implicit", "shared", "shared_implicit"]
PATHS = ["direct", "json", "roundtrip", "copy"]
TWIN_KINDS = ["ext_perm", "ext_choice", "isolated_add", "isolated_drop", "duplicate", "ext_and_isolated"]

# ----------------------------------------------------------------------------------------------
# spec transform

def _ext_variants(spec, r, nodes):
    """all external tuples over `nodes` with the labels the lhs type demands, other than r['ext']
    (no repeated external node unless the original has one)"""
    import itertools
    typ = spec["elabels"][r["lhs"]]["type"]
    cands = [[i for i, l in enumerate(nodes) if l == nl] for nl in typ]
    out = []
    for ext in itertools.islice(itertools.product(*cands), 200):
        ext = list(ext)
        if ext == list(r["ext"]): continue
        if len(set(ext)) < len(ext) and len(set(r["ext"])) == len(r["ext"]): continue
        out.append(ext)
    return out

def make_twin(spec, r, kind, rng):
    """a rule with the same lhs and the same edge list as r (same node positions, so that with
    per-rule ids the edges are EQUAL), or None if this kind is impossible for r"""
    nodes = list(r["nodes"]); ext = list(r["ext"]); edges = [(el, list(att)) for el, att in r["edges"]]
    big = max(range(len(spec["nlabels"])), key=lambda i: (spec["nlabels"][i], rng.random()))
    used = {i for _, att in edges for i in att} | set(ext)
    if kind == "duplicate":
        pass
    elif kind in ("ext_perm", "ext_choice"):
        vs = _ext_variants(spec, r, nodes)
        if kind == "ext_perm": vs = [e for e in vs if sorted(e) == sorted(ext)]
        else: vs = [e for e in vs if sorted(e) != sorted(ext)]
        if not vs: return None
        ext = rng.choice(vs)
    elif kind == "isolated_add":
        nodes.append(big if rng.random() < 0.7 else rng.randrange(len(spec["nlabels"])))
    elif kind == "isolated_drop":
        if not nodes or (len(nodes) - 1) in used: return None
        nodes.pop()                                   # the last node is isolated and internal
    elif kind == "ext_and_isolated":
        nodes.append(big)
        vs = _ext_variants(spec, r, nodes)
        if not vs: return None
        ext = rng.choice(vs)
    return dict(lhs=r["lhs"], nodes=nodes, edges=edges, ext=ext)

def twin_spec(rng, recursive, p_empty=0.0):
    """a random spec in which 1..3 rules have been given a twin.  Returns None if no twin could be made."""
    if recursive:
        spec = gen.random_spec(rng, recursive=True, linear=rng.choice([None, False, True, True]), allow_inf=False, max_nt=3, max_rules=2,
                               max_nodes=3, max_edges=3, max_dom=2, dup_ext=False, p_feature=0.5)
        spec["weights"] = {el: gen.nested_map(w, lambda v: v if v <= 1 else Fraction(1, 2)) for el, w in spec["weights"].items()}
    else:
        spec = gen.random_spec(rng, recursive=False, dup_ext=False, p_feature=0.4, max_rules=2)
    if max(spec["nlabels"]) < 2:                    # an added isolated node must change the value
        i = rng.randrange(len(spec["nlabels"])); nl = list(spec["nlabels"]); nl[i] = 2
        if not any(i in e["type"] for e in spec["elabels"] if e["term"]):
            spec = dict(spec, nlabels=nl)           # no factor has an axis of this label: no weights to resize
    nt_rules = lambda r: [el for el, _ in r["edges"] if not spec["elabels"][el]["term"]]
    if rng.random() < 0.6:
        spec = dict(spec, weights={el: gen.nested_map(w, lambda v: Fraction(1, 2) if v == 0 else v) for el, w in spec["weights"].items()})
    if recursive and spec["rules"] and (not cyclic_nts(spec) or rng.random() < 0.3):
        # random_spec(recursive=True) only ALLOWS cycles; make one: X(ext) -> rhs(r), X(ext) for a rule r of X
        # (built on a rule with at least two terminal edges if there is one, so that the cycle's weight stays well below 1)
        nterm = lambda r: sum(1 for el, _ in r["edges"] if spec["elabels"][el]["term"]) - 3 * len(nt_rules(r))
        best = max(nterm(r) for r in spec["rules"])
        r = rng.choice([r for r in spec["rules"] if nterm(r) == best])
        spec = dict(spec, rules=spec["rules"] + [dict(r, edges=list(r["edges"]) + [(r["lhs"], list(r["ext"]))])],
                    features=sorted(set(spec["features"]) | {"forced_cycle"}))
    cyc = cyclic_nts(spec)
    made = []
    rules = list(spec["rules"])
    for _ in range(rng.randint(1, 3)):
        if not spec["rules"]: break
        # prefer rules of a nonterminal that lies on a cycle (solved iteratively) whose right-hand side has no
        # nonterminal on that cycle (the constant part of the equations) and, often, an lhs of arity > 0
        pool = spec["rules"]
        if rng.random() < 0.8: pool = [r for r in pool if r["lhs"] in cyc] or pool
        if rng.random() < 0.7: pool = [r for r in pool if not any(x in cyc for x in nt_rules(r))] or pool
        if rng.random() < 0.6: pool = [r for r in pool if spec["elabels"][r["lhs"]]["type"]] or pool
        r = rng.choice(pool)
        kinds = [k for k in TWIN_KINDS if k != "duplicate"]; rng.shuffle(kinds)
        kinds = (["duplicate"] + kinds) if rng.random() < 0.08 else (kinds + ["duplicate"])
        for kind in kinds:
            t = make_twin(spec, r, kind, rng)
            if t is not None:
                # right after the original, or at the end of the rule list
                pos = rules.index(r) + 1 if rng.random() < 0.5 else len(rules)
                rules.insert(pos, t); made.append(kind)
                break
    if not made: return None
    spec = dict(spec, rules=rules, features=sorted(set(spec["features"]) | {"twin_" + k for k in made}))
    return spec

def cyclic_nts(spec):
    """nonterminals that can reach themselves through the rules"""
    succ = {}
    for r in spec["rules"]:
        succ.setdefault(r["lhs"], set()).update(el for el, _ in r["edges"] if not spec["elabels"][el]["term"])
    out = set()
    for x in succ:
        seen = set(); todo = list(succ[x])
        while todo:
            y = todo.pop()
            if y in seen: continue
            seen.add(y); todo.extend(succ.get(y, ()))
        if x in seen: out.add(x)
    return out

def twin_groups(spec):
    """number of groups of >= 2 rules with the same lhs and the same edge list (position-wise)"""
    seen = {}
    for r in spec["rules"]:
        k = (r["lhs"], tuple((el, tuple(att)) for el, att in r["edges"]))
        seen[k] = seen.get(k, 0) + 1
    return sum(1 for v in seen.values() if v >= 2)

# ----------------------------------------------------------------------------------------------
# construction paths

def _names(spec, names):
    names = names or {}
    nls = [names.get(("nl", i), gen.nl_name(i)) for i in range(len(spec["nlabels"]))]
    els = [names.get(("el", i), gen.el_name(spec, i)) for i in range(len(spec["elabels"]))]
    return nls, els

def _id(style, kind, ri, k):
    if style in ("restart", "shared"): return "%s%d" % (kind, k)
    if style == "global": return "r%d%s%d" % (ri, kind, k)
    return None

def hrg_json(spec, style, names=None, rule_order=None):
    """the grammar as the dict that json.load would give for a hand-written file"""
    nls, els = _names(spec, names)
    order = rule_order if rule_order is not None else list(range(len(spec["rules"])))
    j = dict(terminals={}, nonterminals={}, start=els[spec["start"]], rules=[])
    for i, e in enumerate(spec["elabels"]):
        j["terminals" if e["term"] else "nonterminals"][els[i]] = {"type": [nls[nl] for nl in e["type"]]}
    for ri in order:
        r = spec["rules"][ri]
        jn = []
        for k, nl in enumerate(r["nodes"]):
            d = {"label": nls[nl]}
            if _id(style, "v", ri, k) is not None: d["id"] = _id(style, "v", ri, k)
            jn.append(d)
        je = []
        for k, (el, att) in enumerate(r["edges"]):
            d = {"label": els[el], "attachments": list(att)}
            if _id(style, "e", ri, k) is not None: d["id"] = _id(style, "e", ri, k)
            je.append(d)
        j["rules"].append({"lhs": els[r["lhs"]], "rhs": {"nodes": jn, "edges": je, "externals": list(r["ext"])}})
    return j

def direct_hrg(spec, style, names=None, rule_order=None):
    import fggs
    nls, els = _names(spec, names)
    NL = [fggs.NodeLabel(s) for s in nls]
    EL = [fggs.EdgeLabel(els[i], [NL[nl] for nl in e["type"]], is_terminal=e["term"], is_nonterminal=not e["term"]) for i, e in enumerate(spec["elabels"])]
    h = fggs.HRG(EL[spec["start"]])
    for nl in NL: h.add_node_label(nl)
    for el in EL: h.add_edge_label(el)
    shared = style in ("shared", "shared_implicit")
    ncache = {}; ecache = {}
    order = rule_order if rule_order is not None else list(range(len(spec["rules"])))
    for ri in order:
        r = spec["rules"][ri]
        g = fggs.Graph()
        nodes = []
        for k, nl in enumerate(r["nodes"]):
            if shared:
                if (k, nl) not in ncache: ncache[(k, nl)] = fggs.Node(NL[nl], id=_id(style, "v", ri, k))
                nodes.append(ncache[(k, nl)])
            else:
                nodes.append(fggs.Node(NL[nl], id=_id(style, "v", ri, k)))
        for nd in nodes: g.add_node(nd)
        for k, (el, att) in enumerate(r["edges"]):
            if shared:
                key = (k, el, tuple(att), tuple(r["nodes"][i] for i in att))
                if key not in ecache: ecache[key] = fggs.Edge(EL[el], [nodes[i] for i in att], id=_id(style, "e", ri, k))
                g.add_edge(ecache[key])
            else:
                g.add_edge(fggs.Edge(EL[el], [nodes[i] for i in att], id=_id(style, "e", ri, k)))
        g.ext = [nodes[i] for i in r["ext"]]
        h.add_rule(fggs.HRGRule(EL[r["lhs"]], g))
    return h

def build_path(spec, sr, path, style, names=None, rule_order=None):
    """-> gen.Built with .fgg, .els (EdgeLabel of every spec edge label), .factors"""
    import fggs
    if path == "json":
        jstyle = {"shared": "restart", "shared_implicit": "implicit"}.get(style, style)
        h = fggs.json_to_hrg(hrg_json(spec, jstyle, names, rule_order))
    else:
        h = direct_hrg(spec, style, names, rule_order)
        if path == "roundtrip":
            h = fggs.json_to_hrg(fggs.hrg_to_json(h))
    g = fggs.FGG.from_hrg(h)
    nls, els = _names(spec, names)
    for i, size in enumerate(spec["nlabels"]):
        g.add_domain(fggs.NodeLabel(nls[i]), fggs.FiniteDomain(["v%d_%d" % (i, k) for k in range(size)]))
    b = gen.Built(); b.factors = {}
    for el in spec["weights"]:
        t = gen.weight_tensor(spec, el, sr.wconv, sr.torch_dtype())
        lab = g.get_edge_label(els[el])
        fac = fggs.FiniteFactor([g.domains[nl.name] for nl in lab.type], t)
        g.add_factor(lab, fac); b.factors[el] = fac
    if path == "copy":
        g = g.copy()
    b.fgg = g
    b.els = [g.get_edge_label(s) if g.has_edge_label_name(s) else None for s in els]
    return b

def equal_edge_rule_pairs(fgg):
    """pairs of distinct rules of one lhs whose edge tuples compare EQUAL although the rules differ"""
    n = 0
    for nt in fgg.nonterminals():
        rs = fgg.rules(nt)
        for a in range(len(rs)):
            for c in range(a + 1, len(rs)):
                if tuple(rs[a].rhs.edges()) == tuple(rs[c].rhs.edges()) and \
                   (tuple(rs[a].rhs.ext) != tuple(rs[c].rhs.ext) or list(rs[a].rhs.nodes()) != list(rs[c].rhs.nodes())):
                    n += 1
    return n

def observe(spec, b, sr, method, recursive, history=None):
    """run fggs.sum_products on b.fgg; -> (raised, warned, sorted obs list) as in C12.run.
    history: None | 'repeat' (the same call twice, the second is observed) | 'other-method'
    (a call with another method first; per-call state must not leak)."""
    import fggs
    kw = dict(tol=1e-10 if sr.name in ("real", "log") else 1e-6, kmax=400) if recursive else {}
    if history is not None:
        m0 = method if history == "repeat" else [m for m in ["fixed-point", "newton"] if m != method][0]
        with warnings.catch_warnings():
            warnings.simplefilter("ignore")
            try: fggs.sum_products(b.fgg, method=m0, semiring=sr.semiring(), **kw)
            except ValueError: pass
    raised = False
    with warnings.catch_warnings(record=True) as wl:
        warnings.simplefilter("always")
        try:
            res = fggs.sum_products(b.fgg, method=method, semiring=sr.semiring(), **kw)
        except ValueError as e:
            if "not linearly recursive" not in str(e): raise
            raised = True; res = {}
    warned = any("maximum iteration exceeded" in str(w.message) for w in wl)
    out = {}
    for i, e in enumerate(spec["elabels"]):
        if e["term"] or b.els[i] is None or b.els[i] not in res: continue
        if recursive and sr.name != "bool":
            out[i] = [sr.obs(x, Fraction(1, 10**6), Fraction(1, 10**7)) for x in dense_list(res[b.els[i]])]
        else:
            out[i] = [sr.obs(x) for x in dense_list(res[b.els[i]])]
    return raised, warned, sorted(out.items())

# ----------------------------------------------------------------------------------------------
# the stream (called from C12.run; judged by the check functions of C01 / C02 / C04 / C03)

def twin_stream(tier, seed, nonrec, nonrec_meta, rec, rec_meta, vit, vit_meta, gvals, gmeta, violations, distinct, stats):
    """Appends cases to the wire lists of C12.run.  Every twinned spec is built through several
    (construction path, id style) combinations; each result is judged against the exact model of the
    twinned spec itself (no back-mapping needed: only the rule order is shuffled), so a result that
    depends on how ids are written is rejected with the grammar as the failing input."""
    from harness.core import Violation
    from harness.props import C01, C02, C03, C04
    rng = random.Random(seed * 7919 + 12)
    n = int(os.environ.get("VERIF_N_TWIN", 0)) or (40 if tier == "quick" else 600)
    k_builds = 4 if tier == "quick" else 8
    combos = [(p, s) for p in PATHS for s in ID_STYLES if not (p == "json" and s.startswith("shared"))]
    made = 0; tries = 0
    while made < n and tries < 20 * n:
        tries += 1
        recursive = (made % 2 == 0)
        spec = twin_spec(rng, recursive)
        if spec is None: continue
        if not recursive and rng.random() < 0.5:
            spec["weights"] = {el: gen.nested_map(w, lambda v: Fraction(1, 2) if (v == "inf" or v > 1) else v) for el, w in spec["weights"].items()}
        if recursive:
            # input selection only (never a verdict): keep grammars whose least fixed point is finite and reached quickly, so that
            # the certified enclosure of C02 is conclusive; decided on the presentation with globally distinct ids
            try:
                sr0 = C02.CONFIGS2[0]
                _, w0, o0 = observe(spec, build_path(spec, sr0, "direct", "global"), sr0, "fixed-point", True)
                cyc0 = cyclic_nts(spec)
                if w0 or any(hi is None or hi > 100 for _, cells in o0 for _, hi in cells) or \
                   any(x in cyc0 and all(hi < Fraction(1, 10**6) for _, hi in cells) for x, cells in o0):   # an unproductive cycle
                    stats["discarded_divergent"] += 1; continue
            except Exception:
                pass
        made += 1
        distinct.add(json.dumps(gen.spec_jsonable(spec), sort_keys=True))
        for f in spec["features"]:
            if f.startswith("twin_"): stats["twin_kinds"][f] = stats["twin_kinds"].get(f, 0) + 1
        gw = grammar_wire(spec)
        configs = C02.CONFIGS2 if recursive else CONFIGS
        # the first two builds always contrast ids restarting in every rule with another style
        start = rng.randrange(len(combos))
        for p in range(k_builds):
            if p == 0: path, style = rng.choice(["direct", "json", "roundtrip", "copy"]), "restart"
            elif p == 1: path, style = rng.choice(["direct", "json"]), rng.choice(["global", "implicit"])
            elif p == 2: path, style = rng.choice(["direct", "direct", "copy"]), rng.choice(["shared", "shared_implicit"])   # identical objects in several rules
            else: path, style = combos[(start + 3 * p) % len(combos)]
            sr = configs[(made + p) % len(configs)]
            method = C01.METHODS[(made + p) % 3]
            if p <= 1:
                # the same call (default method, a non-idempotent semiring) on two ways of writing the ids
                sr = configs[(made // 2) % 2 * (2 if not recursive else 1)]; method = "fixed-point"
            elif style not in ("global", "implicit") and p % 2 == 0: method = "fixed-point"
            order = list(range(len(spec["rules"])))
            if p % 2 == 1: rng.shuffle(order)
            history = [None, None, "repeat", "other-method"][(made + p) % 4] if p >= 2 else None
            case = dict(spec=gen.spec_jsonable(spec), twin=dict(path=path, style=style, rule_order=order, history=history),
                        semiring=repr(sr), method=method, recursive=recursive)
            stats["builds"]["%s/%s" % (path, style)] = stats["builds"].get("%s/%s" % (path, style), 0) + 1
            try:
                b = build_path(spec, sr, path, style, rule_order=order)
                if equal_edge_rule_pairs(b.fgg): stats["equal_edge_builds"] += 1
                raised, warned, obs = observe(spec, b, sr, method, recursive, history)
            except Exception as e:
                violations.append(Violation("sum_products raised %r on a grammar with twin rules" % (e,), case=case, corr="corr:twin-rules", call="fggs.sum_products",
                                            oracle="no exception expected"))
                continue
            stats["runs"] += 1
            if recursive:
                mi = C01.METHODS.index(method)
                rec[sr.carrier()].append((gw, weights_wire(spec, sr), (mi, 3, Fraction(1, 10**6)), C02.K_ENCL, (raised, warned, (not warned) and (not raised), obs)))
                rec_meta[sr.carrier()].append(case)
            else:
                nonrec[sr.carrier()].append((gw, weights_wire(spec, sr), obs))
                nonrec_meta[sr.carrier()].append(case)
        # Viterbi derivation on the grammar with ids restarting in every rule
        if all(v != "inf" and v <= 1 for w in spec["weights"].values() for v in gen.flat(w)):
            st = spec["elabels"][spec["start"]]["type"]
            xi = [rng.randrange(spec["nlabels"][nl]) for nl in st]
            vcase = dict(spec=gen.spec_jsonable(spec), twin=dict(path="direct", style="restart", rule_order=None, history=None), ids="explicit",
                         semiring="viterbi/float64", method="fixed-point", recursive=recursive, start_asst=xi)
            try:
                spv, tree, dw = C04.run_impl(spec, xi, ids="explicit", rng=rng)
                if isinstance(tree, tuple) and tree[0] == "exc":
                    o = (1, C04.DUMMY, (0, Fraction(0)), C04.SRV.obs(spv))
                else:
                    o = (0, tree, C04.tv(dw) if not isinstance(dw, tuple) else (2, Fraction(0)), C04.SRV.obs(spv))
                vit.append((gw, weights_wire(spec, C04.SRV), xi, C04.K_ENCL, o)); vit_meta.append(vcase)
            except Exception as e:
                violations.append(Violation("viterbi harness failure %r" % (e,), case=vcase, corr="corr:viterbi", call="fggs.viterbi"))
        # gradient (C03's dual-number check) on every third twinned spec, ids restarting in every rule
        if made % 3 == 0 and all(v != "inf" for w in spec["weights"].values() for v in gen.flat(w)):
            gspec = C03.positive(spec)
            sr = SR(["real", "log"][(made // 3) % 2], "float64", Fraction(1, 4) if recursive else Fraction(1))
            method = ["fixed-point", "newton"][(made // 6) % 2] if recursive else "fixed-point"
            try:
                for cf, wire, meta in C03.grad_cases(gspec, sr, method, ids="explicit", rng=rng):
                    gvals.append(wire); gmeta.append(dict(meta["case"], twin=dict(path="direct", style="restart")))
                    stats["gradients"] += 1
            except Exception as e:
                violations.append(Violation("gradient computation raised %r on a grammar with twin rules" % (e,), case=dict(spec=gen.spec_jsonable(gspec), semiring=repr(sr), method=method),
                                            corr="corr:twin-rules-gradient", call="sum_product(...).backward()"))
    stats["specs"] = made
    return stats

def new_stats():
    return dict(specs=0, runs=0, discarded_divergent=0, equal_edge_builds=0, gradients=0, twin_kinds={}, builds={})

def replay_twin(c):
    """re-run one recorded twin case; 1 iff the verdict is again a rejection"""
    from harness.core import run_coq
    from harness.props import C01, C02
    spec = gen.spec_from_json(c["spec"]); t = c["twin"]
    recursive = c.get("recursive", False)
    configs = C02.CONFIGS2 if recursive else CONFIGS
    sr = [x for x in configs if repr(x) == c["semiring"]]
    if not sr:
        print("this twin case (viterbi / gradient) is not replayed here; re-run bin/check C12 quick with the recorded seed"); return 1
    sr = sr[0]
    b = build_path(spec, sr, t["path"], t["style"], rule_order=t.get("rule_order"))
    raised, warned, obs = observe(spec, b, sr, c["method"], recursive, t.get("history"))
    gw = grammar_wire(spec)
    if recursive:
        v = (gw, weights_wire(spec, sr), (C01.METHODS.index(c["method"]), 3, Fraction(1, 10**6)), C02.K_ENCL, (raised, warned, (not warned) and (not raised), obs))
        code = run_coq(C02.CF[sr.carrier()], [v], tag="replay")[0]
    else:
        code = run_coq(C01.CF[sr.carrier()], [(gw, weights_wire(spec, sr), obs)], tag="replay")[0]
    print("observed", obs, "verdict code", code)
    return 1 if code not in (0, 30) else 0
