"""C18 -- queries are pure: inputs never mutated, results reproducible."""
import random, json, warnings, hashlib, copy, math
from fractions import Fraction
from harness.core import *
from harness import gen
from harness.props._sp_util import *

PID = "C18"
LEVEL = "proof"
PUR = CheckFn("purity", "Model.Purity", "purity_check",
              Tup(List(NN), List(Tup(Nat, NN, NN)), List(NN), List(NN), List(NN), List(NN)))
CHECKFNS = [PUR]
ASSUMPTIONS = [
    "which torch calls alias or write is runtime behaviour: a TorchFunctionMode monitor records every in-place / out= torch call made during a query and the storage it writes; storages reachable from the arguments before the call are the caller's, all others count as allocated inside the call",
    "deep snapshots (structure text, label tables, domain values, storage bytes, strides, defaults, requires_grad, grad presence) are hashed with sha1 and compared as numbers inside Coq",
    "results are compared with the same call on a fresh deep copy and with a repeated call, after renaming implicit ids by order of appearance",
]

def h64(b):
    if isinstance(b, str): b = b.encode()
    return int.from_bytes(hashlib.sha1(b).digest()[:8], "big")

def tensor_snap(t):
    import torch
    if t is None: return "None"
    if hasattr(t, "physical"):
        return "PT(%s|%r|%r|%s)" % (tensor_snap(t.physical), t.default, [e.numel() for e in t.vaxes], repr(t.vaxes) if False else len(t.paxes))
    d = t.detach()
    return "T(%s|%s|%s|%s|rg=%s|grad=%s|%s)" % (tuple(d.shape), d.stride(), d.storage_offset(), d.dtype, t.requires_grad, t.grad is not None,
                                               hashlib.sha1(d.contiguous().cpu().numpy().tobytes()).hexdigest())

def canon_ids(text_items):
    return text_items

def graph_snap(g, idmap):
    def nid(n):
        return n.id if isinstance(n.id, str) else "#%d" % idmap.setdefault(n.id, len(idmap))
    nodes = [(nid(n), n.label.name) for n in g.nodes()]
    edges = [(nid(e), e.label.name, e.label.is_terminal, [nid(n) for n in e.nodes]) for e in g.edges()]
    return repr((nodes, edges, [nid(n) for n in g.ext], sorted(x.name for x in g.node_labels()), sorted(x.name for x in g.edge_labels())))

def hrg_snap(h, with_interp=True):
    idmap = {}
    parts = [h.start.name if h.start is not None else "None",
             repr([(l.name, l.is_terminal, [n.name for n in l.type]) for l in h.edge_labels()]),
             repr([l.name for l in h.node_labels()])]
    for r in h.all_rules():
        parts.append(r.lhs.name + "->" + graph_snap(r.rhs, idmap))
    if with_interp and hasattr(h, "domains"):
        for k, d in h.domains.items():
            parts.append("dom %s %r" % (k, getattr(d, "values", None) if hasattr(d, "values") else d.size()))
        for k, f in h.factors.items():
            parts.append("fac %s %s" % (k, tensor_snap(f.weights)))
    return parts

def user_storages(fgg):
    out = set()
    for f in fgg.factors.values():
        w = f.weights
        t = w.physical if hasattr(w, "physical") else w
        out.add(t.untyped_storage().data_ptr())
        if t.grad is not None: out.add(t.grad.untyped_storage().data_ptr())
    return out

class Monitor:
    """records in-place / out= torch calls and the storage they write"""
    def __init__(self, user):
        import torch
        self.user = set(user); self.events = []; self.seen = set(user)
        outer = self
        class Mode(torch.overrides.TorchFunctionMode):
            def __torch_function__(self, func, types, args=(), kwargs=None):
                kwargs = kwargs or {}
                name = getattr(func, "__name__", "")
                targets = []
                if name.endswith("_") and not name.endswith("__") and args and isinstance(args[0], torch.Tensor):
                    targets.append(args[0])
                if name in ("__setitem__", "__iadd__", "__imul__", "__isub__", "__itruediv__", "__iand__", "__ior__") and args and isinstance(args[0], torch.Tensor):
                    targets.append(args[0])
                o = kwargs.get("out")
                if isinstance(o, torch.Tensor): targets.append(o)
                elif isinstance(o, (tuple, list)): targets.extend(x for x in o if isinstance(x, torch.Tensor))
                for t in targets:
                    try: p = t.untyped_storage().data_ptr()
                    except Exception: continue
                    if p not in outer.seen:
                        outer.seen.add(p); outer.events.append((0, p, 0))
                    outer.events.append((1, p, len(outer.events) + 1))
                return func(*args, **kwargs)
        self.mode = Mode()
    def __enter__(self): self.mode.__enter__(); return self
    def __exit__(self, *a): return self.mode.__exit__(*a)

def result_digest(name, res):
    import fggs
    if isinstance(res, Exception): return [h64("EXC " + type(res).__name__)]
    if name.startswith("sum_product") and not name.startswith("sum_products"):
        return [h64(tensor_snap(res.to_dense().detach()))]
    if name.startswith("sum_products"):
        return [h64(k.name + tensor_snap(v.to_dense().detach())) for k, v in res.items()]
    if name.startswith("viterbi"):
        def d(x): return (x.rule.lhs.name, sorted((str(k.id) if isinstance(k.id, str) else "#", v) for k, v in x.asst.items()), [d(c) for c in x.children.values()])
        return [h64(repr(d(res)))]
    if name.startswith("factorize_rule"):
        idmap = {}
        return [h64(r.lhs.name + "->" + graph_snap(r.rhs, idmap)) for r in res]
    if name.startswith("factorize") or name.startswith("conjoin"):
        return [h64(p) for p in hrg_snap(res, with_interp=hasattr(res, "domains"))]
    if name.startswith("json"):
        return [h64(json.dumps(res, sort_keys=True))]
    return [h64(repr(res))]

def make_queries(rng, spec):
    import fggs
    qs = []
    srs = [("real", lambda: fggs.RealSemiring(dtype=__import__("torch").float64)), ("log", lambda: fggs.LogSemiring(dtype=__import__("torch").float64)),
           ("viterbi", lambda: fggs.ViterbiSemiring(dtype=__import__("torch").float64))]
    for name, mk in srs:
        for m in ("fixed-point", "newton"):
            qs.append(("sum_product[%s,%s]" % (name, m), lambda g, mk=mk, m=m: fggs.sum_product(g, semiring=mk(), method=m, kmax=60)))
    qs.append(("sum_products[real]", lambda g: fggs.sum_products(g, semiring=srs[0][1](), kmax=60)))
    st = spec["elabels"][spec["start"]]["type"]
    xi = tuple(0 for _ in st)
    qs.append(("viterbi", lambda g: fggs.viterbi(g, xi, semiring=srs[2][1](), kmax=60)))
    for meth in ("min_fill", "quickbb", "acb"):
        qs.append(("factorize_fgg[%s]" % meth, lambda g, meth=meth: fggs.factorize_fgg(g, method=meth)))
    qs.append(("factorize_hrg", lambda g: fggs.factorize_hrg(g)))
    nr = len(spec["rules"])
    if nr:
        for ri in sorted({0, nr - 1, rng.randrange(nr)}):
            # direct calls with the documented `labels` argument omitted: results must not depend on earlier calls
            qs.append(("factorize_rule[%d]" % ri, lambda g, ri=ri: fggs.factorize_rule(g.all_rules()[ri])))
    qs.append(("conjoin_hrgs", lambda g: fggs.conjoin_hrgs(g, g)))
    qs.append(("json", lambda g: fggs.fgg_to_json(g)))
    return qs

def rebuild(g, rg):
    """an independent FGG with the same content, built through the constructors (not FGG.copy /
    deepcopy, which would also copy any cache hanging off the factor objects)"""
    import fggs
    h = fggs.FGG(g.start)
    for nl in g.node_labels(): h.add_node_label(nl)
    for el in g.edge_labels(): h.add_edge_label(el)
    for r in g.all_rules(): h.add_rule(r.copy())
    for name, d in g.domains.items():
        h.domains[name] = fggs.FiniteDomain(list(d.values)) if hasattr(d, "values") else fggs.RangeDomain(d.size())
    for name, f in g.factors.items():
        w = f.weights.detach().clone() if hasattr(f.weights, "detach") else f.weights.clone()
        nf = fggs.FiniteFactor([h.domains[nl.name] for nl in g.get_edge_label(name).type], w)
        if rg: nf.weights.requires_grad_()
        h.factors[name] = nf
    return h

def call(q, g):
    with warnings.catch_warnings():
        warnings.simplefilter("ignore")
        try: return q(g)
        except RecursionError as e: return e
        except Exception as e: return e

def clone_checks(rng, violations, vals, metas):
    """in-place operations on a clone of a PatternedTensor / MultiTensor never change the source"""
    import torch, fggs
    from fggs.indices import PatternedTensor, PhysicalAxis, SumAxis, productAxis
    from fggs.multi import MultiTensor
    k = PhysicalAxis(2); k2 = PhysicalAxis(3)
    srcs = [PatternedTensor(torch.arange(6.).reshape(2, 3)),
            PatternedTensor(torch.tensor([1., 2.]), (k,), (k, k), default=0.),                 # diagonal
            PatternedTensor(torch.tensor([1., 2., 3.]), (k2,), (SumAxis(1, k2, 0),), default=5.),
            PatternedTensor(torch.tensor(2.)).expand(2, 2)]
    ops = [("add_", lambda c: c.add_(c)), ("mul_", lambda c: c.mul_(c)), ("neg_", lambda c: c.neg_()), ("abs_", lambda c: c.abs_()),
           ("log1p_", lambda c: c.log1p_()), ("nan_to_num_", lambda c: c.nan_to_num_()), ("copy_", lambda c: c.copy_(c.add(c))),
           ("relu_", lambda c: c.relu_()), ("imul", lambda c: c.__imul__(3.)), ("exp_", lambda c: c.exp_())]
    for si, s in enumerate(srcs):
        for name, op in ops:
            before = [h64(tensor_snap(s))]
            try:
                c = s.clone()
                user = {s.physical.untyped_storage().data_ptr()}
                with Monitor(user) as mon:
                    op(c)
                tr = list(mon.events)
            except AttributeError:
                continue
            except Exception as e:
                tr = []
            after = [h64(tensor_snap(s))]
            vals.append((sorted(user), tr, before, after, [], []))
            metas.append(dict(kind="clone", source=si, op=name))
    sem = fggs.RealSemiring(dtype=torch.float64)
    mt = MultiTensor({"a": torch.Size([2]), "b": torch.Size([])}, sem)
    mt["a"] = PatternedTensor(torch.tensor([1., 2.], dtype=torch.float64)); mt["b"] = PatternedTensor(torch.tensor(3., dtype=torch.float64))
    for name, op in [("iadd", lambda c: c.__iadd__(c.clone())), ("copy_", lambda c: c.copy_(c + c)), ("maximum_", lambda c: c.maximum_(c + c)), ("isub", lambda c: c.__isub__(c.clone()))]:
        before = [h64(tensor_snap(v)) for v in mt.values()]
        user = {v.physical.untyped_storage().data_ptr() for v in mt.values()}
        c = mt.clone()
        with Monitor(user) as mon:
            try: op(c)
            except Exception: pass
        after = [h64(tensor_snap(v)) for v in mt.values()]
        vals.append((sorted(user), list(mon.events), before, after, [], [])); metas.append(dict(kind="clone-multitensor", op=name))

def run(tier, seed):
    import torch, fggs
    rng = random.Random(seed)
    n = int(os.environ.get("VERIF_N", 0)) or (24 if tier == "quick" else 2500)
    violations = []; vals = []; metas = []; distinct = set(); hist = {}
    for i in range(n):
        recursive = (i % 3 == 0)
        spec = gen.random_spec(rng, recursive=recursive, allow_inf=False, max_nt=3, max_dom=2, max_nodes=3 if recursive else 4, max_edges=3, dup_ext=False)
        if recursive:
            spec["weights"] = {el: gen.nested_map(w, lambda v: v / 4 if v <= 1 else Fraction(1, 8)) for el, w in spec["weights"].items()}
        distinct.add(json.dumps(gen.spec_jsonable(spec), sort_keys=True))
        sr = SR("real", "float64")
        b = gen.build_fgg(spec, sr.wconv, ids=["explicit", "implicit", "mixed"][i % 3], rng=rng, dtype=torch.float64)
        g = b.fgg
        rg = (i % 2 == 0)
        if rg:
            for f in g.factors.values(): f.weights.requires_grad_()
        qs = make_queries(rng, spec)
        seq = [rng.choice(qs) for _ in range(rng.randint(6, 10))]
        if i % 2 == 1:
            # cache-invalidation stream: one query of every kind, then (after an in-place weight update,
            # forced below) the same queries again
            kinds = {}
            for nm, q in qs: kinds.setdefault(nm.split("[")[0], (nm, q))
            base = list(kinds.values())
            seq = base + [("<update>", None)] + base
        first = {}
        called = []
        for name, q in seq:
            forced = (name == "<update>")
            if (forced or rng.random() < 0.3) and g.factors:
                if called and not forced: name, q = rng.choice(called)     # repeat an earlier query right after the update
                # the caller updates a weight tensor in place (as an optimiser step does); every later
                # query must see the new values (no stale caches), which the fresh-copy comparison checks
                with torch.no_grad():
                    for fac in (list(g.factors.values()) if forced else [rng.choice(list(g.factors.values()))]):
                        w = fac.weights
                        (w.physical if hasattr(w, "physical") else w).mul_(0.5)
                first = {}
                hist["<inplace weight update>"] = hist.get("<inplace weight update>", 0) + 1
            if forced: continue
            hist[name.split("[")[0]] = hist.get(name.split("[")[0], 0) + 1
            called.append((name, q))
            fresh = rebuild(g, rg)
            ref = result_digest(name, call(q, fresh))
            before = [h64(p) for p in hrg_snap(g)]
            user = user_storages(g)
            with Monitor(user) as mon:
                res = call(q, g)
            after = [h64(p) for p in hrg_snap(g)]
            dig = result_digest(name, res)
            r1 = first.setdefault(name, dig)
            vals.append((sorted(user), list(mon.events), before, after, ref + r1, dig + dig))
            metas.append(dict(kind="query", spec=gen.spec_jsonable(spec), requires_grad=rg, query=name, sequence=[s for s, _ in seq],
                              result_is_exception=isinstance(res, Exception) and type(res).__name__))
    clone_checks(rng, violations, vals, metas)
    codes, nk = run_model(PUR, vals, seed=seed, coq_sample=20, tag="c18")
    WHAT = {1: "an in-place torch operation wrote to a storage owned by the caller (or to one not allocated inside the call)",
            5: "an argument's deep snapshot changed across the call",
            6: "the result differs from the same call on a fresh deep copy, or from an earlier identical call"}
    for m, c in zip(metas, codes):
        if c == 0: continue
        violations.append(Violation(WHAT.get(c, "verdict %d" % c), case=m, oracle="trace_ok / snapshot equality", corr="C18 / corr:purity",
                                    failing_input_found=True, call=m.get("query") or m.get("op")))
    nwrites = sum(sum(1 for e in v[1] if e[0] == 1) for v in vals)
    cov = dict(evaluations=len(vals), distinct_nontrivial=len(distinct), inplace_writes_monitored=nwrites, query_histogram=hist,
               rule="random FGG specs x random interleavings (6-10 calls) of sum_product (3 semirings x 2 methods), sum_products, viterbi, factorize_fgg (3 methods), factorize_hrg, conjoin_hrgs, fgg_to_json on the SAME objects, weights with and without requires_grad; per call: deep snapshot before/after, write monitor trace, result vs fresh-copy result and vs first identical call; plus in-place operations on clones of PatternedTensors / MultiTensors; distinct_nontrivial = distinct specs",
               kernel_reevaluated=nk, samples=[dict(meta=metas[0], trace=vals[0][1][:10])],
               open_items=["the allocate/alias/write skeletons of multi_solve, solve, fixed_point, newton are not modelled function by function; the monitor observes what torch actually did on the explored histories"])
    return cov, violations

def replay(path):
    print("re-run: bin/check C18 quick with the recorded seed")
    return 1

MANIFEST = dict(
    level="proof",
    text="Coq: ownership model of in-place updates -- a trace of (allocate | write) events accepted by trace_ok leaves every caller-owned storage unchanged and every written storage was allocated inside the call. A TorchFunctionMode monitor records the actual in-place / out= torch calls of every query and the Coq checker judges the trace; deep snapshots of every argument before/after each call and result digests (vs a fresh deep copy and vs earlier identical calls) are compared in Coq, over random interleavings of all listed queries on the same objects.",
    note="Partial: which torch calls alias or write is runtime behaviour; the model covers the ownership discipline, the monitor what torch did on the explored histories. Trusted: the monitor's classification of in-place calls (name ends with '_' or out=), sha1 digests, harness.",
    technique="Coq ownership-model theorem + runtime write monitor and snapshot oracle judged by the extracted checker",
    design_ref="DESIGN.md section 6, C18")
