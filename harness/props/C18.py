"""C18 -- queries are pure: inputs never mutated, results reproducible."""
import random, json, warnings, hashlib, copy, math
from fractions import Fraction
from harness.core import *
from harness import gen
from harness.props._sp_util import *

PID = "C18"
LEVEL = "proof"
PUR = CheckFn("purity", "Model.Purity", "purity_check",
              Tup(List(NN), List(Tup(Nat, NN, NN)), List(NN), List(NN), List(NN), List(NN)))
from harness.props import _c18_heap as H
HEAPFN = H.HEAP
RTAB = CheckFn("ruletable", "Model.RuleTable", "ruletable_check",
               Tup(List(Tup(NN, Nat)), List(NN), List(Tup(NN, Nat)), Bool, Bool))
CHECKFNS = [PUR, HEAPFN, RTAB]
ASSUMPTIONS = [
    "which torch calls alias or write is runtime behaviour: a TorchFunctionMode monitor records every in-place / out= torch call made during a query and the storage it writes; storages reachable from the arguments before the call are the caller's, all others count as allocated inside the call; before the trace is handed to the checker the storage addresses are renumbered (injectively, by first appearance) and runs of consecutive writes to one storage are collapsed into one event",
    "deep snapshots (structure text, label tables, domain values, storage bytes, strides, defaults, requires_grad, grad presence; and one line per value reachable from the grammar object through attributes / dict entries in order / sequences / sets, with container types, sharing, storage addresses and tensor version counters) are hashed with sha1 and compared as numbers inside Coq; the snapshot reads private attributes (vars(g), e.g. _rules) of the objects as they are",
    "rule-table check: the harness reads HRG._rules (keys in order, number of rules per key) before and after every query and g == copy-taken-before; Model.RuleTable.ruletable_check compares them with what the modelled lookup loop leaves behind (the table unchanged); that the queries read rules only through HRG.rules(x) is read off the code, not checked",
    "results are compared with the same call on a fresh deep copy and with a repeated call, after renaming implicit ids by order of appearance",
    "heap model (Model/Heap.v): the pattern layer (paxes/vaxes, unification; properties C05/C06) is not re-modelled -- every operation that computes a new pattern receives the layout of the result pattern (dense position -> physical position), __getitem__/__iter__ the selected physical positions, and every operation that allocates through to_dense()/binary operations the memory format (stride order) of the new tensor, all computed by the harness from the patterns involved (layouts through the library's own to_dense on an index probe); given these, WHICH storage a result uses, which cells are written and which object a call returns are computed by the model alone and compared with untyped_storage().data_ptr() / object identity / dense values of the real objects after every step",
    "heap model: a torch Tensor object is not a heap object of its own (no modelled operation changes the metadata of an existing Tensor; requires_grad_ is outside the model); values are small integers (exact in float64/float32) and the in-place maps are neg_, abs_, relu_, nan_to_num_, *= 2, *= 3; copy_ between overlapping views of one storage (unspecified in torch) and binary operations across dtypes are outside the modelled domain (verdict 30, never generated)",
]

def h64(b):
    if isinstance(b, str): b = b.encode()
    return int.from_bytes(hashlib.sha1(b).digest()[:8], "big")

def tensor_snap(t, layout=True):
    """layout=True (snapshots of the caller's own objects before/after a call): strides and offset are part of
    the snapshot.  layout=False (digests of RESULTS, which are compared with the result for an independently
    rebuilt equal grammar whose cloned weights are contiguous): values, shape, dtype, flags only -- a result
    that carries the caller's expanded (stride-0) weights over is not a different result."""
    import torch
    if t is None: return "None"
    if hasattr(t, "physical"):
        return "PT(%s|%r|%r|%s)" % (tensor_snap(t.physical, layout), t.default, [e.numel() for e in t.vaxes], repr(t.vaxes) if False else len(t.paxes))
    d = t.detach()
    return "T(%s|%s|%s|%s|rg=%s|grad=%s|%s)" % (tuple(d.shape), d.stride() if layout else "-", d.storage_offset() if layout else "-", d.dtype, t.requires_grad, t.grad is not None,
                                               hashlib.sha1(d.contiguous().cpu().numpy().tobytes()).hexdigest())

def deep_lines(root):
    """structural snapshot of EVERYTHING reachable from `root` through attributes (vars / __slots__), dict
    entries (in order, with the dict's type and default_factory), sequences and sets: one line per value,
    `path = type value`; an object met a second time is written as a back reference, so that sharing is
    part of the snapshot; tensors with shape, strides, offset, dtype, requires_grad, grad, storage address,
    version counter and the sha1 of their bytes.  Only compared with a snapshot of the SAME objects taken
    earlier in the same process (implicit ids and addresses are stable)."""
    import torch
    lines = []
    def walk(o, path, memo, out):
        if o is None or isinstance(o, (bool, int, float, str, bytes, complex)):
            out.append("%s = %s %r" % (path, type(o).__name__, o)); return
        if id(o) in memo:
            out.append("%s -> @%d" % (path, memo[id(o)])); return
        memo[id(o)] = len(memo)
        tn = type(o).__module__ + "." + type(o).__qualname__
        if isinstance(o, torch.Tensor):
            try: extra = "ptr=%d ver=%d" % (o.untyped_storage().data_ptr(), o._version)
            except Exception: extra = "?"
            out.append("%s = %s %s %s" % (path, tn, tensor_snap(o), extra))
            if o.grad is not None: walk(o.grad, path + ".grad", memo, out)
            return
        if isinstance(o, dict):
            df = getattr(o, "default_factory", None)
            out.append("%s = %s len=%d%s" % (path, tn, len(o), "" if df is None else " default_factory=%s" % getattr(df, "__name__", df)))
            for i, (k, v) in enumerate(list(o.items())):
                walk(k, "%s{%d}.key" % (path, i), memo, out); walk(v, "%s{%d}.val" % (path, i), memo, out)
            return
        if isinstance(o, (list, tuple)):
            out.append("%s = %s len=%d" % (path, tn, len(o)))
            for i, x in enumerate(list(o)): walk(x, "%s[%d]" % (path, i), memo, out)
            return
        if isinstance(o, (set, frozenset)):
            out.append("%s = %s len=%d" % (path, tn, len(o)))
            subs = []
            for x in list(o):
                sub = []; walk(x, "", dict(memo), sub); subs.append(" ; ".join(sub))
            for i, t in enumerate(sorted(subs)): out.append("%s{%d} %s" % (path, i, t))
            return
        attrs = []
        if hasattr(o, "__dict__") and not isinstance(o, type) and not callable(o):
            attrs.extend(vars(o).items())
        for c in type(o).__mro__:
            for a in (getattr(c, "__slots__", ()) if not isinstance(getattr(c, "__slots__", ()), str) else ()):
                if hasattr(o, a) and a not in ("__dict__", "__weakref__"): attrs.append((a, getattr(o, a)))
        if attrs and type(o).__module__.split(".")[0] != "torch":
            out.append("%s = %s attrs=%d" % (path, tn, len(attrs)))
            for a, v in attrs: walk(v, "%s.%s" % (path, a), memo, out)
        else:
            out.append("%s = %s %s" % (path, tn, repr(o) if type(o).__module__.split(".")[0] in ("torch", "builtins") else ""))
    walk(root, "g", {}, lines)
    return lines

def deep_digest(lines):
    """the lines of a deep snapshot folded into one number per top-level attribute of the root (in order of
    first appearance), so that the values sent to the checker stay small"""
    groups = {}
    for l in lines:
        head = l.split(" ", 1)[0]
        key = head[2:].split(".")[0].split("{")[0].split("[")[0] if head.startswith("g.") else ""
        groups.setdefault(key, []).append(l)
    return [h64(k + "\n" + "\n".join(v)) for k, v in groups.items()]

def rule_table(g, ids):
    """the keys of HRG._rules in order, each with the number of its rules (labels numbered by `ids`)"""
    t = vars(g).get("_rules")
    if t is None: return []
    return [(ids.setdefault(l.name, len(ids)), len(rs)) for l, rs in list(t.items())]

def canon_ids(text_items):
    return text_items

def graph_snap(g, idmap):
    def nid(n):
        return n.id if isinstance(n.id, str) else "#%d" % idmap.setdefault(n.id, len(idmap))
    nodes = [(nid(n), n.label.name) for n in g.nodes()]
    edges = [(nid(e), e.label.name, e.label.is_terminal, [nid(n) for n in e.nodes]) for e in g.edges()]
    return repr((nodes, edges, [nid(n) for n in g.ext], sorted(x.name for x in g.node_labels()), sorted(x.name for x in g.edge_labels())))

def hrg_snap(h, with_interp=True, layout=True):
    idmap = {}
    parts = [h.start.name if h.start is not None else "None",
             repr([(l.name, l.is_terminal, [n.name for n in l.type]) for l in h.edge_labels()]),
             repr([l.name for l in h.node_labels()])]
    for r in h.all_rules():
        parts.append(r.lhs.name + "->" + graph_snap(r.rhs, idmap))
    if with_interp and hasattr(h, "domains"):
        for k, d in h.domains.items():
            parts.append("dom %s %r" % (k, getattr(d, "values", None) if hasattr(d, "values") else d.size()))
        for k, f in h.factors.items():
            parts.append("fac %s %s" % (k, tensor_snap(f.weights, layout)))
    return parts

def user_storages(fgg):
    out = set()
    for f in fgg.factors.values():
        w = f.weights
        t = w.physical if hasattr(w, "physical") else w
        out.add(t.untyped_storage().data_ptr())
        if t.grad is not None: out.add(t.grad.untyped_storage().data_ptr())
    return out

class Monitor:
    """records in-place / out= torch calls and the storage they write"""
    def __init__(self, user):
        import torch
        self.user = set(user); self.events = []; self.seen = set(user)
        outer = self
        class Mode(torch.overrides.TorchFunctionMode):
            def __torch_function__(self, func, types, args=(), kwargs=None):
                kwargs = kwargs or {}
                name = getattr(func, "__name__", "")
                targets = []
                if name.endswith("_") and not name.endswith("__") and args and isinstance(args[0], torch.Tensor):
                    targets.append(args[0])
                if name in ("__setitem__", "__iadd__", "__imul__", "__isub__", "__itruediv__", "__iand__", "__ior__") and args and isinstance(args[0], torch.Tensor):
                    targets.append(args[0])
                o = kwargs.get("out")
                if isinstance(o, torch.Tensor): targets.append(o)
                elif isinstance(o, (tuple, list)): targets.extend(x for x in o if isinstance(x, torch.Tensor))
                for t in targets:
                    try: p = t.untyped_storage().data_ptr()
                    except Exception: continue
                    if p not in outer.seen:
                        outer.seen.add(p); outer.events.append((0, p, 0))
                    outer.events.append((1, p, len(outer.events) + 1))
                return func(*args, **kwargs)
        self.mode = Mode()
    def __enter__(self): self.mode.__enter__(); return self
    def __exit__(self, *a): return self.mode.__exit__(*a)

def compact_trace(user, events):
    """storages renumbered by order of first appearance (user storages first) and runs of consecutive writes
    to one storage collapsed into one event: trace_ok gives the same verdict (it only compares storage
    numbers, and no allocation lies inside a run), the values sent to the checker stay small"""
    num = {}
    def n(p): return num.setdefault(p, len(num) + 1)
    u = [n(p) for p in sorted(user)]
    out = []
    for t, p, v in events:
        e = (t, n(p))
        if t == 1 and out and out[-1][:2] == e: continue
        out.append((t, n(p), len(out) + 1 if t == 1 else 0))
    return u, out

def result_digest(name, res):
    import fggs
    if isinstance(res, Exception): return [h64("EXC " + type(res).__name__)]
    if name.startswith("sum_product") and not name.startswith("sum_products"):
        return [h64(tensor_snap(res.to_dense().detach()))]
    if name.startswith("sum_products"):
        return [h64(k.name + tensor_snap(v.to_dense().detach())) for k, v in res.items()]
    if name.startswith("viterbi"):
        def d(x): return (x.rule.lhs.name, sorted((str(k.id) if isinstance(k.id, str) else "#", v) for k, v in x.asst.items()), [d(c) for c in x.children.values()])
        return [h64(repr(d(res)))]
    if name.startswith("factorize_rule"):
        idmap = {}
        return [h64(r.lhs.name + "->" + graph_snap(r.rhs, idmap)) for r in res]
    if name.startswith("factorize") or name.startswith("conjoin"):
        return [h64(p) for p in hrg_snap(res, with_interp=hasattr(res, "domains"), layout=False)]
    if name.startswith("json"):
        return [h64(json.dumps(res, sort_keys=True))]
    return [h64(repr(res))]

def make_queries(rng, spec):
    import fggs
    qs = []
    srs = [("real", lambda: fggs.RealSemiring(dtype=__import__("torch").float64)), ("log", lambda: fggs.LogSemiring(dtype=__import__("torch").float64)),
           ("viterbi", lambda: fggs.ViterbiSemiring(dtype=__import__("torch").float64))]
    for name, mk in srs:
        for m in ("fixed-point", "newton"):
            qs.append(("sum_product[%s,%s]" % (name, m), lambda g, mk=mk, m=m: fggs.sum_product(g, semiring=mk(), method=m, kmax=60)))
    qs.append(("sum_products[real]", lambda g: fggs.sum_products(g, semiring=srs[0][1](), kmax=60)))
    st = spec["elabels"][spec["start"]]["type"]
    xi = tuple(0 for _ in st)
    qs.append(("viterbi", lambda g: fggs.viterbi(g, xi, semiring=srs[2][1](), kmax=60)))
    for meth in ("min_fill", "quickbb", "acb"):
        qs.append(("factorize_fgg[%s]" % meth, lambda g, meth=meth: fggs.factorize_fgg(g, method=meth)))
    qs.append(("factorize_hrg", lambda g: fggs.factorize_hrg(g)))
    nr = len(spec["rules"])
    if nr:
        for ri in sorted({0, nr - 1, rng.randrange(nr)}):
            # direct calls with the documented `labels` argument omitted: results must not depend on earlier calls
            qs.append(("factorize_rule[%d]" % ri, lambda g, ri=ri: fggs.factorize_rule(g.all_rules()[ri])))
    qs.append(("conjoin_hrgs", lambda g: fggs.conjoin_hrgs(g, g)))
    qs.append(("json", lambda g: fggs.fgg_to_json(g)))
    return qs

def rebuild(g, rg):
    """an independent FGG with the same content, built through the constructors (not FGG.copy /
    deepcopy, which would also copy any cache hanging off the factor objects)"""
    import fggs
    h = fggs.FGG(g.start)
    for nl in g.node_labels(): h.add_node_label(nl)
    for el in g.edge_labels(): h.add_edge_label(el)
    for r in g.all_rules(): h.add_rule(r.copy())
    for name, d in g.domains.items():
        h.domains[name] = fggs.FiniteDomain(list(d.values)) if hasattr(d, "values") else fggs.RangeDomain(d.size())
    for name, f in g.factors.items():
        w = f.weights.detach().clone() if hasattr(f.weights, "detach") else f.weights.clone()
        nf = fggs.FiniteFactor([h.domains[nl.name] for nl in g.get_edge_label(name).type], w)
        if rg: nf.weights.requires_grad_()
        h.factors[name] = nf
    return h

def call(q, g):
    with warnings.catch_warnings():
        warnings.simplefilter("ignore")
        try: return q(g)
        except RecursionError as e: return e
        except Exception as e: return e

def clone_checks(rng, violations, vals, metas):
    """in-place operations on a clone of a PatternedTensor / MultiTensor never change the source"""
    import torch, fggs
    from fggs.indices import PatternedTensor, PhysicalAxis, SumAxis, productAxis
    from fggs.multi import MultiTensor
    k = PhysicalAxis(2); k2 = PhysicalAxis(3)
    srcs = [PatternedTensor(torch.arange(6.).reshape(2, 3)),
            PatternedTensor(torch.tensor([1., 2.]), (k,), (k, k), default=0.),                 # diagonal
            PatternedTensor(torch.tensor([1., 2., 3.]), (k2,), (SumAxis(1, k2, 0),), default=5.),
            PatternedTensor(torch.tensor(2.)).expand(2, 2)]
    ops = [("add_", lambda c: c.add_(c)), ("mul_", lambda c: c.mul_(c)), ("neg_", lambda c: c.neg_()), ("abs_", lambda c: c.abs_()),
           ("log1p_", lambda c: c.log1p_()), ("nan_to_num_", lambda c: c.nan_to_num_()), ("copy_", lambda c: c.copy_(c.add(c))),
           ("relu_", lambda c: c.relu_()), ("imul", lambda c: c.__imul__(3.)), ("exp_", lambda c: c.exp_())]
    for si, s in enumerate(srcs):
        for name, op in ops:
            before = [h64(tensor_snap(s))]
            try:
                c = s.clone()
                user = {s.physical.untyped_storage().data_ptr()}
                with Monitor(user) as mon:
                    op(c)
                tr = list(mon.events)
            except AttributeError:
                continue
            except Exception as e:
                tr = []
            after = [h64(tensor_snap(s))]
            vals.append((sorted(user), tr, before, after, [], []))
            metas.append(dict(kind="clone", source=si, op=name))
    sem = fggs.RealSemiring(dtype=torch.float64)
    mt = MultiTensor({"a": torch.Size([2]), "b": torch.Size([])}, sem)
    mt["a"] = PatternedTensor(torch.tensor([1., 2.], dtype=torch.float64)); mt["b"] = PatternedTensor(torch.tensor(3., dtype=torch.float64))
    for name, op in [("iadd", lambda c: c.__iadd__(c.clone())), ("copy_", lambda c: c.copy_(c + c)), ("maximum_", lambda c: c.maximum_(c + c)), ("isub", lambda c: c.__isub__(c.clone()))]:
        before = [h64(tensor_snap(v)) for v in mt.values()]
        user = {v.physical.untyped_storage().data_ptr() for v in mt.values()}
        c = mt.clone()
        with Monitor(user) as mon:
            try: op(c)
            except Exception: pass
        after = [h64(tensor_snap(v)) for v in mt.values()]
        vals.append((sorted(user), list(mon.events), before, after, [], [])); metas.append(dict(kind="clone-multitensor", op=name))

HEAP_WHAT = {
    1: "clone clause violated on the real objects: after x.clone(), while every operation only mutated objects made by/after the clone (discipline owned_step, sound by C18_clone_independent / C18_mclone_independent), an object older than the clone changed",
    10: "heap model: a call returned a different object / bool / exception than the model (aliasing of results)",
    11: "heap model: the partition of the live PatternedTensors by storage differs from the model (an operation shares a storage where the model allocates, or the other way round)",
    12: "heap model: dense values or default of a live object differ from the model",
    13: "heap model: the dictionary (key -> object) of a MultiTensor differs from the model",
    14: "heap model: number or kind of live objects differs from the model",
    20: "heap model: the model state became ill-formed (harness parameter error)",
    30: "heap model: operation outside the modelled domain was generated",
}

def heap_eval(steps):
    return run_ocaml(HEAPFN, [steps])[0]

def heap_selftest(runs, codes):
    """(i) a sequence  new; clone; map on the clone  whose recorded observation of the SOURCE is falsified after the map
    must get verdict 1 (clone clause judged on the observations); (ii) a falsified storage partition must get 11;
    (iii) a falsified value 12.  Uses freshly executed sequences, not the random ones."""
    out = {}
    ops = [dict(op="new", pat="dense", vals=[1, 2], dflt=0, res=[0]), dict(op="clone", x=0, res=[1]), dict(op="map", f=0, x=1, res=[])]
    kept, steps = H.replay_sequence((2,), ops)
    def falsify(fn):
        st = [(w, o, [tuple(x) for x in obs]) for w, o, obs in steps]
        fn(st); return st
    def f1(st):
        w, o, obs = st[2]; k, c, dv, d, di = obs[0]; obs[0] = (k, c, [-v for v in dv], d, di)
    def f2(st):
        w, o, obs = st[2]; k, c, dv, d, di = obs[1]; obs[1] = (k, 0, dv, d, di)
    def f3(st):
        w, o, obs = st[2]; k, c, dv, d, di = obs[1]; obs[1] = (k, c, [v + 1 for v in dv], d, di)
    good, c1, c2, c3 = run_ocaml(HEAPFN, [steps, falsify(f1), falsify(f2), falsify(f3)])
    out = dict(unmodified=good, source_changed_after_inplace_on_clone=c1, clone_shares_storage=c2, wrong_value=c3)
    out["failed"] = not (good == 0 and out["source_changed_after_inplace_on_clone"] == 1 and out["clone_shares_storage"] == 11 and out["wrong_value"] == 12)
    return out

def heap_stream(tier, seed):
    """random operation sequences over PatternedTensors / MultiTensors: real objects vs the Coq heap model"""
    rng = random.Random(seed * 1009 + 18)
    nseq = int(os.environ.get("VERIF_N_HEAP", 0)) or (170 if tier == "quick" else 6000)
    runs = []; crashes = []
    for i in range(nseq):
        length = rng.choice([3, 4, 5, 6, 7, 8, 9, 10, 11, 12, 12])
        shape, ops, steps, excs = H.gen_sequence(rng, length)
        if len(excs) > len(ops):        # an operation raised although the model predicts no exception
            crashes.append(excs.pop())
        runs.append((shape, ops, steps, excs))
    vals = [r[2] for r in runs]
    codes, nk = run_model(HEAPFN, vals, seed=seed, coq_sample=4 if tier == "quick" else 25, tag="c18heap")
    violations = []; nshrunk = {}
    for cr in crashes:
        violations.append(Violation("heap model: an operation raised an exception that the model does not predict", case=dict(kind="heap-exception", **cr),
                                    corr="C18 / corr:heap", failing_input_found=False, call=cr["operation"].get("op")))
    # self-test of the checker on this run's data: corrupt the observation of one sequence and expect the verdict
    selftest = heap_selftest(runs, codes)
    if selftest.get("failed"):
        violations.append(Violation("heap model checker self-test failed", case=selftest, corr="C18 / corr:heap self-test", failing_input_found=False))
    ophist = {}; lenhist = {}; exchist = {}; shared_steps = 0; nsteps = 0; on_clone = 0; clones = 0; distinct = set(); alias_steps = 0
    for (shape, ops, steps, excs), c in zip(runs, codes):
        lenhist[len(ops)] = lenhist.get(len(ops), 0) + 1
        sharing = False
        for a, (wire, out, obs), e in zip(ops, steps, excs):
            ophist[a["op"]] = ophist.get(a["op"], 0) + 1
            if e: exchist[a["op"] + ":" + e] = exchist.get(a["op"] + ":" + e, 0) + 1
            nsteps += 1
            if any(o[0] == 0 and o[1] != r for r, o in enumerate(obs)): shared_steps += 1; sharing = True
            held = [r for o in obs if o[0] == 1 for _, r in o[4]]
            if len(held) != len(set(held)): alias_steps += 1; sharing = True
            if a["op"] in ("clone", "mclone"): clones += 1
            if a.get("on_clone"): on_clone += 1
        if sharing and any(a["op"] in H.MUTATING for a in ops):
            distinct.add(json.dumps([shape, [{k: v for k, v in a.items() if k not in ("res", "on_clone")} for a in ops]], sort_keys=True))
        if c == 0: continue
        nshrunk[c] = nshrunk.get(c, 0) + 1
        if nshrunk[c] <= 3:          # shrink the first few of every class (finish() reports at most 3 per class)
            kept, ksteps, kc = H.shrink(shape, ops, c, heap_eval)
            if ksteps is None: kept, kc = ops, c
        else:
            kept, kc = ops, c
        violations.append(Violation(HEAP_WHAT.get(kc, "heap model verdict %d" % kc),
                                    case=dict(kind="heap", shape=list(shape), verdict=kc, ops=[{k: v for k, v in a.items() if k != "on_clone"} for a in kept],
                                              original_length=len(ops), original_verdict=c),
                                    oracle="owned_step discipline (C18_clone_independent, C18_mclone_independent)" if kc < 10 else None,
                                    corr="C18 / corr:heap (Model.HeapCheck.heap_check)", failing_input_found=(kc < 10),
                                    call=" ; ".join(a["op"] for a in kept)))
    cov = dict(heap_sequences=len(runs), heap_steps=nsteps, heap_op_histogram=dict(sorted(ophist.items())),
               heap_length_histogram={str(k): v for k, v in sorted(lenhist.items())}, heap_exceptions_modelled=exchist,
               heap_steps_with_shared_storage=shared_steps, heap_steps_with_object_held_twice=alias_steps,
               heap_clone_operations=clones, heap_mutations_of_clone_derived_objects=on_clone,
               heap_distinct_nontrivial=len(distinct), heap_kernel_reevaluated=nk, heap_checker_selftest=selftest,
               heap_sample=dict(shape=list(runs[0][0]), ops=[{k: v for k, v in a.items() if k not in ("res", "on_clone")} for a in runs[0][1]]) if runs else None)
    return cov, violations

GRID01 = [Fraction(0), Fraction(0), Fraction(1, 2), Fraction(1), Fraction(1, 4)]

def add_terminal(rng, spec, typ):
    el = len(spec["elabels"]); spec["elabels"].append(dict(term=True, type=list(typ)))
    spec["weights"][el] = gen.nested([spec["nlabels"][nl] for nl in typ], lambda: rng.choice(GRID01))
    return el

def force_passthrough(rng, spec):
    """for some nonterminals X (at least one): a rule  X(v1..vk) -> t(v1..vk)  whose right-hand side is ONE
    terminal edge attached exactly to the external nodes in order (its value IS the weight tensor of t: any
    identity shortcut in einsum / project / to_dense hands the caller's tensor to the solver), mostly as the
    only rule of X without nonterminal edges, and a recursive rule  X(v) -> X(u) step(u1,v1)..step(uk,vk)
    (X -> X c for arity 0) so that X lies in a recursive component; the recursive one at a random position of the rule list, the pass-through rule in half of the cases first"""
    el = spec["elabels"]
    nts = [i for i, e in enumerate(el) if not e["term"]]
    chosen = [x for x in nts if rng.random() < 0.75] or [rng.choice(nts)]
    for x in chosen:
        typ = list(el[x]["type"]); k = len(typ)
        t = add_terminal(rng, spec, typ)
        base = dict(lhs=x, nodes=list(typ), edges=[(t, list(range(k)))], ext=list(range(k)))
        if rng.random() < 0.7:
            spec["rules"] = [r for r in spec["rules"] if not (r["lhs"] == x and all(el[e]["term"] for e, _ in r["edges"]))]
        if k == 0:
            rec = dict(lhs=x, nodes=[], edges=[(x, []), (add_terminal(rng, spec, []), [])], ext=[])
        else:
            steps = [add_terminal(rng, spec, [nl, nl]) for nl in typ]
            rec = dict(lhs=x, nodes=typ + typ, edges=[(x, list(range(k, 2 * k)))] + [(steps[j], [k + j, j]) for j in range(k)], ext=list(range(k)))
        new = [base, rec]; rng.shuffle(new)
        for r in new: spec["rules"].insert(0 if (r is base and rng.random() < 0.5) else rng.randint(0, len(spec["rules"])), r)
    spec["features"] = sorted(set(spec["features"]) | {"passthrough_rule"})
    spec["recursive"] = True

def force_ruleless(rng, spec):
    """a nonterminal WITHOUT rules: declared only (unreachable), or used by an additional alternative of some
    rule (which then contributes zero), with arity 0-2"""
    el = spec["elabels"]
    nls = len(spec["nlabels"])
    y = len(el); el.append(dict(term=False, type=[rng.randrange(nls) for _ in range(rng.choice([0, 0, 1, 2]))]))
    if spec["rules"] and rng.random() < 0.7:
        r = copy.deepcopy(rng.choice(spec["rules"]))
        att = []
        for nl in el[y]["type"]:
            cands = [i for i, l in enumerate(r["nodes"]) if l == nl]
            if not cands: r["nodes"].append(nl); cands = [len(r["nodes"]) - 1]
            att.append(rng.choice(cands))
        r["edges"].insert(rng.randint(0, len(r["edges"])), (y, att))
        spec["rules"].insert(rng.randint(0, len(spec["rules"])), r)
    spec["features"] = sorted(set(spec["features"]) | {"ruleless_nt"})

def make_queries_sr(rng, spec, sr):
    """queries in ONE semiring (the one the weights were written for), all methods"""
    import fggs
    qs = []
    for m in ("fixed-point", "newton"):
        qs.append(("sum_product[%s,%s]" % (sr.name, m), lambda g, m=m: fggs.sum_product(g, semiring=sr.semiring(), method=m, kmax=60)))
        qs.append(("sum_products[%s,%s]" % (sr.name, m), lambda g, m=m: fggs.sum_products(g, semiring=sr.semiring(), method=m, kmax=60)))
    if sr.name != "bool":
        xi = tuple(0 for _ in spec["elabels"][spec["start"]]["type"])
        vs = fggs.ViterbiSemiring(dtype=sr.torch_dtype())
        qs.append(("viterbi", lambda g: fggs.viterbi(g, xi, semiring=vs, kmax=6)))
    qs.append(("factorize_fgg[min_fill]", lambda g: fggs.factorize_fgg(g, method="min_fill")))
    qs.append(("factorize_hrg", lambda g: fggs.factorize_hrg(g)))
    qs.append(("conjoin_hrgs", lambda g: fggs.conjoin_hrgs(g, g)))
    qs.append(("json", lambda g: fggs.fgg_to_json(g)))
    return qs

def inplace_update(w):
    t = w.physical if hasattr(w, "physical") else w
    try:
        if str(t.dtype) == "torch.bool": t.logical_not_()
        else: t.mul_(0.5)
    except RuntimeError:
        # an expanded (stride-0) weight tensor: torch refuses the in-place update of overlapping memory;
        # the caller cannot update such a tensor in place, so this history step is a no-op
        pass

def history(rng, spec, g, rg, seq, stream, vals, metas, rtvals, rtmetas, hist):
    """one history of calls on the SAME grammar object, with in-place weight updates by the caller in between"""
    import torch
    first = {}; called = []
    ids = {l.name: i for i, l in enumerate(g.edge_labels())}
    for name, q in seq:
        forced = (name == "<update>")
        if (forced or rng.random() < 0.3) and g.factors:
            if called and not forced: name, q = rng.choice(called)     # repeat an earlier query right after the update
            # the caller updates a weight tensor in place (as an optimiser step does); every later
            # query must see the new values (no stale caches), which the fresh-copy comparison checks
            with torch.no_grad():
                for fac in (list(g.factors.values()) if forced else [rng.choice(list(g.factors.values()))]):
                    inplace_update(fac.weights)
            first = {}
            hist["<inplace weight update>"] = hist.get("<inplace weight update>", 0) + 1
        if forced: continue
        hist[name.split("[")[0]] = hist.get(name.split("[")[0], 0) + 1
        called.append((name, q))
        fresh = rebuild(g, rg)
        ref = result_digest(name, call(q, fresh))
        try:
            cp = g.copy(); eq0 = bool(g == cp) and bool(cp == g) and not bool(g != cp)
        except Exception:
            cp = None; eq0 = True
        tab0 = rule_table(g, ids)
        deep0 = deep_lines(g)
        before = [h64(p) for p in hrg_snap(g)] + deep_digest(deep0)
        user = user_storages(g)
        with Monitor(user) as mon:
            res = call(q, g)
        deep1 = deep_lines(g)
        after = [h64(p) for p in hrg_snap(g)] + deep_digest(deep1)
        tab1 = rule_table(g, ids)
        try:
            eq1 = True if cp is None else (bool(g == cp) and bool(cp == g) and not bool(g != cp))
        except Exception:
            eq1 = False
        dig = result_digest(name, res)
        r1 = first.setdefault(name, dig)
        cu, ctr = compact_trace(user, mon.events)
        vals.append((cu, ctr, before, after, ref + r1, dig + dig))
        meta = dict(kind="query", stream=stream, monitor_writes=sum(1 for e in mon.events if e[0] == 1), writes_to_caller_storages=sum(1 for e in mon.events if e[0] == 1 and e[1] in user), spec=gen.spec_jsonable(spec), requires_grad=rg, query=name, sequence=[s for s, _ in seq],
                    result_is_exception=isinstance(res, Exception) and type(res).__name__)
        if deep0 != deep1:
            s0, s1 = set(deep0), set(deep1)
            meta["snapshot_lines_only_before"] = [l for l in deep0 if l not in s1][:6]
            meta["snapshot_lines_only_after"] = [l for l in deep1 if l not in s0][:6]
        metas.append(meta)
        nts = [ids.setdefault(x.name, len(ids)) for x in g.nonterminals()]
        rtvals.append((tab0, nts, tab1, eq0, eq1))
        rtmetas.append(dict(kind="rule-table", stream=stream, spec=gen.spec_jsonable(spec), query=name, sequence=[s for s, _ in seq],
                            labels={v: k for k, v in ids.items()}, rule_table_before=tab0, rule_table_after=tab1,
                            nonterminals_looked_up=nts, equal_to_copy_before=eq0, equal_to_copy_after=eq1))

CONFIGS = [("bool", "bool"), ("real", "float64"), ("log", "float64"), ("viterbi", "float64"), ("real", "float32")]

def run(tier, seed):
    import torch, fggs
    hcov, hviol = heap_stream(tier, seed)
    rng = random.Random(seed)
    n = int(os.environ.get("VERIF_N", 0)) or (24 if tier == "quick" else 2500)
    violations = []; vals = []; metas = []; rtvals = []; rtmetas = []; distinct = set(); hist = {}; feat = {}; cfghist = {}
    for i in range(n):
        recursive = (i % 3 == 0)
        spec = gen.random_spec(rng, recursive=recursive, allow_inf=False, max_nt=3, max_dom=2, max_nodes=3 if recursive else 4, max_edges=3, dup_ext=False)
        if recursive:
            spec["weights"] = {el: gen.nested_map(w, lambda v: v / 4 if v <= 1 else Fraction(1, 8)) for el, w in spec["weights"].items()}
        distinct.add(json.dumps(gen.spec_jsonable(spec), sort_keys=True))
        sr = SR("real", "float64")
        b = gen.build_fgg(spec, sr.wconv, ids=["explicit", "implicit", "mixed"][i % 3], rng=rng, dtype=torch.float64)
        g = b.fgg
        rg = (i % 2 == 0)
        if rg:
            for f in g.factors.values(): f.weights.requires_grad_()
        qs = make_queries(rng, spec)
        seq = [rng.choice(qs) for _ in range(rng.randint(6, 10))]
        if i % 2 == 1:
            # cache-invalidation stream: one query of every kind, then (after an in-place weight update,
            # forced below) the same queries again
            kinds = {}
            for nm, q in qs: kinds.setdefault(nm.split("[")[0], (nm, q))
            base = list(kinds.values())
            seq = base + [("<update>", None)] + base
        for f in spec["features"]: feat[f] = feat.get(f, 0) + 1
        history(rng, spec, g, rg, seq, "random", vals, metas, rtvals, rtmetas, hist)
    # forced-shape stream: every semiring with weights of its own dtype (Bool with bool weights), all methods;
    # grammars with pass-through rules in recursive components and with nonterminals that have no rules
    m = int(os.environ.get("VERIF_N_SHAPES", 0)) or (40 if tier == "quick" else 1500)
    for i in range(m):
        srname, dt = CONFIGS[i % len(CONFIGS)]
        sr = SR(srname, dt)
        variant = (i // len(CONFIGS)) % 4
        spec = gen.random_spec(rng, recursive=(variant != 1), allow_inf=False, max_nt=3, max_dom=3, max_nodes=3, max_edges=2, dup_ext=False)
        if variant != 1: force_passthrough(rng, spec)
        if variant != 0: force_ruleless(rng, spec)
        if spec.get("recursive") and srname in ("real", "log"):
            spec["weights"] = {el: gen.nested_map(w, lambda v: v / 4 if v <= 1 else Fraction(1, 8)) for el, w in spec["weights"].items()}
        distinct.add(json.dumps(gen.spec_jsonable(spec), sort_keys=True))
        b = gen.build_fgg(spec, sr.wconv, ids=["explicit", "implicit", "mixed"][i % 3], rng=rng, dtype=sr.torch_dtype(), patterned=(variant == 3))
        g = b.fgg
        rg = (srname != "bool" and i % 2 == 0)
        if rg:
            for f in g.factors.values():
                try: f.weights.requires_grad_()
                except Exception: pass
        qs = make_queries_sr(rng, spec, sr)
        seq = [qs[1]] + [rng.choice(qs) for _ in range(rng.randint(4, 6))]
        rng.shuffle(seq)
        for f in spec["features"]: feat[f] = feat.get(f, 0) + 1
        ck = "%s/%s%s" % (srname, dt, "/patterned" if variant == 3 else "")
        cfghist[ck] = cfghist.get(ck, 0) + 1
        history(rng, spec, g, rg, seq, "forced-shapes", vals, metas, rtvals, rtmetas, hist)
    clone_checks(rng, violations, vals, metas)
    codes, nk = run_model(PUR, vals, seed=seed, coq_sample=20, tag="c18")
    WHAT = {1: "an in-place torch operation wrote to a storage owned by the caller (or to one not allocated inside the call)",
            5: "an argument's deep snapshot changed across the call",
            6: "the result differs from the same call on a fresh deep copy, or from an earlier identical call"}
    for m, c in zip(metas, codes):
        if c == 0: continue
        violations.append(Violation(WHAT.get(c, "verdict %d" % c), case=m, oracle="trace_ok / snapshot equality", corr="C18 / corr:purity",
                                    failing_input_found=True, call=m.get("query") or m.get("op")))
    rcodes, rnk = run_model(RTAB, rtvals, seed=seed, coq_sample=10, tag="c18rt")
    RWHAT = {2: "a read-only query changed the grammar's rule table (HRG._rules): looking up the rules of a nonterminal that has none inserted an entry for it, exactly as the defaultdict lookup of Model/RuleTable.v (query_dd) does; the model's lookup (C18_rules_lookup_pure) leaves the table as it was",
             4: "a read-only query changed the grammar's rule table (HRG._rules: keys in order with the number of rules each); the model's lookup (C18_rules_lookup_pure) leaves the table as it was",
             3: "after the query the grammar is no longer == (HRG.__eq__, both directions, and !=) to the copy taken just before the call, although it was before"}
    for m_, c in zip(rtmetas, rcodes):
        if c == 0: continue
        violations.append(Violation(RWHAT.get(c, "rule table verdict %d" % c), case=m_, observed=dict(rule_table_after=m_["rule_table_after"], equal_to_copy_after=m_["equal_to_copy_after"]),
                                    expected=dict(rule_table_after=m_["rule_table_before"], equal_to_copy_after=m_["equal_to_copy_before"]),
                                    oracle="Model.RuleTable.ruletable_check (C18_rules_lookup_pure, C18_ruletable_check_sound)", corr="C18 / corr:rule-table",
                                    failing_input_found=True, call=m_.get("query")))
    nwrites = sum(m_.get("monitor_writes", 0) for m_ in metas) + sum(sum(1 for e in v[1] if e[0] == 1) for v, m_ in zip(vals, metas) if "monitor_writes" not in m_)
    violations.extend(hviol)
    ruleless_calls = sum(1 for v in rtvals if set(v[1]) - {k for k, _ in v[0]})
    passthrough_fp = sum(1 for m_ in metas if m_.get("stream") == "forced-shapes" and "passthrough_rule" in m_["spec"].get("features", []) and "fixed-point" in (m_.get("query") or ""))
    cov = dict(evaluations=len(vals) + hcov["heap_sequences"], distinct_nontrivial=len(distinct) + hcov["heap_distinct_nontrivial"], inplace_writes_monitored=nwrites, query_histogram=hist,
               feature_histogram=dict(sorted(feat.items())), forced_shape_configurations=dict(sorted(cfghist.items())),
               calls_on_grammars_with_a_ruleless_nonterminal=ruleless_calls, fixed_point_calls_on_passthrough_grammars=passthrough_fp,
               rule_table_checks=len(rtvals), rule_table_kernel_reevaluated=rnk,
               rule="random FGG specs x random interleavings (6-10 calls) of sum_product (3 semirings x 2 methods), sum_products, viterbi, factorize_fgg (3 methods), factorize_hrg, conjoin_hrgs, fgg_to_json on the SAME objects, weights with and without requires_grad, the caller updating weights in place between calls; forced-shape stream: every semiring with weights of its own dtype (Bool with bool weights, Real float64/float32, Log, Viterbi) x methods fixed-point/newton of sum_product and sum_products (+ viterbi, factorize, conjoin, json), 5-7 calls per grammar, on grammars that get (a) for some nonterminals a pass-through rule X(v1..vk) -> t(v1..vk) (one terminal edge attached exactly to the externals, mostly the only rule of X without nonterminal edges) plus a recursive rule, at random positions of the rule list, (b) a nonterminal without any rule (declared only, or used in an extra alternative), (c) both, (d) both with patterned (diagonal / expanded) weights; per call: deep snapshot before/after = the old structure text AND one line per value reachable from the grammar object through attributes, dict entries (with dict type and key order: _rules, _node_labels, _edge_labels, domains, factors), sequences, sets, with sharing, and per tensor shape/strides/offset/dtype/requires_grad/grad/storage address/version counter/sha1 of the bytes; g == copy-taken-before (both directions and !=) before and after; the key table of _rules before/after judged by Model.RuleTable.ruletable_check; write monitor trace; result vs fresh-copy result and vs first identical call; plus in-place operations on clones of PatternedTensors / MultiTensors; distinct_nontrivial = distinct specs + distinct heap-stream operation sequences in which two live objects share a storage (or one object is held twice) and something is mutated; heap stream: random sequences (3-12 operations) of clone / in-place maps / copy_ (both branches) / views (T, transpose, permute, flatten, unsqueeze, freshen, detach, expand, __getitem__, __iter__) / to / default_to / to_dense / project / binary operations / MultiTensor __setitem__, __getitem__, get, __delitem__, add_single, +=, -=, maximum_, copy_, clone, allclose over PatternedTensors of 5 shapes and 5 patterns, real objects vs the Coq heap model after every step",
               kernel_reevaluated=nk, samples=[dict(meta=metas[0], trace=vals[0][1][:10])], **hcov,
               open_items=["the allocate/alias/write skeletons of multi_solve, solve, fixed_point, newton are not modelled function by function; the monitor observes what torch actually did on the explored histories",
                           "heap model: reshape/view (torch decides between view and copy by strides), MultiTensor.__add__/__sub__ (compositions of the modelled clone and add_single), requires_grad_ and the einsum/solve layer are not operations of the heap model",
                           "heap model: preservation of wf_state by every operation is evaluated on every step of the stream, not proved"])
    return cov, violations

def replay(path):
    body = json.load(open(path))
    case = body.get("case") or {}
    if case.get("kind") == "heap":
        kept, steps = H.replay_sequence(tuple(case["shape"]), case["ops"])
        c = heap_eval(steps)
        print("heap model replay: %d operations, verdict %d (%s)" % (len(kept), c, HEAP_WHAT.get(c, "ok" if c == 0 else "?")))
        return 1 if c != 0 else 0
    print("re-run: bin/check C18 quick with the recorded seed")
    return 1

MANIFEST = dict(
    level="proof",
    text="Coq heap model of the container layer (Model/Heap.v: storages, PatternedTensor objects = storage + cells + layout + default, MultiTensor = key -> object reference; 25 operations transcribed from indices.py / multi.py with their sharing behaviour): C18_frame (every operation mutates only its target objects and writes only their storages), C18_clone_independent / C18_mclone_independent (after a clone EVERY operation sequence that only mutates objects made by/after the clone leaves every older object's denotation unchanged; by a watermark invariant over the sequence), C18_mclone_deep, C18_clone_equal / C18_mclone_equal (a clone denotes what its source denotes), and the witnesses C18_view_shares, C18_getitem_shares, C18_iter_shares, C18_to_same_dtype_shares, C18_copy_into_view_writes_source, C18_add_single_aliases, C18_shallow_clone_refuted (= seeded/C18-d). Correspondence: random operation sequences run on the real objects and through the extracted model; after every step the storage partition (data_ptr), every dense value/default, every dictionary and the identity of every returned object are compared, violations are shrunk to a minimal sequence; the clone clause itself is judged on the real objects by the model's discipline. Rule table (Model/RuleTable.v: HRG._rules as an association list, add_rule, rules = lookup with a default, the loop of lookups of a query): C18_rules_lookup_pure (the lookups leave the table, with its key order, unchanged whatever labels are asked for -- also nonterminals without rules), C18_rules_after_add_rule, C18_ruletable_check_sound / _complete, C18_defaultdict_lookup_pure_iff (the defaultdict lookup of seeded/C18-f is read-only exactly when every label asked for has an entry); correspondence: key table of _rules before/after every query and == with a copy taken before, judged by ruletable_check. Also: ownership model of in-place updates -- a trace of (allocate | write) events accepted by trace_ok leaves every caller-owned storage unchanged and every written storage was allocated inside the call. A TorchFunctionMode monitor records the actual in-place / out= torch calls of every query and the Coq checker judges the trace; deep snapshots of every argument before/after each call and result digests (vs a fresh deep copy and vs earlier identical calls) are compared in Coq, over random interleavings of all listed queries on the same objects with in-place weight updates by the caller in between, in every semiring with weights of its own dtype (Bool with bool weights), methods fixed-point and newton, on random grammars and on grammars with forced pass-through rules X(v..) -> t(v..) in recursive components, nonterminals without rules, patterned weights.",
    note="Clone clause: proved for all operation sequences on the heap model of the container layer, whose sharing behaviour is compared with the real objects after every step of random sequences (notes/C18.md lists the 25 modelled operations and what is outside: reshape/view, __add__/__sub__, requires_grad_, the einsum/solve layer). Query part: partial -- which torch calls alias or write inside sum_product/viterbi/... is runtime behaviour; the model covers the ownership discipline, the monitor what torch did on the explored histories. Trusted: the pattern-layer parameters (layouts, selected positions, memory format) the harness hands to the heap model, the monitor's classification of in-place calls (name ends with '_' or out=), sha1 digests, harness. Side finding (not a C18 violation): MultiTensor.copy_ raises RuntimeError('dictionary changed size during iteration') whenever the destination has a key the source lacks (after deleting the first such key); modelled as it is.",
    technique="Coq heap model (separation/watermark invariant by induction over operation sequences) + model-vs-implementation sharing/value comparison with shrinking; Coq ownership-model theorem + runtime write monitor and snapshot oracle judged by the extracted checker",
    design_ref="DESIGN.md section 6, C18")
