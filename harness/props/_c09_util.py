"""C09 helpers: exact semiring arithmetic on the Python side (used only to build upper-bound
certificates, which the Coq side re-checks), conversion between abstract values, torch
tensors and the wire formats, input generators."""
from fractions import Fraction
import itertools, math, random

INF = "inf"
NINF = "-inf"
F = Fraction

# ----------------------------------------------------------------------------- exact carriers

class XReal:
    """[0, +inf] with 0 * inf = 0 (RealSemiring; LogSemiring read through exp)"""
    zero = F(0); one = F(1)
    @staticmethod
    def add(a, b): return INF if a == INF or b == INF else a + b
    @staticmethod
    def mul(a, b):
        if a == 0 or b == 0: return F(0)
        if a == INF or b == INF: return INF
        return a * b
    @staticmethod
    def star(a): return INF if a == INF or a >= 1 else 1 / (1 - a)
    @staticmethod
    def le(a, b): return b == INF or (a != INF and a <= b)

class XVit:
    """[-inf, +inf] with max and +, (-inf) + (+inf) = -inf (ViterbiSemiring)"""
    zero = NINF; one = F(0)
    @staticmethod
    def add(a, b):
        if a == NINF: return b
        if b == NINF: return a
        if a == INF or b == INF: return INF
        return max(a, b)
    @staticmethod
    def mul(a, b):
        if a == NINF or b == NINF: return NINF
        if a == INF or b == INF: return INF
        return a + b
    @staticmethod
    def star(a):            # the correct star: least solution of y = max(0, a + y)
        if a == NINF: return F(0)
        if a == INF: return INF
        return F(0) if a <= 0 else INF
    @staticmethod
    def le(a, b): return a == NINF or b == INF or (a != INF and b != NINF and a <= b)

class XBool:
    zero = False; one = True
    @staticmethod
    def add(a, b): return a or b
    @staticmethod
    def mul(a, b): return a and b
    @staticmethod
    def star(a): return True
    @staticmethod
    def le(a, b): return (not a) or b

CARRIER = {"real": XReal, "log": XReal, "viterbi": XVit, "bool": XBool}

def xsolve(R, A, b, order=None):
    """least solution of x = A x + b by LU-style elimination in the given order followed by
    back-substitution (not the Gauss-Jordan scheme of the code); exact arithmetic"""
    n = len(A)
    if order is None: order = list(reversed(range(n)))
    A = [list(r) for r in A]; b = list(b); x = [R.zero] * n
    for idx, k in enumerate(order):
        s = R.star(A[k][k]); rest = order[idx + 1:]
        for i in rest:
            f = R.mul(A[i][k], s)
            for j in rest: A[i][j] = R.add(A[i][j], R.mul(f, A[k][j]))
            b[i] = R.add(b[i], R.mul(f, b[k]))
    for idx in reversed(range(n)):
        k = order[idx]; acc = b[k]
        for j in order[idx + 1:]: acc = R.add(acc, R.mul(A[k][j], x[j]))
        x[k] = R.mul(R.star(A[k][k]), acc)
    return x

def xmv(R, A, x):
    out = []
    for row in A:
        acc = R.zero
        for a, v in zip(row, x): acc = R.add(acc, R.mul(a, v))
        out.append(acc)
    return out

# ----------------------------------------------------------------------------- torch side

def semiring(name):
    import torch
    from fggs.semirings import RealSemiring, LogSemiring, ViterbiSemiring, BoolSemiring
    if name == "real": return RealSemiring(dtype=torch.float64)
    if name == "log": return LogSemiring(dtype=torch.float64)
    if name == "viterbi": return ViterbiSemiring(dtype=torch.float64)
    return BoolSemiring()

def to_float(name, v):
    """abstract value -> the number given to the implementation"""
    if name == "bool": return bool(v)
    if name == "log":
        if v == INF: return math.inf
        if v == 0: return -math.inf
        return math.log(float(v))
    if v == INF: return math.inf
    if v == NINF: return -math.inf
    return float(v)

def tensor(name, vals, shape=None):
    """nested list (or flat list + shape) of abstract values -> torch tensor"""
    import torch
    def conv(x):
        if isinstance(x, (list, tuple)): return [conv(y) for y in x]
        return to_float(name, x)
    t = torch.tensor(conv(vals), dtype=torch.bool if name == "bool" else torch.float64)
    if shape is not None: t = t.reshape(shape)
    return t

def flat_entries(t):
    """row-major enumeration of a tensor's entries by explicit indexing (not torch.reshape)"""
    if t.ndim == 0: return [t.item()]
    return [t[idx].item() for idx in itertools.product(*[range(s) for s in t.shape])]

def snapshot(t):
    """bytes of a tensor's visible content (for the arguments-unmodified check)"""
    return (tuple(t.shape), str(t.dtype), t.detach().contiguous().numpy().tobytes())

RTOL = 1e-9
ATOL = 1e-12

def read_obs(name, x):
    """implementation float -> wire observation (tag, value, tol) for the ereal check"""
    if name == "log":
        if x != x: return (2, F(0), F(0))
        if x == math.inf: return (1, F(0), F(0))
        try: x = math.exp(x)
        except OverflowError: return (1, F(0), F(0))
    if x != x or x == -math.inf or x < 0: return (2, F(0), F(0))
    if x == math.inf: return (1, F(0), F(0))
    v = F(x)
    return (0, v, v * F(RTOL) + F(ATOL))

class BadValue(Exception):
    pass

def read_trop(x):
    if x != x: raise BadValue("nan in a Viterbi output")
    if x == math.inf: return (2, F(0))
    if x == -math.inf: return (0, F(0))
    return (1, F(x))

def wire_val(name, v):
    """abstract value -> wire"""
    if name == "bool": return bool(v)
    if name in ("real", "log"): return None if v == INF else F(v)
    if v == INF: return (2, F(0))
    if v == NINF: return (0, F(0))
    return (1, F(v))

def wire_mat(name, A): return [[wire_val(name, v) for v in r] for r in A]

def read_out(name, x):
    if name == "bool": return bool(x)
    if name == "viterbi": return read_trop(x)
    return read_obs(name, x)

def jsonable(v):
    if isinstance(v, Fraction): return str(v)
    if isinstance(v, (list, tuple)): return [jsonable(x) for x in v]
    if isinstance(v, dict): return {str(k): jsonable(x) for k, x in v.items()}
    return v

def unjson(name, v):
    if isinstance(v, list): return [unjson(name, x) for x in v]
    if name == "bool": return bool(v)
    if v in (INF, NINF): return v
    return F(v)

# ----------------------------------------------------------------------------- generators

REAL_GRID = [F(0), F(1, 4), F(1, 2), F(1), F(2), INF]
VIT_GRID = [NINF, F(-3), F(-2), F(-1), F(0), F(1), F(2), INF]

def zero_of(name): return CARRIER[name].zero

def gen_dense(rng, name, n):
    """returns (class label, A) -- classes cover spectral radius < 1, = 1, > 1, infinite
    entries, zero rows, nilpotent (triangular) systems"""
    R = CARRIER[name]
    z = R.zero
    if name == "bool":
        p = rng.choice([0.2, 0.5, 0.8])
        return "bool-p%.1f" % p, [[rng.random() < p for _ in range(n)] for _ in range(n)]
    if name in ("real", "log"):
        cls = rng.choice(["sub", "sub", "stoch", "stoch-dyadic", "super", "inf", "zero-row", "triangular", "grid", "grid"])
        if cls == "sub":        # row sums < 1: spectral radius < 1
            A = [[z] * n for _ in range(n)]
            for i in range(n):
                budget = 3
                for j in rng.sample(range(n), n):
                    c = rng.choice([0, 0, 1, 2]) if budget >= 2 else rng.choice([0, 1]) if budget >= 1 else 0
                    budget -= c; A[i][j] = F(c, 4)
        elif cls == "stoch":    # row sums = 1 with quarters: radius exactly 1
            A = [[z] * n for _ in range(n)]
            for i in range(n):
                for _ in range(4): A[i][rng.randrange(n)] += F(1, 4)
        elif cls == "stoch-dyadic":   # row sums = 1 with halves (float pivots stay exact)
            A = [[z] * n for _ in range(n)]
            for i in range(n):
                for _ in range(2): A[i][rng.randrange(n)] += F(1, 2)
        elif cls == "super":
            A = [[rng.choice([F(0), F(1, 2), F(1), F(2)]) if rng.random() < 0.6 else z for _ in range(n)] for _ in range(n)]
            A[rng.randrange(n)][rng.randrange(n)] = F(2)
        elif cls == "inf":
            A = [[rng.choice(REAL_GRID) if rng.random() < 0.5 else z for _ in range(n)] for _ in range(n)]
            A[rng.randrange(n)][rng.randrange(n)] = INF
        elif cls == "zero-row":
            A = [[rng.choice(REAL_GRID[:5]) if rng.random() < 0.6 else z for _ in range(n)] for _ in range(n)]
            A[rng.randrange(n)] = [z] * n
        elif cls == "triangular":
            A = [[rng.choice(REAL_GRID) if j > i and rng.random() < 0.8 else z for j in range(n)] for i in range(n)]
            if rng.random() < 0.5: A = [list(r) for r in zip(*A)]
        else:
            A = [[rng.choice(REAL_GRID) if rng.random() < 0.6 else z for _ in range(n)] for _ in range(n)]
        return cls, A
    # viterbi
    cls = rng.choice(["neg", "diag0", "cycle0", "pos", "inf", "zero-row", "grid", "grid"])
    neg = [NINF, F(-3), F(-2), F(-1)]
    if cls == "neg":            # all weights < 0: radius < 1
        A = [[rng.choice(neg) for _ in range(n)] for _ in range(n)]
    elif cls == "diag0":        # a diagonal entry exactly 0 (finding F2)
        A = [[rng.choice(neg) for _ in range(n)] for _ in range(n)]
        k = rng.randrange(n); A[k][k] = F(0)
    elif cls == "cycle0":       # a cycle of total weight exactly 0 (pivot 0 after elimination)
        A = [[rng.choice(neg) for _ in range(n)] for _ in range(n)]
        if n >= 2:
            i, j = rng.sample(range(n), 2); w = rng.choice([1, 2])
            A[i][j] = F(w); A[j][i] = F(-w); A[i][i] = rng.choice(neg); A[j][j] = rng.choice(neg)
        else: A[0][0] = F(0)
    elif cls == "pos":
        A = [[rng.choice(VIT_GRID[:7]) for _ in range(n)] for _ in range(n)]
        A[rng.randrange(n)][rng.randrange(n)] = F(2)
    elif cls == "inf":
        A = [[rng.choice(VIT_GRID) for _ in range(n)] for _ in range(n)]
        A[rng.randrange(n)][rng.randrange(n)] = INF
    elif cls == "zero-row":
        A = [[rng.choice(VIT_GRID[:7]) for _ in range(n)] for _ in range(n)]
        A[rng.randrange(n)] = [NINF] * n
    else:
        A = [[rng.choice(VIT_GRID) if rng.random() < 0.7 else NINF for _ in range(n)] for _ in range(n)]
    return cls, A

def gen_rhs(rng, name, n, m):
    """n x max(m,1) right-hand side"""
    if name == "bool": return [[rng.random() < 0.5 for _ in range(max(m, 1))] for _ in range(n)]
    if name in ("real", "log"):
        g = REAL_GRID if rng.random() < 0.25 else REAL_GRID[:5]
        return [[rng.choice(g) if rng.random() < 0.75 else F(0) for _ in range(max(m, 1))] for _ in range(n)]
    g = VIT_GRID if rng.random() < 0.25 else VIT_GRID[:7]
    return [[rng.choice(g) for _ in range(max(m, 1))] for _ in range(n)]

def gen_block(rng, name, p, q, style):
    """p x q block for the multi tests; style in 'small' (convergent-ish), 'grid'"""
    if name == "bool": return [[rng.random() < 0.4 for _ in range(q)] for _ in range(p)]
    if name in ("real", "log"):
        if style == "small": g = [F(0), F(0), F(0), F(1, 4)]
        elif style == "dyadic": g = [F(0), F(0), F(1, 2), F(1)]
        else: g = [F(0), F(0), F(1, 4), F(1, 2), F(1), F(2), INF]
        return [[rng.choice(g) for _ in range(q)] for _ in range(p)]
    if style == "small": g = [NINF, NINF, F(-3), F(-2), F(-1)]
    elif style == "dyadic": g = [NINF, F(-2), F(-1), F(0)]
    else: g = [NINF, NINF, F(-3), F(-2), F(-1), F(0), F(1), INF]
    return [[rng.choice(g) for _ in range(q)] for _ in range(p)]
