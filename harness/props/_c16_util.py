"""C16 helpers: wire types, the executor that runs an operation sequence against /repo and
records (result, full observation) after every step, finding predicates, generators.

Model-level values are written exactly as core.Sum wants them:
  ident  ("Explicit", s) | ("Implicit", k)          node  ("Node", (label, ident))
  elabel ("EL", (name, [nl...], is_terminal))       edge  ("Edge", (elabel, [node...], ident))
  factor ("Fac", ([dom...], tag))                   rule  ("Rule", (elabel, handle))
names are naturals: node label l <-> "L<l>", edge label n <-> "X<n>", node id s <-> "n<s>",
edge id s <-> "d<s>"; implicit ids are numbered in construction order (the model's counter).
"""
import random, itertools
from harness.core import *

M = "GraphAPI"
IdentT = Sum("ident", M, {"Explicit": Nat, "Implicit": Nat})
ElabelT = Sum("elabel", M, {"EL": Tup(Nat, List(Nat), Bool)})
NodeT = Sum("node", M, {"Node": Tup(Nat, IdentT)})
EdgeT = Sum("edge", M, {"Edge": Tup(ElabelT, List(NodeT), IdentT)})
DomT = List(Nat)
FactorT = Sum("factor", M, {"Fac": Tup(List(DomT), Nat)})
RuleT = Sum("rule", M, {"Rule": Tup(ElabelT, Nat)})
SspecT = Sum("sspec", M, {"SNone": None, "SLabel": ElabelT, "SName": Nat})
IdargT = Sum("idarg", M, {"IdNone": None, "IdStr": Nat, "IdInt": None})
NargT = Sum("narg", M, {"NVal": NodeT, "NFresh": Nat})
WupdT = Sum("wupd", M, {"WFill": Nat, "WMul": Nat})
OpT = Sum("op", M, {
    "NewGraph": None, "NewFactorGraph": None, "NewHRG": SspecT, "NewFGG": SspecT,
    "AddNode": Tup(Nat, NargT), "NewNode": Tup(Nat, Nat, IdargT), "RemoveNode": Tup(Nat, NodeT),
    "AddEdge": Tup(Nat, ElabelT, List(NargT), IdargT),
    "NewEdge": Tup(Nat, Nat, List(NargT), Bool, Bool, IdargT),
    "RemoveEdge": Tup(Nat, EdgeT), "SetExt": Tup(Nat, List(NargT)), "Copy": Nat,
    "MkRule": Tup(ElabelT, Nat), "AddRule": Tup(Nat, ElabelT, Nat), "NewRule": Tup(Nat, Nat, Nat),
    "SetStart": Tup(Nat, SspecT), "AddNodeLabel": Tup(Nat, Nat), "AddEdgeLabel": Tup(Nat, ElabelT),
    "AddDomain": Tup(Nat, Nat, DomT), "AddFactor": Tup(Nat, ElabelT, FactorT),
    "NewFiniteDomain": Tup(Nat, Nat, DomT), "NewFiniteFactor": Tup(Nat, Nat, List(Nat), Nat),
    "UpdWeights": Tup(Nat, Nat, WupdT, Nat),
    "EqOp": Tup(Nat, Nat)})
KindT = Enum("kind", M, ["ValueErr", "KeyErr", "TypeErr", "OtherExc"])
ResultT = Sum("result", M, {"ROk": None, "RBool": Bool, "RErr": KindT})
_LabViews = Tup(List(Nat), List(ElabelT), List(ElabelT), List(ElabelT))
_Interp = Tup(List(Tup(Nat, DomT)), List(Tup(Nat, FactorT)))
ObsT = Sum("oobs", M, {
    "ObsG": Tup(Tup(Nat, List(NodeT), List(EdgeT), List(NodeT), List(Nat)), _LabViews, _Interp),
    "ObsH": Tup(Tup(Nat, List(RuleT), List(Tup(ElabelT, List(RuleT))), ElabelT), _LabViews, _Interp)})
CaseT = Tup(List(OpT), List(Tup(ResultT, List(ObsT))))

# ----------------------------------------------------------------------------- values
def EX(s): return ("Explicit", s)
def IM(k): return ("Implicit", k)
def node(l, i): return ("Node", (l, i))
def elabel(name, ty, term): return ("EL", (name, list(ty), bool(term)))
def edge(el, ns, i): return ("Edge", (el, list(ns), i))
def n_id(n): return n[1][1]
def n_label(n): return n[1][0]
def el_name(l): return l[1][0]
def el_ty(l): return l[1][1]
def el_term(l): return l[1][2]
def e_label(e): return e[1][0]
def e_nodes(e): return e[1][1]
def e_id(e): return e[1][2]

def tolist(x):
    """tuples/lists -> nested lists (for JSON corpus round trips)"""
    if isinstance(x, (list, tuple)): return [tolist(y) for y in x]
    return x

def fromjson(x):
    """JSON nested lists -> the tuple/list shape core.Sum expects: a list whose first element
    is a str is a constructor application"""
    if isinstance(x, list):
        if x and isinstance(x[0], str):
            if len(x) == 1: return (x[0],)
            return (x[0], _payload(x[1]))
        return [fromjson(y) for y in x]
    return x

def _payload(p):
    # payload of a constructor: either a single value or a tuple of values; a tuple is
    # recognised as a JSON list that is not itself a constructor application and whose
    # enclosing constructor takes several arguments -- we keep JSON lists as Python lists,
    # Tup.coq / Tup.sexp only need len() and indexing, so lists work for tuples as well.
    return fromjson(p)

# ----------------------------------------------------------------------------- executor
class Exec:
    """Runs operations against the implementation.  Keeps every Python object alive so that
    id()-based implicit ids are never re-used."""
    def __init__(self):
        import fggs
        self.F = fggs
        self.objs = []          # handle -> object
        self.handle = {}        # id(obj) -> handle
        self.ctr = 0
        self.canon = {}         # python int id -> canonical number
        self.impl_node = {}     # canonical number -> Node object
        self.impl_edge = {}     # canonical number -> Edge object
        self.keep = []

    # --- model value -> python object
    def NL(self, l): return self.F.NodeLabel("L%d" % l)
    def ELab(self, l):
        name, ty, term = l[1]
        return self.F.EdgeLabel("X%d" % name, tuple(self.NL(x) for x in ty), is_terminal=term, is_nonterminal=not term)
    def py_node(self, n):
        l, i = n[1]
        if i[0] == "Explicit":
            x = self.F.Node(self.NL(l), id="n%d" % i[1])
        else:
            x = self.impl_node[i[1]]
            if x.label != self.NL(l):
                raise RuntimeError("harness: implicit node %d referenced with another label" % i[1])
        self.keep.append(x)
        return x
    def resolve(self, nargs):
        out = []
        for a in nargs:
            if a[0] == "NVal":
                out.append(self.py_node(a[1]))
            else:
                x = self.F.Node(self.NL(a[1]))
                self.keep.append(x)
                self.canon[x.id] = self.ctr; self.impl_node[self.ctr] = x; self.ctr += 1
                out.append(x)
        return out
    def idarg(self, i, prefix):
        """returns (python id argument, canonical number reserved or None)"""
        if i[0] == "IdNone":
            k = self.ctr; self.ctr += 1
            return None, k
        if i[0] == "IdStr": return "%s%d" % (prefix, i[1]), None
        return 5, None
    def dom(self, d):
        from fggs.domains import FiniteDomain
        return FiniteDomain(list(d))
    def fac(self, f):
        import torch
        from fggs.factors import FiniteFactor
        ds, tag = f[1]
        return FiniteFactor([self.dom(d) for d in ds], torch.full(tuple(len(d) for d in ds), float(tag)))
    def register(self, o):
        self.handle[id(o)] = len(self.objs); self.objs.append(o)

    # --- python object -> model value
    def m_ident(self, i, prefix):
        if isinstance(i, str):
            assert i[0] == prefix, i
            return EX(int(i[1:]))
        if i not in self.canon:       # an object the harness did not build: give it a number outside the model's range
            self.canon[i] = 4000 + len(self.canon)
        return IM(self.canon[i])
    def m_nl(self, l): return int(l.name[1:])
    def m_el(self, l): return elabel(int(l.name[1:]), [self.m_nl(x) for x in l.type], l.is_terminal)
    def m_node(self, n): return node(self.m_nl(n.label), self.m_ident(n.id, "n"))
    def m_edge(self, e): return edge(self.m_el(e.label), [self.m_node(n) for n in e.nodes], self.m_ident(e.id, "d"))
    def m_fac(self, f):
        w = f.weights.to_dense().flatten().tolist()
        tag = int(w[0]) if w else 0
        if any(x != w[0] for x in w): tag = 999
        return ("Fac", ([list(d.values) for d in f.domains], tag))
    def m_rule(self, r):
        return ("Rule", (self.m_el(r.lhs), self.handle.get(id(r.rhs), 3999)))
    def labviews(self, o):
        return ([self.m_nl(l) for l in o.node_labels()], [self.m_el(l) for l in o.edge_labels()],
                [self.m_el(l) for l in o.nonterminals()], [self.m_el(l) for l in o.terminals()])
    def interp(self, o):
        if not hasattr(o, "domains"): return ([], [])
        return ([(int(k[1:]), list(d.values)) for k, d in o.domains.items()],
                [(int(k[1:]), self.m_fac(f)) for k, f in o.factors.items()])
    def observe_obj(self, o):
        F = self.F
        if isinstance(o, F.Graph):
            a = (1 if isinstance(o, F.FactorGraph) else 0, [self.m_node(n) for n in o.nodes()],
                 [self.m_edge(e) for e in o.edges()], [self.m_node(n) for n in o.ext],
                 [self.m_nl(l) for l in o.type])
            return ("ObsG", (a, self.labviews(o), self.interp(o)))
        rules = o.all_rules()
        keys = []
        for r in rules:
            if r.lhs not in keys: keys.append(r.lhs)
        groups = [(self.m_el(k), [self.m_rule(r) for r in o.rules(k)]) for k in keys]
        a = (3 if isinstance(o, F.FGG) else 2, [self.m_rule(r) for r in rules], groups, self.m_el(o.start))
        return ("ObsH", (a, self.labviews(o), self.interp(o)))
    def observe(self):
        return [self.observe_obj(o) for o in self.objs]

    # --- one operation
    def step(self, op):
        try:
            r = self._do(op)
            return ("RBool", bool(r)) if isinstance(r, bool) else ("ROk",)
        except ValueError: return ("RErr", "ValueErr")
        except KeyError: return ("RErr", "KeyErr")
        except TypeError: return ("RErr", "TypeErr")
        except RuntimeError: raise
        except Exception: return ("RErr", "OtherExc")

    def _do(self, op):
        F = self.F
        name = op[0]; a = op[1] if len(op) > 1 else None
        if name == "NewGraph": self.register(F.Graph()); return
        if name == "NewFactorGraph": self.register(F.FactorGraph()); return
        if name in ("NewHRG", "NewFGG"):
            cls = F.HRG if name == "NewHRG" else F.FGG
            self.register(cls(self.sspec(a))); return
        if name == "AddNode":
            h, na = a; (n,) = self.resolve([na]); self.objs[h].add_node(n); return
        if name == "NewNode":
            h, l, i = a; pid, k = self.idarg(i, "n")
            n = self.objs[h].new_node("L%d" % l, id=pid)
            if k is not None: self.canon[n.id] = k; self.impl_node[k] = n
            self.keep.append(n); return
        if name == "RemoveNode":
            h, n = a; self.objs[h].remove_node(self.py_node(n)); return
        if name == "AddEdge":
            h, l, nas, i = a
            ns = self.resolve(nas); pid, k = self.idarg(i, "d")
            e = F.Edge(self.ELab(l), ns, id=pid)
            self.keep.append(e)
            if k is not None: self.canon[e.id] = k; self.impl_edge[k] = e
            self.objs[h].add_edge(e); return
        if name == "NewEdge":
            h, nm, nas, t, nt, i = a
            ns = self.resolve(nas); pid, k = self.idarg(i, "d")
            e = self.objs[h].new_edge("X%d" % nm, ns, is_terminal=t, is_nonterminal=nt, id=pid)
            self.keep.append(e)
            if k is not None: self.canon[e.id] = k; self.impl_edge[k] = e
            return
        if name == "RemoveEdge":
            h, e = a
            i = e_id(e)
            if i[0] == "Implicit": pe = self.impl_edge[i[1]]
            else: pe = F.Edge(self.ELab(e_label(e)), [self.py_node(n) for n in e_nodes(e)], id="d%d" % i[1])
            self.keep.append(pe)
            self.objs[h].remove_edge(pe); return
        if name == "SetExt":
            h, nas = a; ns = self.resolve(nas)
            if not isinstance(self.objs[h], F.Graph): raise RuntimeError("harness: ext= on a non-graph")
            self.objs[h].ext = tuple(ns); return
        if name == "Copy":
            c = self.objs[a].copy()
            self.register(c)
            if isinstance(c, F.HRG):
                for r in c.all_rules(): self.register(r.rhs)
            return
        if name == "MkRule":
            l, g = a; self.keep.append(F.HRGRule(self.ELab(l), self.objs[g])); return
        if name == "AddRule":
            h, l, g = a; r = F.HRGRule(self.ELab(l), self.objs[g]); self.objs[h].add_rule(r); return
        if name == "NewRule":
            h, nm, g = a
            if not isinstance(self.objs[g], F.Graph): raise AttributeError("not a graph")
            self.objs[h].new_rule("X%d" % nm, self.objs[g]); return
        if name == "SetStart":
            h, sp = a
            if not isinstance(self.objs[h], F.HRG): raise RuntimeError("harness: start= on a non-grammar")
            self.objs[h].start = self.sspec(sp); return
        if name == "AddNodeLabel":
            h, l = a; self.objs[h].add_node_label(self.NL(l)); return
        if name == "AddEdgeLabel":
            h, l = a; self.objs[h].add_edge_label(self.ELab(l)); return
        if name == "AddDomain":
            h, l, d = a; dd = self.dom(d); self.objs[h].add_domain(self.NL(l), dd); return
        if name == "AddFactor":
            h, l, f = a; ff = self.fac(f); self.objs[h].add_factor(self.ELab(l), ff); return
        if name == "NewFiniteDomain":
            h, l, d = a; self.objs[h].new_finite_domain("L%d" % l, list(d)); return
        if name == "NewFiniteFactor":
            import torch
            h, nm, shape, tag = a
            self.objs[h].new_finite_factor("X%d" % nm, torch.full(tuple(shape), float(tag))); return
        if name == "UpdWeights":
            h, nm, u, via = a
            fac = self.objs[h].factors["X%d" % nm]
            self.upd_weights(fac, u, via); return
        if name == "EqOp":
            h1, h2 = a; return bool(self.objs[h1] == self.objs[h2])
        raise RuntimeError("harness: unknown op %r" % (op,))

    N_FILL, N_MUL = 5, 4
    def upd_weights(self, fac, u, via):
        """the Python routes of one in-place update of fac.weights (model: every entry := v /
        every entry *= c); via selects the route, all routes mean the same"""
        import torch
        from fggs.indices import PatternedTensor
        shape = tuple(d.size() for d in fac.domains)
        x = float(u[1])
        if u[0] == "WFill":
            k = via % self.N_FILL
            if k == 0: fac.weights.physical.fill_(x)
            elif k == 1: fac.weights.copy_(PatternedTensor(torch.full(shape, x)))
            elif k == 2: fac.weights.physical[...] = x
            elif k == 3: fac.weights = torch.full(shape, x)                 # the setter: a new tensor
            else:
                w = fac.weights; w *= 0.; w.physical.add_(x)
        else:
            k = via % self.N_MUL
            if k == 0: fac.weights *= x                                     # __imul__ + setter
            elif k == 1: fac.weights.physical.mul_(x)
            elif k == 2: fac.weights *= PatternedTensor(torch.full(shape, x))   # tensor operand: copy_ route
            else:
                w = fac.weights
                if u[1] in (1, 2, 4): w /= (1. / x)                         # __itruediv__, exact
                else: w *= x

    def sspec(self, sp):
        if sp[0] == "SNone": return None
        if sp[0] == "SLabel": return self.ELab(sp[1])
        return "X%d" % sp[1]

def run_sequence(ops):
    """-> (trace, executor); trace = [(result, [obs of every live object])]"""
    ex = Exec()
    tr = []
    for op in ops:
        r = ex.step(op)
        tr.append((r, ex.observe()))
    return tr, ex

# ----------------------------------------------------------------------------- finding predicate
# The one remaining known class.  The predicate is computed from the failing step alone: the
# operation, its result and the observation of the live objects just before it (all passed
# through tolist()).  Everything else the oracles reject is a VIOLATION.

def p_rule_rhs_alias_mutation(op, res, pre):
    """add_edge / new_edge / ext= on a graph object that some live grammar uses as a rule's rhs"""
    if op[0] not in ("AddEdge", "NewEdge", "SetExt") or res != ["ROk"]: return False
    h = op[1][0]
    return any(o[0] == "ObsH" and any(r[1][1] == h for r in o[1][0][1]) for o in pre)

# code -> (finding key, python predicate)
KNOWN = {
    4: ("c16_rule_rhs_alias_mutation", p_rule_rhs_alias_mutation),
}
CODE_TEXT = {
    1: "after this call the object is not well formed (verified oracle wf_b rejects the implementation's state) although every call so far satisfies guard_wf",
    4: "well-formedness lost",
    5: "a call that raised changed what the objects show (verified atomicity oracle, C16_failure_atomic)",
    9: "an object other than the call's target changed, or a copy does not show what its original shows (frame / copy oracle, C16_frame / C16_copy_observe)",
    10: "result / exception kind differs from the model's",
    11: "observable state differs from the model's",
    15: "malformed case",
}
