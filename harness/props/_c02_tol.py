"""C02 tolerance-ladder stream: 'with an error that vanishes as tol does'.

Slowly converging float64 grammars  X -> X X c | a X | b  (nullary; x = c x^2 + a x + b), three families:
  lin   c = 0, contraction a in {63/64, 127/128} (thorough: up to 1023/1024), values 2^-10 .. 2^16     (fixed-point; Real judged by
        tol_check = C11_fixed_point_stop_bound, Log by mag_check)
  near  near-critical quadratic, F'(x*) = 1 - 2^-6, 1 - 2^-7 (thorough: 1 - 2^-8), x* = 2^j               (fixed-point and newton; mag_check =
        C11_fixed_point_stop_bound_quadratic / C11_newton_stop_bound with a Coq-checked certificate)
  crit  CRITICAL quadratic (1-a)^2 = 4 c b, F'(x*) = 1 (e.g. S -> 1/2 S S | 1/2)      (fixed-point and newton; crit_check:
        residual = c (x* - x)^2, Proofs/Critical_proofs.v)
Each (grammar, semiring in {Real, Log} with dtype=torch.double, method) is run at a LADDER of tolerances
1e-4 .. 1e-12 (rungs that would need more than MAX_PASSES passes (thorough: 40000), or lie below 1e-12 x the value's magnitude, are
dropped); each returned value is judged in Coq against the proved stop bound FOR THAT tol, no warning may be issued
(kmax = 4 x the proved pass count + 100), and the values may not decrease along the ladder (ladder_check).
"""
import math, warnings
from fractions import Fraction
from harness.core import *
from harness.props import _c11_mag

TOL = CheckFn("c11-tol", "Model.Tolerance", "tol_check", Tup(QQ, QQ, QQ, QQ, QQ))
MAG = _c11_mag.MAG
CRIT = CheckFn("c02-crit", "Model.Critical", "crit_check", Tup(Tup(QQ, QQ, QQ), QQ, QQ, QQ))
LADDER = CheckFn("c02-ladder", "Model.Critical", "ladder_check", Tup(QQ, List(Tup(QQ, QQ))))
CHECKFNS = [TOL, MAG, CRIT, LADDER]
RUNGS = [1e-4, 1e-6, 1e-8, 1e-10, 1e-12]
MAX_PASSES = 2500
F = Fraction

def families(rng, n, quick=True):
    """-> list of dict(fam, a, b, c, xs (exact least solution), L)"""
    out = []
    for i in range(n):
        fam = ["lin", "crit", "near", "crit", "lin", "near"][i % 6]
        if fam == "lin":
            a = 1 - F(1, rng.choice([64, 64, 128] if quick else [64, 256, 1024])); b = F(2) ** rng.choice([-10, -4, 0, 3, 6]); c = F(0)
            xs = b / (1 - a); L = a
        elif fam == "near":
            m = F(2) ** rng.choice([-6, -1, 0, 2, 7]); L = 1 - F(1, rng.choice([64, 64, 128] if quick else [64, 256]))
            La = rng.choice([F(0), F(1, 4), F(1, 2)]); Lc = L - La
            a = La; c = Lc / (2 * m); b = m * (1 - La - Lc / 2); xs = m
        else:
            a = rng.choice([F(0), F(0), F(1, 2), F(1, 4)]); c = F(2) ** rng.choice([-5, -3, -1, -1, 1, 4])
            b = (1 - a) ** 2 / (4 * c); xs = (1 - a) / (2 * c); L = F(1)
        out.append(dict(fam=fam, a=a, b=b, c=c, xs=xs, L=L))
    return out

def build(fggs, torch, P, log):
    g = fggs.FGG("X")
    def rule(labs):
        rhs = fggs.Graph()
        for lab, term in labs: rhs.new_edge(lab, [], is_terminal=term, is_nonterminal=not term)
        g.new_rule("X", rhs)
    ws = {}
    if P["c"] != 0: rule([("X", False), ("X", False), ("c", True)]); ws["c"] = P["c"]
    if P["a"] != 0: rule([("X", False), ("a", True)]); ws["a"] = P["a"]
    rule([("b", True)]); ws["b"] = P["b"]
    for lab, w in ws.items():
        t = torch.tensor(float(w), dtype=torch.float64)
        g.new_finite_factor(lab, t.log() if log else t)
    return g

def passes(P, method, tol_abs):
    """upper estimate of the number of passes until the stop test F(x) - x <= tol_abs holds (exact arithmetic)"""
    xs = float(P["xs"])
    if method == "newton":
        return 8 + int(math.log2(max(2.0, xs / tol_abs))) if P["c"] != 0 else 3
    if P["fam"] == "crit":
        return 4 + int(2.0 / math.sqrt(float(P["c"]) * tol_abs))           # error after k passes <= 1/(c k), residual c e^2
    return 4 + int(math.log(max(2.0, xs / tol_abs)) / float(1 - P["L"]))    # residual after k passes <= L^k xs

def cases(rng, n, violations, quick=True):
    """-> dict(kind -> (CheckFn, values, metas)), histogram"""
    import fggs, torch
    groups = {cf.kind: (cf, [], []) for cf in CHECKFNS}
    hist = dict(families={}, methods={}, semirings={}, rungs={}, ladders=0, runs=0, passes_budget=0)
    for gi, P in enumerate(families(rng, n, quick)):
        xs = P["xs"]; xf = float(xs)
        for log in (False, True):
            for method in (("fixed-point",) if P["fam"] == "lin" else ("fixed-point", "newton")):
                ladder = []
                for tol in RUNGS:
                    tol_abs = math.expm1(tol) * xf if log else tol
                    if not log and tol < 1e-12 * xf: continue                     # below the rounding of the values
                    est = passes(P, method, tol_abs)
                    if est > (MAX_PASSES if quick else 40000): continue
                    kmax = 4 * est + 100
                    sr = (fggs.LogSemiring if log else fggs.RealSemiring)(dtype=torch.float64)
                    case = dict(stream="tol-ladder", family=P["fam"], a=str(P["a"]), b=str(P["b"]), c=str(P["c"]), least_solution=xf,
                                semiring="log" if log else "real", dtype="float64", method=method, tol=tol, kmax=kmax)
                    call = "fggs.sum_product(fgg, method=%r, semiring=%s(dtype=torch.double), tol=%g, kmax=%d)" % (
                        method, "LogSemiring" if log else "RealSemiring", tol, kmax)
                    try:
                        with warnings.catch_warnings(record=True) as wl:
                            warnings.simplefilter("always")
                            z = fggs.sum_product(build(fggs, torch, P, log), method=method, semiring=sr, tol=tol, kmax=kmax)
                        z = z.to_dense() if hasattr(z, "to_dense") else z
                        v = float(z.exp() if log else z)
                    except Exception as ex:
                        violations.append(Violation("sum_product raised %r" % (ex,), case=case, call=call, corr="corr:tol-ladder")); continue
                    hist["runs"] += 1; hist["passes_budget"] += est
                    for k, key in (("families", P["fam"]), ("methods", method), ("semirings", case["semiring"]), ("rungs", "%g" % tol)):
                        hist[k][key] = hist[k].get(key, 0) + 1
                    if any("maximum iteration" in str(w.message) for w in wl):
                        violations.append(Violation("warning 'maximum iteration exceeded' although the stopping test must hold within %d passes (kmax = %d)" % (est, kmax),
                                                    case=case, call=call, observed=v, corr="C02 / corr:tol-ladder (C11_vector_fixed_point_run)", oracle="pass bound",
                                                    failing_input_found=True))
                        continue
                    if not math.isfinite(v): v = -1.0
                    obs = F(v); meta = (dict(case, observed=v), call)
                    # Log: |log F(x) - log x| <= tol  =>  F(x) - x <= (e^tol - 1) x <= (e^tol - 1) x*
                    tq = F(math.expm1(tol) * (1 + 1e-9)) * xs if log else F(tol)
                    r0 = F(20 if log else 1, 10 ** 12)
                    if P["fam"] == "crit":
                        groups[CRIT.kind][1].append(((P["a"], P["b"], P["c"]), tq * F(101, 100) + xs * r0 / 10, xs * r0, obs))
                        groups[CRIT.kind][2].append(meta)
                    elif P["fam"] == "lin" and not log:
                        groups[TOL.kind][1].append((P["a"], P["b"], tq, xs * r0, obs)); groups[TOL.kind][2].append(meta)
                    else:
                        # exact weights are dyadic; in the Log semiring they are rounded logs: allowance in eps
                        lo, hi = _c11_mag.enclosure(P["a"], P["b"], P["c"])
                        eps = F((20e-11 if log else 1e-11) / float(1 - P["L"]))
                        groups[MAG.kind][1].append(((_c11_mag.KIND[method], False), (tq, eps, eps),
                                                    [((P["a"], P["b"], P["c"]), (lo, hi), (F(1), F(1)), (obs, F(0), F(0)))], obs))
                        groups[MAG.kind][2].append(meta)
                    ladder.append((F(tol), obs, tol, v))
                if len(ladder) >= 2:
                    hist["ladders"] += 1
                    dl = xs * F(100 if log else 10, 10 ** 12) / (1 if P["fam"] == "crit" else (1 - P["L"]))
                    groups[LADDER.kind][1].append((dl, [(t, o) for t, o, _, _ in ladder]))
                    groups[LADDER.kind][2].append((dict(stream="tol-ladder", family=P["fam"], a=str(P["a"]), b=str(P["b"]), c=str(P["c"]), least_solution=xf,
                                                        semiring="log" if log else "real", dtype="float64", method=method,
                                                        ladder=[dict(tol=t, value=v, error=xf - v) for _, _, t, v in ladder]),
                                                   "fggs.sum_product(fgg, method=%r, tol=t) for t in %r" % (method, [t for _, _, t, _ in ladder])))
    return groups, hist

WHAT = {
    "c11-tol": {1: "fixed-point result is further than tol/(1-a) below the least fixed point of x = a x + b: the requested tol was not honoured"},
    "c11-magnitude": {1: "returned value is further below the least solution than the proved stop bound for this tol (fixed-point tol/(1-L), newton tol L/(1-L))",
                      2: "returned value is further below the least solution than the proved stop bound for this tol (fixed-point tol/(1-L), newton tol L/(1-L))",
                      20: "harness error: certificate rejected", 21: "harness error: bad tolerances"},
    "c02-crit": {1: "critical grammar: the returned value x violates c (x* - x)^2 <= tol, i.e. the stopping test F(x) - x <= tol cannot have held at it: the error does not vanish as tol does",
                 31: "harness error: outside the guard of crit_check"},
    "c02-ladder": {2: "a run with a SMALLER tol returned a value further from the least fixed point than a run with a larger tol", 31: "harness error: ladder not sorted"},
}
ORACLE = {"c11-tol": "tol_check (C11_fixed_point_stop_bound, C11_tol_check_rejects)",
          "c11-magnitude": "mag_check (C11_certificate_encloses_least_solution, C11_fixed_point_stop_bound_quadratic, C11_newton_stop_bound)",
          "c02-crit": "crit_check (C02_critical_stop_bound, C02_crit_check_sound, C02_crit_check_rejects)",
          "c02-ladder": "ladder_check (C02_ladder_step_monotone, C02_ladder_check_rejects)"}

def stream(tier, seed, violations):
    import random
    rng = random.Random(seed * 977 + 5)
    n = int(os.environ.get("VERIF_N_TOL", 0)) or (9 if tier == "quick" else 60)
    groups, hist = cases(rng, n, violations, quick=(tier == 'quick'))
    total = 0; nk = 0
    for kind, (cf, vals, metas) in groups.items():
        if not vals: continue
        codes, a = run_model(cf, vals, seed=seed, coq_sample=3 if tier == "quick" else 20, tag="c02" + kind.replace("-", ""))
        nk += a; total += len(vals)
        for (case, call), c in zip(metas, codes):
            if c == 0: continue
            violations.append(Violation(WHAT[kind].get(c, "verdict %d of %s" % (c, kind)), case=case, observed=case.get("observed", case.get("ladder")),
                                        expected=dict(least_solution=case["least_solution"]), oracle=ORACLE[kind], call=call,
                                        corr="C02 / corr:tol-ladder", failing_input_found=c in (1, 2)))
    return dict(evaluations=total, kernel_reevaluated=nk, distinct_nontrivial=hist["ladders"], histogram=hist,
                sample=(groups[CRIT.kind][2][0][0] if groups[CRIT.kind][2] else None))
