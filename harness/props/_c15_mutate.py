"""mutation self-test driver for C15 (developer tool, not part of the check): mutates a COPY of /repo in
/tmp/repo-C15 (never /repo itself; create it first with `cp -r /repo /tmp/repo-C15`), runs
`FGGS_REPO=/tmp/repo-C15 C15_TREES=70 bin/check C15 quick` per mutant.  Usage: /venv/bin/python harness/props/_c15_mutate.py [M1 M2 ...]"""
import os, sys, subprocess, shutil, json, glob, collections
VERIF = os.path.dirname(os.path.dirname(os.path.dirname(os.path.abspath(__file__))))
COPY = "/tmp/repo-C15"
SRC = "/repo/fggs/derivations.py"
DST = COPY + "/fggs/derivations.py"
MUTANTS = [
 ("M0 unmodified copy", None, None),
 ("M1 type check dropped", "    if edge.label.type != replacement.type:", "    if False:"),
 ("M2 externals zipped in reverse order", "zip(edge.nodes, replacement.ext)", "zip(reversed(edge.nodes), replacement.ext)"),
 ("M3 edge not removed", "    graph.remove_edge(edge)\n", "    pass\n"),
 ("M4 internal nodes not copied (shared with the rule)", "            gnode = Node(rnode.label)\n", "            gnode = rnode\n"),
 ("M5 attachment order of copied edges reversed", "gnodes = tuple(node_map[rnode] for rnode in redge.nodes)", "gnodes = tuple(node_map[rnode] for rnode in reversed(redge.nodes))"),
 ("M6 derive assigns only non-external nodes", "            for node in deriv.rule.rhs.nodes():\n", "            for node in [n for n in deriv.rule.rhs.nodes() if n not in deriv.rule.rhs.ext]:\n"),
 ("M7 fresh node gets the label of the first rhs node", "gnode = Node(rnode.label)", "gnode = Node(list(replacement.nodes())[0].label)"),
 ("M8 copies cached across calls (not fresh on rule reuse)", "            gnode = Node(rnode.label)\n", "            gnode = _CACHE.setdefault(rnode, Node(rnode.label))\n"),
 ("M9 last replacement edge not copied", "    for redge in replacement.edges():", "    for redge in list(replacement.edges())[:-1] if len(replacement.edges()) > 2 else replacement.edges():"),
 ("M10 derive visits children before assigning, parent overwrites", None, "SPECIAL10"),
 ("M11 remove_edge before type check", None, "SPECIAL11"),
 ("M12 repeated external keeps the FIRST attachment", "        node_map[rnode] = gnode\n    for rnode", "        node_map.setdefault(rnode, gnode)\n    for rnode"),
 ("M13 nodes copied in reverse dict order (harmless)", "    for rnode in replacement.nodes():", "    for rnode in reversed(list(replacement.nodes())):"),
 ("M14 start_graph labels the edge with the last nonterminal", "    s = g.start\n", "    s = list(g.nonterminals())[-1]\n"),
 ("M15 start_graph reuses one node for equal labels", "    e = Edge(s, [Node(l) for l in s.type])\n    ret.add_edge(e)", "    _c = {}\n    e = Edge(s, [_c.setdefault(l, Node(l)) for l in s.type])\n    ret.add_edge(e)"),
 ("M16 edge copies keep explicit ids", "        gedge = Edge(redge.label, gnodes)\n", "        gedge = Edge(redge.label, gnodes, id=redge.id if isinstance(redge.id, str) else None)\n"),
]
def apply(m):
    s = open(SRC).read()
    name, old, new = m
    if new == "SPECIAL10":
        old = ("            for node in deriv.rule.rhs.nodes():\n                asst[node_map[node]] = deriv.asst[node]\n"
               "            for child in deriv.children:\n                visit(deriv.children[child], edge_map[child])\n")
        new = ("            for child in deriv.children:\n                visit(deriv.children[child], edge_map[child])\n"
               "            for node in deriv.rule.rhs.nodes():\n                asst[node_map[node]] = 0 if node in deriv.rule.rhs.ext and deriv.children else deriv.asst[node]\n")
    if new == "SPECIAL11":
        old = ("    if edge.label.type != replacement.type:\n        raise ValueError('An edge can only be replaced with a graph having the same type')\n    graph.remove_edge(edge)\n")
        new = ("    graph.remove_edge(edge)\n    if edge.label.type != replacement.type:\n        raise ValueError('An edge can only be replaced with a graph having the same type')\n")
    if old is not None:
        assert s.count(old) == 1, (name, s.count(old))
        s = s.replace(old, new)
        if "_CACHE" in new: s = s.replace("def replace_edge(", "_CACHE = {}\ndef replace_edge(")
    open(DST, "w").write(s)
only = sys.argv[1:]
for m in MUTANTS:
    if only and m[0].split()[0] not in only: continue
    apply(m)
    for f in glob.glob(os.path.join(VERIF, "replays", "C15-*.json")): os.remove(f)
    env = dict(os.environ, FGGS_REPO=COPY, C15_TREES="70")
    p = subprocess.run([os.path.join(VERIF, "bin", "check"), "C15", "quick"], env=env, stdout=subprocess.PIPE, stderr=subprocess.STDOUT, text=True)
    lines = [l for l in p.stdout.splitlines() if l.startswith(("VIOLATION", "KNOWN", "C15 quick"))]
    whats = collections.Counter()
    for f in glob.glob(os.path.join(VERIF, "replays", "C15-*.json")):
        whats[json.load(open(f))["what"][:110]] += 1
    nviol = sum(1 for l in lines if l.startswith("VIOLATION"))
    print("%-60s exit=%d VIOLATION lines=%d  %s" % (m[0], p.returncode, nviol, lines[-1] if lines else p.stdout[-300:]))
    for w, n in whats.items(): print("      -", w)
    sys.stdout.flush()
shutil.copy(SRC, DST)
