"""C10 -- tree decompositions are valid; exact methods are optimal (fggs/factorize.py)."""
import itertools, random, os, json
from harness.core import *

PID = "C10"
LEVEL = "proof"
GraphT = List(Tup(Nat, List(Nat)))
TdT = Tup(List(List(Nat)), List(Tup(Nat, Nat)))
TD = CheckFn("c10td", "Model.TreeDec", "td_check", Tup(GraphT, Nat, Nat, Option(Nat), Option(TdT)))
TDX = CheckFn("c10tdx", "Model.TreeDec", "td_exact", Tup(GraphT, Nat, TdT))
ORD = CheckFn("c10ord", "Model.TreeDec", "order_check", Tup(GraphT, Nat, Nat, Option(Nat), Tup(Nat, List(Nat))))
ORDX = CheckFn("c10ordx", "Model.TreeDec", "order_exact", Tup(GraphT, Nat, List(Nat)))
MMW = CheckFn("c10mmw", "Model.TreeDec", "mmw_check", Tup(GraphT, Nat, Option(Nat), Nat))
CHECKFNS = [TD, TDX, ORD, ORDX, MMW]
ASSUMPTIONS = [
    "treewidth = tw_perm (least elimination width over all vertex permutations, the definition in quickbb's docstring); proved equal to the least width of a valid tree decomposition (C10_tw_perm_is_treewidth); the check functions decide comparisons with tw_perm by a pruned search proved equivalent (C10_tw_oracle_spec)",
    "dict keys are canonicalised to naturals 0..n-1 in the order the harness inserts them; Python sets of ints < 8 iterate in ascending order (CPython), which the model uses wherever the code iterates a set; with other key types / >= 9 vertices only the verified oracles and the (valid?, width) observation decide",
    "acb is proved total and optimal for every simple undirected graph at the model level (C10_acb_returns, C10_acb_optimal: no assertion can fail, the width is the treewidth; completeness of the ACP dynamic programme C10_acb_connected_complete); independently every implementation output is judged by td_ok and compared with the treewidth oracle (<= %d vertices) and with the model on every run" % 9,
    "benchmark graphs (12..25 vertices): the treewidths listed in /repo/test/test_factorize.py (freetdi/named-graphs) are trusted as external reference values",
]
METHODS = ["min_fill", "quickbb", "acb"]
TW_MAX = 9          # the treewidth oracle (pruned search tw_below, proved = tw_perm) is run up to this many vertices

# random cubic graphs (found once by search, kept as data) on which min_fill is NOT optimal in the
# recorded dict insertion order, so that quickbb's branch and bound has to find a better order:
# (n, edges, insertion order); the trailing comments give the widths found by the implementation
HARD_CUBIC = [
    (14, [(0, 4), (0, 6), (0, 11), (1, 4), (1, 8), (1, 13), (2, 5), (2, 6), (2, 10), (3, 8), (3, 9), (3, 10), (4, 12), (5, 7), (5, 13), (6, 12), (7, 9), (7, 12), (8, 13), (9, 11), (10, 11)], [2, 0, 8, 1, 4, 9, 5, 12, 6, 11, 3, 7, 13, 10]),   # min_fill 5, quickbb 4
    (14, [(0, 2), (0, 10), (0, 12), (1, 2), (1, 6), (1, 7), (2, 3), (3, 8), (3, 11), (4, 8), (4, 10), (4, 11), (5, 6), (5, 10), (5, 13), (6, 7), (7, 9), (8, 13), (9, 11), (9, 12), (12, 13)], [5, 13, 8, 10, 1, 12, 3, 6, 2, 11, 9, 7, 4, 0]),   # min_fill 5, quickbb 4
    (14, [(0, 5), (0, 7), (0, 11), (1, 2), (1, 8), (1, 12), (2, 3), (2, 5), (3, 6), (3, 7), (4, 6), (4, 10), (4, 13), (5, 9), (6, 10), (7, 12), (8, 11), (8, 13), (9, 10), (9, 11), (12, 13)], [13, 3, 8, 0, 7, 5, 6, 9, 10, 4, 1, 2, 12, 11]),   # min_fill 5, quickbb 4
    (14, [(0, 6), (0, 7), (0, 12), (1, 2), (1, 6), (1, 13), (2, 7), (2, 11), (3, 6), (3, 8), (3, 10), (4, 7), (4, 9), (4, 10), (5, 8), (5, 9), (5, 13), (8, 9), (10, 11), (11, 12), (12, 13)], [12, 6, 4, 10, 3, 13, 5, 1, 2, 0, 11, 8, 7, 9]),   # min_fill 5, quickbb 4
    (14, [(0, 1), (0, 9), (0, 12), (1, 5), (1, 8), (2, 3), (2, 4), (2, 9), (3, 10), (3, 13), (4, 5), (4, 7), (5, 12), (6, 7), (6, 11), (6, 12), (7, 8), (8, 10), (9, 13), (10, 11), (11, 13)], [6, 4, 5, 10, 12, 1, 0, 11, 2, 3, 13, 9, 7, 8]),   # min_fill 5, quickbb 4
    (12, [(0, 2), (0, 4), (0, 6), (1, 3), (1, 7), (1, 9), (2, 7), (2, 11), (3, 4), (3, 10), (4, 5), (5, 7), (5, 8), (6, 8), (6, 10), (8, 11), (9, 10), (9, 11)], [7, 3, 0, 1, 8, 4, 6, 10, 5, 2, 9, 11]),   # min_fill 5, quickbb 4
    (12, [(0, 4), (0, 6), (0, 9), (1, 5), (1, 8), (1, 11), (2, 5), (2, 6), (2, 7), (3, 7), (3, 10), (3, 11), (4, 5), (4, 10), (6, 11), (7, 8), (8, 9), (9, 10)], [3, 10, 9, 6, 5, 4, 1, 7, 8, 11, 2, 0]),   # min_fill 5, quickbb 4
    (14, [(0, 2), (0, 4), (0, 13), (1, 9), (1, 11), (1, 12), (2, 3), (2, 6), (3, 7), (3, 9), (4, 5), (4, 10), (5, 8), (5, 11), (6, 12), (6, 13), (7, 8), (7, 10), (8, 13), (9, 11), (10, 12)], [9, 5, 7, 1, 4, 2, 12, 8, 11, 10, 13, 6, 3, 0]),   # min_fill 5, quickbb 4
    (12, [(0, 4), (0, 9), (0, 11), (1, 4), (1, 5), (1, 11), (2, 4), (2, 6), (2, 11), (3, 6), (3, 7), (3, 8), (5, 8), (5, 9), (6, 10), (7, 9), (7, 10), (8, 10)], [9, 7, 0, 2, 5, 3, 1, 6, 8, 4, 11, 10]),   # min_fill 4, quickbb 3
    (12, [(0, 3), (0, 8), (0, 11), (1, 6), (1, 8), (1, 9), (2, 3), (2, 5), (2, 8), (3, 4), (4, 6), (4, 10), (5, 7), (5, 10), (6, 7), (7, 11), (9, 10), (9, 11)], [1, 2, 0, 8, 10, 7, 3, 11, 9, 6, 4, 5]),   # min_fill 5, quickbb 4
    (12, [(0, 4), (0, 5), (0, 6), (1, 2), (1, 3), (1, 8), (2, 6), (2, 9), (3, 4), (3, 7), (4, 8), (5, 10), (5, 11), (6, 10), (7, 9), (7, 10), (8, 11), (9, 11)], [11, 9, 4, 7, 10, 6, 3, 5, 8, 0, 1, 2]),   # min_fill 5, quickbb 4
    (12, [(0, 1), (0, 4), (0, 10), (1, 2), (1, 9), (2, 7), (2, 8), (3, 5), (3, 10), (3, 11), (4, 5), (4, 8), (5, 7), (6, 7), (6, 9), (6, 10), (8, 11), (9, 11)], [1, 3, 6, 5, 9, 8, 11, 10, 7, 0, 4, 2]),   # min_fill 5, quickbb 4
    (12, [(0, 5), (0, 10), (0, 11), (1, 8), (1, 9), (1, 10), (2, 6), (2, 7), (2, 10), (3, 6), (3, 8), (3, 9), (4, 5), (4, 6), (4, 11), (5, 9), (7, 8), (7, 11)], [6, 5, 9, 7, 2, 4, 3, 11, 8, 1, 10, 0]),   # min_fill 5, quickbb 4
    (12, [(0, 4), (0, 5), (0, 11), (1, 3), (1, 6), (1, 9), (2, 3), (2, 6), (2, 7), (3, 4), (4, 8), (5, 7), (5, 9), (6, 10), (7, 8), (8, 10), (9, 11), (10, 11)], [7, 11, 5, 10, 2, 1, 9, 6, 3, 4, 0, 8]),   # min_fill 5, quickbb 4
    (12, [(0, 3), (0, 9), (0, 11), (1, 2), (1, 5), (1, 11), (2, 9), (2, 10), (3, 4), (3, 6), (4, 10), (4, 11), (5, 7), (5, 8), (6, 7), (6, 8), (7, 9), (8, 10)], [6, 5, 11, 4, 10, 9, 0, 7, 2, 3, 8, 1]),   # min_fill 5, quickbb 4
    (12, [(0, 3), (0, 6), (0, 8), (1, 5), (1, 6), (1, 9), (2, 8), (2, 10), (2, 11), (3, 7), (3, 10), (4, 6), (4, 7), (4, 11), (5, 10), (5, 11), (7, 9), (8, 9)], [8, 9, 0, 6, 1, 3, 7, 10, 11, 2, 4, 5]),   # min_fill 5, quickbb 4
]

# ----------------------------------------------------------------------------
# graphs: list of (v, sorted neighbour list) over 0..n-1, in dict insertion order

def mk(n, edges, order=None):
    adj = {v: set() for v in range(n)}
    for a, b in edges:
        if a != b:
            adj[a].add(b); adj[b].add(a)
    order = list(range(n)) if order is None else order
    return [(v, sorted(adj[v])) for v in order]

def edges_of(g):
    return sorted({(min(v, w), max(v, w)) for v, ws in g for w in ws})

def all_graphs(n):
    pairs = list(itertools.combinations(range(n), 2))
    for m in range(1 << len(pairs)):
        yield mk(n, [p for k, p in enumerate(pairs) if m >> k & 1])

def reorder(g, order):
    d = dict(g)
    return [(v, d[v]) for v in order]

def random_graph(rng, n, p):
    return mk(n, [(a, b) for a in range(n) for b in range(a + 1, n) if rng.random() < p])

def random_tree(rng, n):
    return mk(n, [(rng.randrange(v), v) for v in range(1, n)])

def grid(r, c):
    es = []
    for i in range(r):
        for j in range(c):
            if i + 1 < r: es.append((i * c + j, (i + 1) * c + j))
            if j + 1 < c: es.append((i * c + j, i * c + j + 1))
    return mk(r * c, es)

def clique(n):
    return mk(n, list(itertools.combinations(range(n), 2)))

def disjoint_union(g, h):
    n = len(g)
    return g + [(v + n, [w + n for w in ws]) for v, ws in h]

def has_isolated(g):
    return len(g) >= 2 and any(len(ws) == 0 for _, ws in g)

def canon(g):
    return (len(g), tuple(edges_of(g)))

def _keyfun(kind):
    if kind == 0: return lambda i: i
    if kind == 1: return lambda i: "v%d" % i
    if kind == 2: return lambda i: (i, "x")
    return lambda i: frozenset([i, -1])

def to_dict(g, kind):
    k = _keyfun(kind)
    return {k(v): {k(w) for w in ws} for v, ws in g}, {k(v): v for v, _ in g}

def tree_to_td(t, back, n):
    """dict[frozenset, set[frozenset]] -> (bags in insertion order, sorted index pairs); anything
    malformed is encoded so that the verified oracle rejects it"""
    bags = list(t)
    idx = {b: i for i, b in enumerate(bags)}
    nb = len(bags)
    edges = set()
    for b in bags:
        for c in t[b]:
            j = idx.get(c, nb)                    # neighbour that is not a bag -> out-of-range index
            i = idx[b]
            edges.add((min(i, j), max(i, j)))
            if c in t and b not in t[c]:
                edges.add((nb, nb))                # asymmetric adjacency -> out-of-range edge
    return ([sorted(back.get(x, n + 100) for x in b) for b in bags], sorted(edges))

def bench_graphs():
    """graphs of /repo/test/graphs with the treewidths and method lists of test_factorize.py"""
    d = os.path.join(REPO, "test", "graphs")
    tws = {"BarbellGraph_10_5.gr": 9, "BidiakisCube.gr": 4, "BlanusaFirstSnarkGraph.gr": 5,
           "BlanusaSecondSnarkGraph.gr": 4, "BrinkmannGraph.gr": 8}
    meth = {"BarbellGraph_10_5.gr": ["min_fill", "quickbb"], "BidiakisCube.gr": ["min_fill", "quickbb", "acb"],
            "BlanusaFirstSnarkGraph.gr": ["min_fill", "acb"], "BlanusaSecondSnarkGraph.gr": ["min_fill", "quickbb", "acb"],
            "BrinkmannGraph.gr": ["min_fill"]}
    out = []
    for fn in sorted(tws):
        p = os.path.join(d, fn)
        if not os.path.exists(p): continue
        num = {}; es = []
        for line in open(p):
            if line[0] in "cp" or not line.strip(): continue
            u, v = line.split()
            for x in (u, v): num.setdefault(x, len(num))
            es.append((num[u], num[v]))
        out.append((fn, mk(len(num), es), tws[fn], meth[fn]))
    return out

# ----------------------------------------------------------------------------

class Case:
    def __init__(self, g, kind, src, expect=None, methods=METHODS, model=True, helpers=True, tw=False):
        self.g, self.kind, self.src, self.expect = g, kind, src, expect
        self.methods, self.model, self.helpers, self.tw = methods, model, helpers, tw
        self.exc = {}
    def mode(self):
        n = len(self.g)
        m = 0
        if self.model: m |= 1
        if (n <= TW_MAX or self.tw) and self.expect is None: m |= 2
        return m
    def meta(self, **kw):
        d = dict(graph=self.g, key_kind=self.kind, source=self.src)
        d.update(kw); return d

def run_case(c, out, violations):
    """runs the implementation on fresh copies; appends wire values to out[...]"""
    from fggs import factorize as F
    n = len(c.g)
    mode = c.mode()
    exact_ok = c.kind == 0 and n <= 8
    for method in c.methods:
        m = METHODS.index(method)
        d, back = to_dict(c.g, c.kind)
        try:
            t = F.tree_decomposition(d, method=method)
            td = tree_to_td(t, back, n)
        except Exception as e:
            td = None; c.exc[method] = repr(e)
        out["td"].append(((c.g, m, mode, c.expect, td), c, method))
        if td is not None and exact_ok and c.model:
            out["tdx"].append(((c.g, m, td), c, method))
    if not c.helpers: return
    for which, fn in ((0, F.min_fill), (1, F.quickbb)):
        if which == 1 and "quickbb" not in c.methods: continue
        d, back = to_dict(c.g, c.kind)
        try:
            w, order = fn(d)
            order = [back.get(x, n + 100) for x in order]
        except Exception as e:
            violations.append(Violation("%s raised %r" % (fn.__name__, e), case=c.meta(function=fn.__name__),
                                        call="fggs.factorize.%s(graph)" % fn.__name__, corr="corr:order"))
            continue
        if not isinstance(w, int) or w < 0:
            violations.append(Violation("%s reported width %r" % (fn.__name__, w), case=c.meta(function=fn.__name__),
                                        call="fggs.factorize.%s(graph)" % fn.__name__, corr="corr:order"))
            continue
        out["ord"].append(((c.g, which, mode, c.expect, (w, order)), c, fn.__name__))
        if exact_ok and c.model:
            out["ordx"].append(((c.g, which, order), c, fn.__name__))
    d, back = to_dict(c.g, c.kind)
    try:
        lb = F.minor_min_width(d)
        out["mmw"].append(((c.g, (mode if exact_ok else mode & ~1), c.expect, lb), c, "minor_min_width"))
    except Exception as e:
        violations.append(Violation("minor_min_width raised %r" % (e,), case=c.meta(function="minor_min_width"),
                                    call="fggs.factorize.minor_min_width(graph)", corr="corr:mmw"))

TD_MSG = {1: "tree_decomposition output is not a valid tree decomposition (verified oracle td_ok rejects it)",
          3: "exact method returned a decomposition whose width is not the treewidth (tw_perm)",
          4: "decomposition accepted by td_ok has width below tw_perm (oracle inconsistency)",
          5: "tree_decomposition raised an exception",
          6: "width contradicts the reference treewidth of the benchmark graph",
          2: "harness produced a graph that is not simple/undirected",
          10: "(valid?, width) differs from the Gallina model's although no oracle rejects",
          11: "the Gallina model fails (exception/out of fuel) where the implementation succeeds"}
ORD_MSG = {1: "returned order is not a permutation of the vertices",
           3: "reported width is not the elimination width of the returned order",
           4: "quickbb width <> treewidth / min_fill width < treewidth (tw_perm)",
           6: "reported width contradicts the reference treewidth of the benchmark graph",
           2: "harness produced a graph that is not simple/undirected",
           10: "reported width differs from the Gallina model's", 11: "the Gallina model fails"}
MMW_MSG = {1: "minor_min_width exceeds the treewidth (tw_perm): not a lower bound",
           6: "minor_min_width exceeds the reference treewidth of the benchmark graph",
           2: "harness produced a graph that is not simple/undirected",
           10: "minor_min_width differs from the Gallina model's", 11: "the Gallina model fails"}

def build_cases(tier, rng):
    cases = []
    exh = 5 if tier == "quick" else 6
    n_exh = 0
    for n in range(exh + 1):
        for g in all_graphs(n):
            n_exh += 1
            cases.append(Case(g, 0, "exhaustive"))
            if n >= 2 and (n <= 5):
                # further insertion orders of the same graph: reversed (quick: only up to 4 vertices), random
                if n <= 4 or tier == "thorough":
                    cases.append(Case(reorder(g, list(range(n))[::-1]), 0, "exhaustive-reversed"))
                o = list(range(n)); rng.shuffle(o)
                cases.append(Case(reorder(g, o), rng.choice([0, 1, 2, 3]), "exhaustive-shuffled"))
    special = []
    special.append(("empty", mk(0, [])))
    for n in range(1, 9): special.append(("clique%d" % n, clique(n)))
    for r, c in [(2, 2), (2, 3), (3, 3), (2, 4), (1, 7)]: special.append(("grid%dx%d" % (r, c), grid(r, c)))
    for n in [2, 3, 5, 7, 8, 9]: special.append(("path%d" % n, mk(n, [(i, i + 1) for i in range(n - 1)])))
    for n in [4, 6, 8]: special.append(("star%d" % n, mk(n, [(0, i) for i in range(1, n)])))
    for n in [4, 5, 6, 7, 8]: special.append(("cycle%d" % n, mk(n, [(i, (i + 1) % n) for i in range(n)])))
    for n in [6, 7, 8, 9]:
        for _ in range(4 if tier == "quick" else 20): special.append(("tree%d" % n, random_tree(rng, n)))
    special.append(("k3+k3", disjoint_union(clique(3), clique(3))))
    special.append(("c4+path3", disjoint_union(mk(4, [(0, 1), (1, 2), (2, 3), (3, 0)]), mk(3, [(0, 1), (1, 2)]))))
    special.append(("k4+isolated", disjoint_union(clique(4), mk(1, []))))
    special.append(("isolated+k4", disjoint_union(mk(1, []), clique(4))))
    special.append(("c5+2isolated", disjoint_union(mk(5, [(i, (i + 1) % 5) for i in range(5)]), mk(2, []))))
    special.append(("6isolated", mk(6, [])))
    if tier == "thorough":
        special.append(("grid3x4", grid(3, 4)))
    for name, g in special:
        n = len(g)
        cases.append(Case(g, 0, name))
        if n >= 2:
            o = list(range(n)); rng.shuffle(o)
            cases.append(Case(reorder(g, o), 0, name + "-shuffled"))
            cases.append(Case(reorder(g, o[::-1]), rng.choice([1, 2, 3]), name + "-shuffled-keys"))
    n_rand = 260 if tier == "quick" else 12000
    for i in range(n_rand):
        n = rng.choice([6, 7, 7, 8, 8, 9]) if tier == "quick" else rng.choice([6, 7, 7, 8, 8, 9, 9])
        g = random_graph(rng, n, rng.choice([0.15, 0.3, 0.45, 0.6, 0.8]))
        if rng.random() < 0.15:                        # force an isolated vertex now and then
            v = rng.randrange(n)
            g = mk(n, [(a, b) for a, b in edges_of(g) if a != v and b != v])
        o = list(range(n)); rng.shuffle(o)
        cases.append(Case(reorder(g, o), 0 if i % 3 else rng.choice([1, 2, 3]), "random"))
    for n, es, order in HARD_CUBIC:
        if tier == "quick" and n > 12: continue
        cases.append(Case(mk(n, es, order), 0, "cubic%d" % n, tw=True))
        o = list(range(n)); rng.shuffle(o)
        cases.append(Case(mk(n, es, o), rng.choice([0, 1, 2, 3]), "cubic%d-shuffled" % n, tw=True))
    # dense random graphs on 9..11 vertices (treewidth 4..6, degrees >= 4) on which min_fill is not optimal in the
    # recorded insertion order, found once by search and kept as data (corpus/C10_hard_dense.json): quickbb's
    # branch and bound has to improve on its initial bound, through the almost-simplicial reduction and the pruning
    hard = json.load(open(os.path.join(VERIF, "corpus", "C10_hard_dense.json")))
    if tier == "quick": hard = [h for h in hard if h["n"] <= 10][:int(os.environ.get("VERIF_C10_HARD", "70"))]
    # and the 3000 graphs (9..10 vertices) with the longest branch-and-bound searches (number of bb() calls) among
    # 84 000 such graphs found by a second search (corpus/C10_hard_search.json, sorted by search effort)
    hard2 = json.load(open(os.path.join(VERIF, "corpus", "C10_hard_search.json")))
    hard = hard + (hard2[:160] if tier == "quick" else hard2)
    for h in hard:
        cases.append(Case(mk(h["n"], [tuple(e) for e in h["edges"]], h["order"]), 0, "dense%d" % h["n"], methods=["min_fill", "quickbb"], tw=h["n"] <= 10))
    for fn, g, tw, meths in bench_graphs():
        # methods as in /repo/test/test_factorize.py
        cases.append(Case(g, 0, "bench:" + fn, expect=tw, methods=meths, model=True, helpers=True))
    return cases, n_exh, exh

def _run_model(cf, values, seed, tag, tier):
    """Bulk run through the extracted code; a random sample of the zero verdicts and the non-zero
    verdicts on the smallest graphs are re-evaluated inside the Coq kernel (vm_compute) and must
    agree.  (Own copy of core.run_model with tier-dependent caps: vm_compute is ~100x slower than
    the extracted code on 9-vertex graphs.)"""
    n_sample, n_bad = (12, 10) if tier == "quick" else (60, 40)
    codes = run_ocaml(cf, values)
    rng = random.Random(seed * 7919 + 13)
    idx = list(range(len(values)))
    bad = sorted((i for i in idx if codes[i] != 0 and len(values[i][0]) <= 9), key=lambda i: len(values[i][0]))[:n_bad]
    rest = [i for i in idx if codes[i] == 0 and len(values[i][0]) <= 9]     # not the 12..25-vertex benchmark graphs
    rng.shuffle(rest)
    pick = sorted(set(bad + rest[:n_sample]))
    if pick:
        ccodes = run_coq(cf, [values[i] for i in pick], tag=tag)
        for i, c in zip(pick, ccodes):
            if c != codes[i]:
                raise BuildError("extracted code and vm_compute disagree on %s case %d: %d vs %d" % (cf.kind, i, codes[i], c))
    return codes, len(pick)

def run(tier, seed):
    rng = random.Random(seed)
    violations = []
    import time
    t0 = time.time()
    cases, n_exh, exh = build_cases(tier, rng)
    out = dict(td=[], tdx=[], ord=[], ordx=[], mmw=[])
    for c in cases:
        run_case(c, out, violations)
    t_impl = time.time() - t0
    nk = 0
    # --- tree_decomposition
    codes, k = _run_model(TD, [v for v, _, _ in out["td"]], seed, "c10td", tier); nk += k
    hist = {}
    for (v, c, method), code in zip(out["td"], codes):
        hist[method] = hist.get(method, 0) + 1
        if code == 0: continue
        msg = TD_MSG.get(code, "verdict code %d" % code)
        if code == 1 and method == "acb" and has_isolated(c.g):
            msg += " -- regression of F8 (fixed in /repo 96ab4c3): acb drops vertices when a component is a single vertex"
        violations.append(Violation("%s: %s" % (method, msg),
                                    case=c.meta(method=method), observed=(v[4] if code != 5 else c.exc.get(method)),
                                    oracle="td_ok / tw_perm" if code < 10 else None,
                                    corr="C10_td_check_sound (C10_td_ok_sound_complete, C10_tw_oracle_spec) / corr:tree_decomposition (Model.TreeDec.td_check code %d)" % code,
                                    failing_input_found=(code < 10 and code != 2),
                                    call="fggs.factorize.tree_decomposition(graph, method=%r)" % method))
    # --- min_fill / quickbb called directly
    ocodes, k = _run_model(ORD, [v for v, _, _ in out["ord"]], seed, "c10ord", tier); nk += k
    for (v, c, fname), code in zip(out["ord"], ocodes):
        if code == 0: continue
        violations.append(Violation("%s: %s" % (fname, ORD_MSG.get(code, "verdict code %d" % code)),
                                    case=c.meta(function=fname), observed=v[4], oracle="elim_width / tw_perm" if code < 10 else None,
                                    corr="C10_order_check_sound / corr:order (Model.TreeDec.order_check code %d)" % code,
                                    failing_input_found=(code < 10 and code != 2), call="fggs.factorize.%s(graph)" % fname))
    # --- minor_min_width
    mcodes, k = _run_model(MMW, [v for v, _, _ in out["mmw"]], seed, "c10mmw", tier); nk += k
    for (v, c, fname), code in zip(out["mmw"], mcodes):
        if code == 0: continue
        violations.append(Violation("minor_min_width: %s" % MMW_MSG.get(code, "verdict code %d" % code),
                                    case=c.meta(function=fname), observed=v[3], oracle="tw_perm" if code < 10 else None,
                                    corr="C10_mmw_check_sound, C10_bounds_bracket / corr:mmw (Model.TreeDec.mmw_check code %d)" % code,
                                    failing_input_found=(code < 10 and code != 2), call="fggs.factorize.minor_min_width(graph)"))
    # --- exact agreement with the model (measured, never a verdict)
    xcodes = run_ocaml(TDX, [v for v, _, _ in out["tdx"]])
    ycodes = run_ocaml(ORDX, [v for v, _, _ in out["ordx"]])
    x_ok = sum(1 for c in xcodes if c == 0); y_ok = sum(1 for c in ycodes if c == 0)
    notes = []
    for (v, c, method), code in zip(out["tdx"], xcodes):
        if code != 0 and len(notes) < 5:
            notes.append("tree_decomposition(%s) on %r: tree differs from the model's (code %d)" % (method, c.g, code))
    for (v, c, fname), code in zip(out["ordx"], ycodes):
        if code != 0 and len(notes) < 10:
            notes.append("%s on %r: order differs from the model's (code %d)" % (fname, c.g, code))
    for nline in notes: print("NOTE " + nline)
    nontriv = {canon(c.g) for c in cases if len(c.g) >= 3 and edges_of(c.g)}
    sizes = {}
    srcs = {}
    for c in cases:
        sizes[len(c.g)] = sizes.get(len(c.g), 0) + 1
        s = c.src.split("-")[0].rstrip("0123456789x")
        srcs[s] = srcs.get(s, 0) + 1
    td_vals = out["td"]
    samples = []
    small = [i for i, (v, c, method) in enumerate(td_vals) if len(c.g) <= 9]
    for pick in (small[n_exh // 2], small[len(small) // 2], small[-1]):
        v, c, method = td_vals[pick]
        samples.append(dict(graph=c.g, key_kind=c.kind, source=c.src, method=method, impl_tree=v[4], verdict=codes[pick]))
    cov = dict(evaluations=len(out["td"]) + len(out["ord"]) + len(out["mmw"]),
               distinct_nontrivial=len(nontriv),
               rule="every labelled simple graph on <= %d vertices (%d graphs; those on 2..5 vertices additionally with a shuffled dict insertion order and key type, and -- quick: up to 4 vertices -- with reversed insertion order) + cliques K1..K8, grids, paths, stars, cycles, random trees, disjoint unions, graphs with isolated vertices, the empty graph + random graphs on 6..9 vertices with shuffled insertion order and 4 key types + cubic graphs on 12..14 vertices on which min_fill is suboptimal + the benchmark graphs of /repo/test/graphs; each x {min_fill, quickbb, acb} x {tree_decomposition, min_fill, quickbb, minor_min_width}; every call gets a fresh copy of the graph. non-trivial = >= 3 vertices and >= 1 edge, distinct by (n, edge set)" % (exh, n_exh),
               exhaustive_part="all labelled graphs on <= %d vertices" % exh,
               samples=samples, size_histogram=sizes, source_histogram=srcs, calls_per_method=hist,
               kernel_reevaluated=nk, seconds=dict(implementation_calls=round(t_impl, 1), total_run=round(time.time() - t0, 1)),
               exact_agreement=dict(trees="%d/%d" % (x_ok, len(xcodes)), orders="%d/%d" % (y_ok, len(ycodes)),
                                    note="int keys, <= 8 vertices; measured only"),
               open_items=[])
    return cov, violations

def replay(path):
    r = json.load(open(path))
    c = r["case"]
    g = [(v, list(ws)) for v, ws in c["graph"]]
    case = Case(g, int(c.get("key_kind", 0)), c.get("source", "replay"),
                methods=[c["method"]] if "method" in c else [], helpers="function" in c)
    if str(case.src).startswith("bench:"):
        for fn, bg, tw, _ in bench_graphs():
            if "bench:" + fn == case.src: case.expect = tw
        case.model = "method" not in c or c["method"] == "min_fill"
    out = dict(td=[], tdx=[], ord=[], ordx=[], mmw=[]); vs = []
    run_case(case, out, vs)
    bad = len(vs)
    for key, cf in (("td", TD), ("ord", ORD), ("mmw", MMW)):
        vals = [v for v, _, name in out[key] if key == "td" or name == c.get("function")]
        if not vals: continue
        codes = run_coq(cf, vals, tag="replay")
        for v, code in zip(vals, codes):
            print(key, "graph", g, "impl", v[-1], "verdict code", code)
            if code: bad += 1
    return 1 if bad else 0

MANIFEST = dict(
    level="proof",
    text="Coq theorems about a Gallina model that follows fggs/factorize.py statement by statement. Unbounded (every simple undirected graph): for every permutation of the vertices tree_decomposition_from_order returns a valid tree decomposition (tree = connected + every edge a bridge, vertex and edge cover, running intersection) whose width is the elimination width; min_fill returns a permutation together with exactly that width, so method='min_fill' is valid; quickbb always returns (its assert cannot fail) a permutation whose elimination width it reports and that width IS the treewidth (safety of the simplicial/almost-simplicial reductions, of the separator rule and of the pruning), so method='quickbb' is valid and optimal for every graph; method='acb' always returns (connected_components terminates and returns connected sets; neither assert of acb_connected, no chart look-up, the final assert False and the for/else assert False of acb can fail), what it returns is a valid tree decomposition (certificates of the ACP chart are rooted decompositions with pairwise different bags, un-rooting is faithful) and its width IS the treewidth for every graph: completeness of the Arnborg-Corneil-Proskurowski dynamic programme (normal form: a k-subset separator all of whose components are k-eliminable exists if tw <= k, and a k-eliminable component splits at the last vertex of its elimination order into k-eliminable components attached through k-separators; so acb_connected(c, k) answers False only if tw(c) > k), trees returned for k have bags of <= k+1 vertices, min_fill's upper bound is >= treewidth, components with upper bound 0 are single vertices; minor_min_width <= treewidth <= min_fill; tw_perm (least elimination width) is the least width of a valid tree decomposition; the executable checker td_ok is sound and complete. Bounded cross-checks kept (all labelled graphs on <= 5 vertices, all dict insertion orders on <= 4): quickbb and acb return decompositions accepted by td_ok of width exactly the treewidth (defect F8 of acb was repaired in /repo 96ab4c3 and in the model; a regression is reported as a VIOLATION). Every implementation output is judged by the extracted td_ok and treewidth oracle and compared with the model at the level (valid?, width).",
    note="Trusted: Coq kernel + vm_compute, extraction (ExtrOcamlBasic) cross-checked against vm_compute, the Python harness that numbers dict keys and converts the tree dict to (bags, index pairs). The model fixes an iteration order for Python sets (ascending); the acb totality/optimality theorems are statements about that model, but their proofs do not use the order (the lemmas about the loops over `j - i`, `i` and `chart[m]` hold for any order; the order only selects which of several optimal trees is returned).",
    technique="Coq proof (model + theorems) + model/implementation correspondence with verified-spec oracle",
    design_ref="DESIGN.md section 6, C10; Appendix A.9; Appendix C (C10)")
