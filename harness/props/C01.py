"""C01 -- sum-product of a non-recursive FGG equals its definition."""
import random, json, warnings
from harness.core import *
from harness import gen
from harness.props._sp_util import *

PID = "C01"
LEVEL = "proof"
CF = {
    "real": CheckFn("sp-real", "Model.SumProductCheck", "sp_check_real", Tup(GrammarT, List(Tup(Nat, List(RealW))), List(Tup(Nat, List(RealB))))),
    "trop": CheckFn("sp-trop", "Model.SumProductCheck", "sp_check_trop", Tup(GrammarT, List(Tup(Nat, List(TropV))), List(Tup(Nat, List(TropB))))),
    "bool": CheckFn("sp-bool", "Model.SumProductCheck", "sp_check_bool", Tup(GrammarT, List(Tup(Nat, List(Bool))), List(Tup(Nat, List(Bool))))),
}
CHECKFNS = list(CF.values())
ASSUMPTIONS = [
    "torch kernels (einsum, logsumexp) are represented by their exact-arithmetic meaning; float results are compared with the exact model inside Coq within rtol 1e-9 (float64) / 2e-4 (float32), inf/-inf/0 exactly",
    "Log semiring read through exp: the implementation gets log(v) and exp(output) is compared with the Real model",
]
METHODS = ["fixed-point", "newton", "linear"]

def run_impl(spec, sr, method, ids="explicit", rng=None, via="sum_products"):
    """returns {nonterminal index: flat list of observations}"""
    import fggs
    b = gen.build_fgg(spec, sr.wconv, ids=ids, rng=rng, dtype=sr.torch_dtype())
    with warnings.catch_warnings():
        warnings.simplefilter("ignore")
        res = fggs.sum_products(b.fgg, method=method, semiring=sr.semiring())
        start = fggs.sum_product(b.fgg, method=method, semiring=sr.semiring()) if via == "both" else None
    out = {}
    for i, e in enumerate(spec["elabels"]):
        if e["term"]: continue
        if b.els[i] not in res:
            continue
        out[i] = [sr.obs(x) for x in dense_list(res[b.els[i]])]
    if start is not None:
        s = [sr.obs(x) for x in dense_list(start)]
        if s != out.get(spec["start"]):
            raise AssertionError("sum_product differs from sum_products[start]")
    return out

def f1_predicate(spec, sr):
    """F1 (fixed in /repo): Log/Viterbi, a zero weight in a rule that also has an isolated internal node"""
    return sr.name in ("log", "viterbi") and "zero_weight" in spec["features"] and "isolated_int" in spec["features"]

def run(tier, seed):
    rng = random.Random(seed)
    n = 220 if tier == "quick" else 5000
    violations = []
    bycf = {k: [] for k in CF}
    meta = {k: [] for k in CF}
    feats = {}; stats = dict(nt={}, rules={})
    distinct = set()
    for i in range(n):
        spec = gen.random_spec(rng, recursive=False)
        key = json.dumps(gen.spec_jsonable(spec), sort_keys=True)
        if len(spec["rules"]) >= 2 or spec["features"]:
            distinct.add(key)
        for f in spec["features"]: feats[f] = feats.get(f, 0) + 1
        st = gen.spec_stats(spec)
        stats["nt"][st["nt"]] = stats["nt"].get(st["nt"], 0) + 1
        stats["rules"][st["rules"]] = stats["rules"].get(st["rules"], 0) + 1
        gw = grammar_wire(spec)
        for sr in CONFIGS:
            method = METHODS[(i + len(sr.name)) % 3]
            ids = ["explicit", "implicit", "mixed"][i % 3]
            call = "fggs.sum_products(fgg, method=%r, semiring=%r)" % (method, sr)
            try:
                out = run_impl(spec, sr, method, ids=ids, rng=rng, via="both")
            except Exception as e:
                violations.append(Violation("sum_products raised %r" % (e,), case=dict(spec=gen.spec_jsonable(spec), semiring=repr(sr), method=method),
                                            call=call, corr="corr:sum_products", oracle="no exception expected on a well-formed non-recursive FGG"))
                continue
            obs = sorted(out.items())
            bycf[sr.carrier()].append((gw, weights_wire(spec, sr), obs))
            meta[sr.carrier()].append((spec, sr, method, obs))
    total = 0
    nk = 0
    for k, vals in bycf.items():
        codes, n_k = run_model(CF[k], vals, seed=seed, coq_sample=12 if tier == "quick" else 60, tag="c01" + k)
        nk += n_k
        total += len(vals)
        for (spec, sr, method, obs), c in zip(meta[k], codes):
            if c == 0: continue
            case = dict(spec=gen.spec_jsonable(spec), semiring=repr(sr), method=method)
            call = "fggs.sum_products(fgg, method=%r, semiring=%r)" % (method, sr)
            if c == 1:
                violations.append(Violation("sum-product differs from the sum over derivations and assignments (Z_spec)", case=case,
                                            observed=obs, oracle="Ztab (= sum over derivation trees, theorem C01_Zk_is_tree_sum)", corr="C01 / corr:sum_products",
                                            call=call))
            elif c == 4:
                violations.append(Violation("an entry of sum_products is missing for some nonterminal", case=case, observed=obs,
                                            oracle="every nonterminal receives a value", corr="C01 / C19", call=call))
            elif c == 10:
                violations.append(Violation("sum-product agrees with the definition but differs from the code-shaped model", case=case, observed=obs,
                                            corr="corr:sum_products (Model.SumProduct.sum_products_nonrec)", failing_input_found=False, call=call))
            else:
                violations.append(Violation("framework inconsistency, verdict code %d" % c, case=case, observed=obs, corr="harness/model (code %d)" % c,
                                            failing_input_found=False, call=call))
    s0 = meta["real"][0] if meta["real"] else None
    cov = dict(evaluations=total, distinct_nontrivial=len(distinct),
               rule="random non-recursive FGG specs (harness/gen.py: <=4 nonterminals, <=3 rules each, <=5 nodes, <=4 edges, domain sizes 1-3, weights from {0,1/4,1/2,1,2,3,inf}, forced shapes with prob ~0.15) x {Real f64, Real f32, Log, Viterbi, Bool} x method rotating over fixed-point/newton/linear x explicit/implicit/mixed ids; every entry of sum_products compared; distinct_nontrivial = distinct specs with >= 2 rules or a forced shape",
               feature_histogram=feats, size_histogram=stats, kernel_reevaluated=nk,
               samples=[dict(spec=gen.spec_jsonable(s0[0]), semiring=repr(s0[1]), method=s0[2], observed=s0[3])] if s0 else [],
               open_items=[
                   "proved (Props/C01.v, generic in the semiring): C01_check_oracle_sound (verdict 0 => observation accepted against Zk at #nonterminals), C01_Zk_is_tree_sum, C01_enum_trees_spec/NoDup, C02_kleene_is_bounded_depth, C01_Zk_stable, C01_rank_normalise, C01_nonrec_all_trees, C01_spe_eq_rule_val (+ _total_env, _none_is_zero, _body_eq), C01_sum_products_nonrec_Zk, C01_Ztab_is_Zk, C01_sum_products_eq_spec, shape corollaries; composed with C08 and C19 (Proofs/Instances_scc.v, Proofs/Instances.v): C01_nt_graph_closed (the nonterminal graph of every grammar is closed), C01_scc_order_accepted, C01_nonrecursive_iff_ranked, C01_end_to_end (+ _ranked) and the premise-free carrier instances C01_end_to_end_real / _viterbi / _bool, C01_real/_viterbi_sum_products_eq_spec, C01_real/_viterbi_Zk_is_tree_sum, C01_check_oracle_sound_trees and C01_real/_viterbi/_bool_check_oracle_sound(_trees) (verdict 0 => observation accepted against the sum over ALL derivation trees), C01_weights_keys_terminal",
                   "side condition of the end-to-end theorems: the keys of the weight table are terminals (C01_weights_keys_terminal: forallb (fun p => is_term G (fst p)) ws = true suffices); sp_check does not test it, the harness lists only weighted terminals, and a nonterminal key would surface as verdict 20 (see notes/GLUE.md)",
                   "open: the float kernels of torch (einsum, logsumexp) are compared numerically per case, not proved"])
    return cov, violations

def replay(path):
    r = json.load(open(path))
    c = r["case"]
    spec = gen.spec_from_json(c["spec"])
    sr = [s for s in CONFIGS if repr(s) == c["semiring"]][0]
    out = run_impl(spec, sr, c["method"])
    code = run_coq(CF[sr.carrier()], [(grammar_wire(spec), weights_wire(spec, sr), sorted(out.items()))], tag="replay")[0]
    print("observed", out, "verdict code", code)
    return 1 if code else 0

MANIFEST = dict(
    level="proof",
    text="Coq: the k-th Kleene iterate of the grammar's equations equals the semiring sum over derivation trees of depth <= k of the product of factor weights (any commutative semiring); the code-shaped model of sum_product_edges / F / SCC-ordered driver is tied to it; instances Real/Log (ereal), Viterbi (trop), Bool. Correspondence: every entry of fggs.sum_products on generated non-recursive FGGs is compared inside Coq with both the code-shaped model and the brute-force definition.",
    note="Trusted: Coq kernel, extraction cross-checked by vm_compute, harness generators/canonicalisation; torch numerics compared within tolerance; open proof items listed in the evidence.",
    technique="Coq proof (sum over derivations = Kleene iterate) + model/implementation correspondence with the definition as oracle",
    design_ref="DESIGN.md section 6, C01")
