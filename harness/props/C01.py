"""C01 -- sum-product of a non-recursive FGG equals its definition."""
import random, json, warnings
from fractions import Fraction
from harness.core import *
from harness import gen
from harness.props._sp_util import *

PID = "C01"
LEVEL = "proof"
CF = {
    "real": CheckFn("sp-real", "Model.SumProductCheck", "sp_check_real", Tup(GrammarT, List(Tup(Nat, List(RealW))), List(Tup(Nat, List(RealB))))),
    "trop": CheckFn("sp-trop", "Model.SumProductCheck", "sp_check_trop", Tup(GrammarT, List(Tup(Nat, List(TropV))), List(Tup(Nat, List(TropB))))),
    "bool": CheckFn("sp-bool", "Model.SumProductCheck", "sp_check_bool", Tup(GrammarT, List(Tup(Nat, List(Bool))), List(Tup(Nat, List(Bool))))),
}
CHECKFNS = list(CF.values())
ASSUMPTIONS = [
    "torch kernels (einsum, logsumexp) are represented by their exact-arithmetic meaning; float results are compared with the exact model inside Coq within rtol 1e-9 (float64) / 2e-4 (float32), inf/-inf/0 exactly",
    "Log semiring read through exp: the implementation gets log(v) and exp(output) is compared with the Real model",
    "magnitude stream: the exact value is judged (all its values are moderate rationals: every term with a weight near the top / bottom of the dtype's range contains a zero factor, asserted per case by gen.magnitude_killed); a nan of the implementation is handed to the oracle as the empty interval, which it rejects (C01_nan_rejected_real/_trop); +inf is accepted only where the exact value is +inf. Log reading of that stream: the extreme log-weights +-2^1023*(1..1.5) denote positive finite reals exp(L) that are no usable rationals, the model gets 2^(+-8e) in their place -- sound because the value of a rule does not depend on the factors of annihilated terms (C01_rule_val_annihilated_terms)",
    "the model is the exact mathematics (functions of index tuples): PhysicalAxis sharing, defaults and in-place replacement of weights are implementation-side variations of the SAME mathematical input, so one oracle (Ztab) judges all of them",
]
METHODS = ["fixed-point", "newton", "linear"]

def run_impl(spec, sr, method, ids="explicit", rng=None, via="sum_products", patterned=False, staged=False, history=None, raw=None):
    """returns {nonterminal index: flat list of observations}.
    history: None, or a dict {terminal: other weights of the same shape}: the grammar is first built with THOSE
    weights and queried; then every factor's weights are replaced in place (FiniteFactor.weights setter on the
    same factor object) by the weights of `spec`, and the same FGG object
    is queried again -- the second answer is the one observed."""
    import fggs
    def stage(g):
        with warnings.catch_warnings():
            warnings.simplefilter("ignore")
            fggs.sum_products(g, method=method, semiring=sr.semiring())
    first = dict(spec, weights=history) if history else spec
    b = gen.build_fgg(first, sr.wconv, ids=ids, rng=rng, dtype=sr.torch_dtype(), patterned=patterned, stage=stage if staged else None)
    if history:
        stage(b.fgg)
        for k, el in enumerate(sorted(spec["weights"])):
            t = gen.weight_tensor(spec, el, sr.wconv, sr.torch_dtype())
            if patterned == "zero_default":
                from fggs.indices import PatternedTensor
                t = PatternedTensor(t, default=sr.wconv(Fraction(0)))
            b.factors[el].weights = t
    with warnings.catch_warnings():
        warnings.simplefilter("ignore")
        res = fggs.sum_products(b.fgg, method=method, semiring=sr.semiring())
        start = fggs.sum_product(b.fgg, method=method, semiring=sr.semiring()) if via == "both" else None
    out = {}
    for i, e in enumerate(spec["elabels"]):
        if e["term"]: continue
        if b.els[i] not in res:
            continue
        out[i] = [sr.obs(x) for x in dense_list(res[b.els[i]])]
        if raw is not None: raw[str(i)] = [repr(x) for x in dense_list(res[b.els[i]])]
    if start is not None:
        s = [sr.obs(x) for x in dense_list(start)]
        if s != out.get(spec["start"]):
            raise AssertionError("sum_product differs from sum_products[start]")
    return out

def run_singleton(spec, sr, method):
    """the spec has one nonterminal (index 0) with one rule over terminals only: build it as a
    FactorGraph and go through fggs.utils.singleton_fgg"""
    import fggs, torch
    from fggs.utils import singleton_fgg
    r = spec["rules"][0]
    fg = fggs.FactorGraph()
    nls = [fggs.NodeLabel(gen.nl_name(i)) for i in range(len(spec["nlabels"]))]
    for i, size in enumerate(spec["nlabels"]):
        fg.add_domain(nls[i], fggs.FiniteDomain(list(range(size))))
    nodes = [fggs.Node(nls[nl]) for nl in r["nodes"]]
    for nd in nodes: fg.add_node(nd)
    els = {}
    for el, att in r["edges"]:
        if el not in els:
            els[el] = fggs.EdgeLabel(gen.el_name(spec, el), [nls[nl] for nl in spec["elabels"][el]["type"]], is_terminal=True)
        fg.add_edge(fggs.Edge(els[el], [nodes[i] for i in att]))
    fg.ext = [nodes[i] for i in r["ext"]]
    for el, lab in els.items():
        w = gen.weight_tensor(spec, el, sr.wconv, sr.torch_dtype())
        fg.add_factor(lab, fggs.FiniteFactor([fg.domains[nl.name] for nl in lab.type], w))
    g = singleton_fgg(fg)
    with warnings.catch_warnings():
        warnings.simplefilter("ignore")
        z = fggs.sum_product(g, method=method, semiring=sr.semiring())
    return {0: [sr.obs(x) for x in dense_list(z)]}

def singleton_spec(rng, p_empty=0.0):
    """one start nonterminal, one rule with terminal edges only (a factor graph)"""
    while True:
        spec = gen.random_spec(rng, recursive=False, max_nt=1, max_rules=1, max_nodes=4, max_edges=4, dup_ext=False, p_empty=p_empty)
        if len(spec["rules"]) == 1 and all(spec["elabels"][el]["term"] for el, _ in spec["rules"][0]["edges"]):
            used = {el for el, _ in spec["rules"][0]["edges"]}
            # labels that the factor graph never mentions do not exist in singleton_fgg's grammar
            keep = [0] + sorted(used)
            ren = {old: new for new, old in enumerate(keep)}
            spec = dict(spec, elabels=[spec["elabels"][i] for i in keep],
                        rules=[dict(spec["rules"][0], edges=[(ren[el], att) for el, att in spec["rules"][0]["edges"]])],
                        weights={ren[el]: w for el, w in spec["weights"].items() if el in used})
            return spec

def f1_predicate(spec, sr):
    """F1 (fixed in /repo): Log/Viterbi, a zero weight in a rule that also has an isolated internal node"""
    return sr.name in ("log", "viterbi") and "zero_weight" in spec["features"] and "isolated_int" in spec["features"]

def run(tier, seed):
    rng = random.Random(seed)
    n = 220 if tier == "quick" else 12000
    violations = []
    bycf = {k: [] for k in CF}
    meta = {k: [] for k in CF}
    feats = {}; stats = dict(nt={}, rules={})
    distinct = set()
    for i in range(n):
        spec = gen.random_spec(rng, recursive=False)
        key = json.dumps(gen.spec_jsonable(spec), sort_keys=True)
        if len(spec["rules"]) >= 2 or spec["features"]:
            distinct.add(key)
        for f in spec["features"]: feats[f] = feats.get(f, 0) + 1
        st = gen.spec_stats(spec)
        stats["nt"][st["nt"]] = stats["nt"].get(st["nt"], 0) + 1
        stats["rules"][st["rules"]] = stats["rules"].get(st["rules"], 0) + 1
        gw = grammar_wire(spec)
        for sr in CONFIGS:
            method = METHODS[(i + len(sr.name)) % 3]
            ids = ["explicit", "implicit", "mixed"][i % 3]
            call = "fggs.sum_products(fgg, method=%r, semiring=%r)" % (method, sr)
            try:
                out = run_impl(spec, sr, method, ids=ids, rng=rng, via="both", patterned=(i % 4 == 1), staged=(i % 5 == 2))
            except Exception as e:
                violations.append(Violation("sum_products raised %r" % (e,), case=dict(spec=gen.spec_jsonable(spec), semiring=repr(sr), method=method),
                                            call=call, corr="corr:sum_products", oracle="no exception expected on a well-formed non-recursive FGG"))
                continue
            obs = sorted(out.items())
            bycf[sr.carrier()].append((gw, weights_wire(spec, sr), obs))
            meta[sr.carrier()].append((spec, sr, method, obs, None))
    # size-0 domains in every role (attached / unattached, internal / external node; the only label or one of two),
    # and layered grammars whose nonterminal values are built from the factors their parents use again
    n_empty = 40 if tier == "quick" else 2500
    n_layer = 110 if tier == "quick" else 8000
    PAT = [False, "zero_default", "zero_default", True]
    extra = [("empty", gen.random_spec(rng, recursive=False, p_empty=1.0)) for _ in range(n_empty)]
    extra += [("layered", gen.layered_spec(rng, p_empty=0.12)) for _ in range(n_layer)]
    for i, (kind, spec) in enumerate(extra):
        key = json.dumps(gen.spec_jsonable(spec), sort_keys=True)
        distinct.add(key)
        for f in spec["features"]: feats[f] = feats.get(f, 0) + 1
        gw = grammar_wire(spec)
        hist = None
        if i % 3 == 1:     # same object queried, all weights replaced in place, queried again
            hist = {el: gen.nested([spec["nlabels"][nl] for nl in spec["elabels"][el]["type"]],
                                   lambda: rng.choices(gen.LAYER_GRID, gen.LAYER_GRID_P)[0]) for el in spec["weights"]}
            feats["history_weights_replaced"] = feats.get("history_weights_replaced", 0) + 1
        for sr in CONFIGS:
            method = METHODS[(i + len(sr.name)) % 3]
            ids = ["explicit", "implicit", "mixed"][i % 3]
            patterned = PAT[i % 4]
            opts = dict(ids=ids, patterned=patterned, staged=(i % 5 == 2), history=gen.spec_jsonable(dict(spec, weights=hist))["weights"] if hist else None)
            case = dict(spec=gen.spec_jsonable(spec), semiring=repr(sr), method=method, stream=kind, build=opts)
            call = "fggs.sum_products(fgg, method=%r, semiring=%r)" % (method, sr)
            try:
                out = run_impl(spec, sr, method, ids=ids, rng=rng, via="both", patterned=patterned, staged=(i % 5 == 2), history=hist)
            except Exception as e:
                violations.append(Violation("sum_products raised %r" % (e,), case=case,
                                            call=call, corr="corr:sum_products", oracle="no exception expected on a well-formed non-recursive FGG"))
                continue
            obs = sorted(out.items())
            bycf[sr.carrier()].append((gw, weights_wire(spec, sr), obs))
            meta[sr.carrier()].append((spec, sr, method, obs, case))
    # magnitudes: finite weights at the top / bottom of the dtype's range whose partial products overflow / underflow
    # in terms that a zero weight (before, between or after them in edge order) annihilates; the exact value is moderate
    n_mag = 44 if tier == "quick" else 3000
    for i in range(n_mag):
        spec = gen.magnitude_spec(rng)
        assert gen.magnitude_killed(spec), "magnitude_spec: a hot node is not attached to a killer"
        distinct.add(json.dumps(gen.spec_jsonable(spec), sort_keys=True))
        for f in spec["features"]: feats["mag:" + f] = feats.get("mag:" + f, 0) + 1
        gw = grammar_wire(spec)
        hist = None
        if i % 4 == 3:     # built with moderate weights, queried, all weights replaced in place by the extreme ones
            hist = {el: gen.nested([spec["nlabels"][nl] for nl in spec["elabels"][el]["type"]],
                                   lambda: rng.choices(gen.LAYER_GRID, gen.LAYER_GRID_P)[0]) for el in spec["weights"]}
            feats["mag:history_weights_replaced"] = feats.get("mag:history_weights_replaced", 0) + 1
        for sr0 in CONFIGS:
            sr = MagSR(sr0)
            method = METHODS[(i + len(sr.name)) % 3]
            ids = ["explicit", "implicit", "mixed"][i % 3]
            patterned = [False, "zero_default", False][i % 3]
            opts = dict(ids=ids, patterned=patterned, staged=False, history=gen.spec_jsonable(dict(spec, weights=hist))["weights"] if hist else None)
            case = dict(spec=gen.spec_jsonable(spec), semiring=repr(sr), method=method, stream="magnitude", build=opts,
                        implementation_weights={str(el): [repr(sr.wconv(v)) for v in gen.flat(w)] for el, w in sorted(spec["weights"].items())},
                        implementation_output={})
            call = "fggs.sum_products(fgg, method=%r, semiring=%r)" % (method, sr)
            try:
                out = run_impl(spec, sr, method, ids=ids, rng=rng, via="both", patterned=patterned, history=hist, raw=case["implementation_output"])
            except Exception as e:
                violations.append(Violation("sum_products raised %r" % (e,), case=case,
                                            call=call, corr="corr:sum_products", oracle="no exception expected on a well-formed non-recursive FGG"))
                continue
            obs = sorted(out.items())
            bycf[sr.carrier()].append((gw, weights_wire(spec, sr), obs))
            meta[sr.carrier()].append((spec, sr, method, obs, case))
    # factor graphs through singleton_fgg
    for i in range(n // 4):
        spec = singleton_spec(rng, p_empty=0.3)
        for f in spec["features"]:
            if "empty" in f: feats["singleton:" + f] = feats.get("singleton:" + f, 0) + 1
        gw = grammar_wire(spec)
        for sr in CONFIGS:
            method = METHODS[(i + len(sr.name)) % 3]
            try:
                out = run_singleton(spec, sr, method)
            except Exception as e:
                violations.append(Violation("singleton_fgg/sum_product raised %r" % (e,), case=dict(spec=gen.spec_jsonable(spec), semiring=repr(sr), method=method, via="singleton_fgg"),
                                            call="sum_product(singleton_fgg(factor_graph))", corr="corr:singleton_fgg"))
                continue
            obs = sorted(out.items())
            bycf[sr.carrier()].append((gw, weights_wire(spec, sr), obs))
            meta[sr.carrier()].append((spec, sr, method + " via singleton_fgg", obs, None))
    total = 0
    nk = 0
    for k, vals in bycf.items():
        codes, n_k = run_model(CF[k], vals, seed=seed, coq_sample=12 if tier == "quick" else 60, tag="c01" + k)
        nk += n_k
        total += len(vals)
        for (spec, sr, method, obs, case), c in zip(meta[k], codes):
            if c == 0: continue
            case = case or dict(spec=gen.spec_jsonable(spec), semiring=repr(sr), method=method)
            call = "fggs.sum_products(fgg, method=%r, semiring=%r)" % (method, sr)
            if c == 1:
                violations.append(Violation("sum-product differs from the sum over derivations and assignments (Z_spec)", case=case,
                                            observed=obs, oracle="Ztab (= sum over derivation trees, theorem C01_Zk_is_tree_sum)", corr="C01 / corr:sum_products",
                                            call=call))
            elif c == 4:
                violations.append(Violation("an entry of sum_products is missing for some nonterminal", case=case, observed=obs,
                                            oracle="every nonterminal receives a value", corr="C01 / C19", call=call))
            elif c == 10:
                violations.append(Violation("sum-product agrees with the definition but differs from the code-shaped model", case=case, observed=obs,
                                            corr="corr:sum_products (Model.SumProduct.sum_products_nonrec)", failing_input_found=False, call=call))
            else:
                violations.append(Violation("framework inconsistency, verdict code %d" % c, case=case, observed=obs, corr="harness/model (code %d)" % c,
                                            failing_input_found=False, call=call))
    s0 = meta["real"][0] if meta["real"] else None
    cov = dict(evaluations=total, distinct_nontrivial=len(distinct),
               rule="random non-recursive FGG specs (harness/gen.py: <=4 nonterminals, <=3 rules each, <=5 nodes, <=4 edges, domain sizes 1-3, weights from {0,1/4,1/2,1,2,3,inf}, forced shapes with prob ~0.15) x {Real f64, Real f32, Log, Viterbi, Bool} x method rotating over fixed-point/newton/linear x explicit/implicit/mixed ids; a quarter of the grammars with sparse PatternedTensor weights (diagonal / expanded) where the values allow, a fifth built in two stages with a query in between (caches keyed on the grammar object); every entry of sum_products compared. PLUS (a) size-0 stream: the same generator with one node label given the EMPTY domain (its own label or the only one), nodes of it attached / unattached, internal / external, a forced unattached internal empty-domain node in about half the rules; also 30% of the singleton_fgg factor graphs; (b) layered stream (gen.layered_spec): few terminal labels reused on every level, nonterminals of arity 1-3 with mostly ONE rule and every node attached (their value is one einsum output that keeps the storage axes of the factors), parents mixing terminals and those nonterminals in random edge order, mostly non-zero weights; both streams rotate dense tensors / PatternedTensor weights whose default already is the semiring zero (-inf for Log/Viterbi, as PatternedTensor.log() gives) / sparse patterns, and a third of their cases is a HISTORY on one FGG object: built with other weights, queried, every factor's weights replaced in place through the FiniteFactor.weights setter, queried again (second answer observed); (c) magnitude stream (gen.magnitude_spec, read by _sp_util.MagSR): per node label a set of HOT values; EXTREME terminals whose hot entries are finite weights at the top / bottom of the dtype's range (Real float32 2^(+-100..120), float64 2^(+-800..960): one is representable, the product of two overflows / underflows; Viterbi and Log: log-weights +-2^1023*(1..1.5), the sum of two is +-inf; occasionally 0 / moderate / literal inf), KILLER terminals (0 on hot entries) and nonterminals (0 on hot entries by induction) so that every node of every rule is attached to a killer, 2-4 extreme / nonterminal edges per rule on <= 3 nodes (>= 3 factors on a node), edges in RANDOM order (zero before / between / after the overflowing pair: features mag:overflow_then_zero, mag:zero_then_overflow, mag:underflow_then_zero, ...), 1-3 nonterminals, dense / zero-default PatternedTensor weights, a quarter as a history (built with moderate weights, queried, weights replaced in place by the extreme ones); the exact value is a moderate rational and is judged by Ztab, nan reaches the oracle as the empty interval. distinct_nontrivial = distinct specs with >= 2 rules or a forced shape",
               feature_histogram=feats, size_histogram=stats, kernel_reevaluated=nk,
               samples=[dict(spec=gen.spec_jsonable(s0[0]), semiring=repr(s0[1]), method=s0[2], observed=s0[3])] if s0 else [],
               open_items=[
                   "proved (Props/C01.v): C01_rule_val_annihilated_terms / C01_rule_val_all_killed (a term with a zero factor is worth zero whatever the other factors, so the value of a rule is independent of the weights of annihilated terms), C01_rule_val_edge_order, C01_nan_rejected_real / _trop (the empty interval encoding nan is rejected for every exact value), C01_magnitude_example (f = g = [B,1], h = [0,1], B in {2^1000, inf, 2^-1000}, six edge orders: sp_check_real accepts 1, rejects nan and inf)",
                   "proved (Props/C01.v, generic in the semiring): C01_empty_domain_node_is_zero / C01_empty_domain_rules_Zk_zero / C01_isolated_internal_node_empty_domain (a node over an empty domain makes the rule -- and the code-shaped model's result -- zero), C01_shared_operand_independent (S(c) -> t(c) X(a,b), X(a,b) -> t(a) u(b): the variables of X are independent of the parent's), C01_check_oracle_sound (verdict 0 => observation accepted against Zk at #nonterminals), C01_Zk_is_tree_sum, C01_enum_trees_spec/NoDup, C02_kleene_is_bounded_depth, C01_Zk_stable, C01_rank_normalise, C01_nonrec_all_trees, C01_spe_eq_rule_val (+ _total_env, _none_is_zero, _body_eq), C01_sum_products_nonrec_Zk, C01_Ztab_is_Zk, C01_sum_products_eq_spec, shape corollaries; composed with C08 and C19 (Proofs/Instances_scc.v, Proofs/Instances.v): C01_nt_graph_closed (the nonterminal graph of every grammar is closed), C01_scc_order_accepted, C01_nonrecursive_iff_ranked, C01_end_to_end (+ _ranked) and the premise-free carrier instances C01_end_to_end_real / _viterbi / _bool, C01_real/_viterbi_sum_products_eq_spec, C01_real/_viterbi_Zk_is_tree_sum, C01_check_oracle_sound_trees and C01_real/_viterbi/_bool_check_oracle_sound(_trees) (verdict 0 => observation accepted against the sum over ALL derivation trees), C01_weights_keys_terminal",
                   "side condition of the end-to-end theorems: the keys of the weight table are terminals (C01_weights_keys_terminal: forallb (fun p => is_term G (fst p)) ws = true suffices); sp_check does not test it, the harness lists only weighted terminals, and a nonterminal key would surface as verdict 20 (see notes/GLUE.md)",
                   "open: the float kernels of torch (einsum, logsumexp) are compared numerically per case, not proved"])
    return cov, violations

def replay(path):
    r = json.load(open(path))
    c = r["case"]
    spec = gen.spec_from_json(c["spec"])
    sr = [s for s in CONFIGS if repr(s) == c["semiring"]][0]
    if c.get("stream") == "magnitude": sr = MagSR(sr)
    if "via singleton_fgg" in c["method"]:
        out = run_singleton(spec, sr, c["method"].split()[0])
    elif "build" in c:
        o = c["build"]
        hist = gen.spec_from_json(dict(c["spec"], weights=o["history"]))["weights"] if o.get("history") else None
        out = run_impl(spec, sr, c["method"], ids=o["ids"], rng=random.Random(0), patterned=o["patterned"], staged=o["staged"], history=hist)
    else:
        out = run_impl(spec, sr, c["method"])
    code = run_coq(CF[sr.carrier()], [(grammar_wire(spec), weights_wire(spec, sr), sorted(out.items()))], tag="replay")[0]
    print("observed", out, "verdict code", code)
    return 1 if code else 0

MANIFEST = dict(
    level="proof",
    text="Coq: the k-th Kleene iterate of the grammar's equations equals the semiring sum over derivation trees of depth <= k of the product of factor weights (any commutative semiring); the code-shaped model of sum_product_edges / F / SCC-ordered driver is tied to it; instances Real/Log (ereal), Viterbi (trop), Bool. Correspondence: every entry of fggs.sum_products on generated non-recursive FGGs (random, with size-0 domains, layered grammars whose nonterminal values share tensor storage with the factors, zero-default PatternedTensor weights, queries repeated on one object after in-place weight replacement, finite weights at the top / bottom of the float range in terms annihilated by a zero in every edge order) is compared inside Coq with both the code-shaped model and the brute-force definition.",
    note="Trusted: Coq kernel, extraction cross-checked by vm_compute, harness generators/canonicalisation; torch numerics compared within tolerance; open proof items listed in the evidence.",
    technique="Coq proof (sum over derivations = Kleene iterate) + model/implementation correspondence with the definition as oracle",
    design_ref="DESIGN.md section 6, C01")
