"""C16 -- graphs and grammars stay well formed under any sequence of API calls."""
import os, json, random, itertools, time
from harness.core import *
from harness.props import _c16_util as U
from harness.props._c16_util import EX, IM, node, elabel, edge, tolist

PID = "C16"
LEVEL = "proof"
API = CheckFn("api-seq", "Model.GraphAPI", "api_check", U.CaseT)
CHECKFNS = [API]
CORPUS = os.path.join(VERIF, "corpus", "C16.json")
ASSUMPTIONS = [
    "names (node-label names, edge-label names, explicit ids) are rendered as strings 'L<n>', 'X<n>', 'n<n>', 'd<n>'; the model treats them as naturals",
    "implicit ids (Python id(self)) are numbered in construction order; the harness keeps every Node/Edge alive so that CPython never re-uses an address",
    "FiniteDomain = its value list; FiniteFactor = its domains and a constant weight tensor (tag, a small natural: exact in float32; a tensor that is not constant is observed as 999, which no model state shows)",
    "in-place weight updates (UpdWeights) are: every entry := v (physical.fill_, copy_, physical[...] = v, the weights setter with a new tensor, w *= 0 then physical.add_) or every entry *= c (weights *= c, physical.mul_, weights *= PatternedTensor, weights /= 1/c for c = 1, 2, 4); the model ignores the route (via); domains are not mutated in place (no public API)",
    "HRGRule objects are only ever built by the harness immediately before add_rule (their fields are not reassigned); ext= is always given a tuple",
    "calls on a handle of the wrong class are modelled as 'OtherExc' (AttributeError) and generated only for method calls, not for attribute assignment",
]

NLS = [0, 1, 2]
ENAMES = [0, 1, 2, 3]
NIDS = [0, 1, 2, 3]
EIDS = [0, 1, 2]
DOMS = [[0, 1], [0, 1, 2]]
TAGS = [0, 1]
FILLS = [0, 1, 2, 3, 5, 7]      # WFill values
MULS = [0, 2, 3]                # WMul factors
MAX_TAG = 400                   # weights stay small integers (exact in float32; 999 = "not constant")
MAX_OBJS = 7

# ------------------------------------------------------------------------------- random sequences
class SeqGen:
    """Generates one operation sequence on line, looking at the observable state of the
    implementation to make most calls meaningful.  avoid=True steers clear of the one known
    finding that destroys well-formedness (mutating a graph that a grammar uses as a rhs), so
    that every later step is still judged by wf_b."""
    def __init__(self, rng, avoid, p_fail=0.3, focus=0.0):
        self.rng, self.avoid, self.p_fail, self.focus = rng, avoid, p_fail, focus
        self.ex = U.Exec()
        self.ops, self.trace = [], []
        self.obs = []
        self.intended_fail = 0
        self.pairs = []        # (original, copy) handles

    # -- helpers on the last observation (model-value form, tuples)
    def graphs(self): return [h for h, o in enumerate(self.obs) if o[0] == "ObsG"]
    def grammars(self): return [h for h, o in enumerate(self.obs) if o[0] == "ObsH"]
    def is_rhs(self, h):
        return any(o[0] == "ObsH" and any(r[1][1] == h for r in o[1][0][1]) for o in self.obs)
    def rand_label(self, name=None, term=None, ty=None):
        r = self.rng
        if name is None: name = r.choice(ENAMES)
        if term is None: term = r.random() < 0.5
        if ty is None: ty = [r.choice(NLS) for _ in range(r.choice([0, 1, 1, 2]))]
        return elabel(name, ty, term)
    def bound(self, h, name):
        for l in self.obs[h][1][1][1]:
            if U.el_name(l) == name: return l
        return None
    def consistent_label(self, h, l):
        b = self.bound(h, U.el_name(l))
        return b if b is not None else l
    def fresh_nid(self, g):
        present = {U.n_id(n) for n in g[0][1]}
        c = [s for s in NIDS if EX(s) not in present]
        return self.rng.choice(c) if c else None
    def node_arg(self, g, lab=None, bad=False):
        """a node argument carrying label lab (random if None)"""
        r = self.rng
        nodes = g[0][1]
        if bad:    # present id, other label (F11)
            cand = [n for n in nodes if U.n_id(n)[0] == "Explicit" and (lab is None or U.n_label(n) != lab)]
            if cand:
                n = r.choice(cand)
                l2 = lab if lab is not None else r.choice([x for x in NLS if x != U.n_label(n)])
                return ("NVal", node(l2, U.n_id(n)))
        same = [n for n in nodes if lab is None or U.n_label(n) == lab]
        x = r.random()
        if same and x < 0.55: return ("NVal", r.choice(same))
        if lab is None: lab = r.choice(NLS)
        s = self.fresh_nid(g)
        if s is not None and x < 0.85: return ("NVal", node(lab, EX(s)))
        return ("NFresh", lab)
    def idarg(self, g, pool, prefix_edges=True, fail=False):
        r = self.rng
        present = {U.e_id(e) for e in g[0][2]}
        if fail:
            c = [s for s in pool if EX(s) in present]
            if c: return ("IdStr", r.choice(c))
            return ("IdInt",)
        c = [s for s in pool if EX(s) not in present]
        if c and r.random() < 0.7: return ("IdStr", r.choice(c))
        return ("IdNone",)

    # -- op choice
    def choose(self):
        r = self.rng
        if self.focus and r.random() < self.focus:
            op = self.choose_weights()
            if op is not None: return op
        fail = r.random() < self.p_fail
        n = len(self.obs)
        if n == 0 or (n < MAX_OBJS and r.random() < (0.5 if n < 2 else 0.08)):
            k = r.random()
            if k < 0.3: return ("NewGraph",)
            if k < 0.55: return ("NewFactorGraph",)
            nm = "NewHRG" if k < 0.8 else "NewFGG"
            if fail:
                return (nm, r.choice([("SNone",), ("SLabel", self.rand_label(term=True))]))
            return (nm, r.choice([("SName", r.choice(ENAMES)), ("SLabel", self.rand_label(term=False))]))
        h = r.randrange(n)
        o = self.obs[h]
        if o[0] == "ObsG": return self.choose_graph(h, o[1], fail)
        return self.choose_grammar(h, o[1], fail)

    def choose_graph(self, h, g, fail):
        r = self.rng
        fg = g[0][0] == 1
        nodes, edges, ext = g[0][1], g[0][2], g[0][3]
        kinds = ["AddNode", "NewNode", "AddEdge", "AddEdge", "NewEdge", "NewEdge", "RemoveNode", "RemoveEdge",
                 "SetExt", "Copy", "AddNodeLabel", "AddEdgeLabel", "EqOp", "MkRule"]
        if fg: kinds += ["AddDomain", "NewFiniteDomain", "AddFactor", "NewFiniteFactor", "NewFiniteFactor", "UpdWeights", "UpdWeights"]
        elif fail and r.random() < 0.1: kinds = [r.choice(["AddDomain", "UpdWeights"])]
        k = r.choice(kinds)
        rhs = self.is_rhs(h)
        if self.avoid and rhs and k in ("AddEdge", "NewEdge", "SetExt"): k = "AddNode"
        if k == "AddNode":
            if fail and nodes:
                n = r.choice(nodes)
                if U.n_id(n)[0] == "Implicit": return ("AddNode", (h, ("NVal", n)))
                return ("AddNode", (h, ("NVal", node(r.choice(NLS), U.n_id(n)))))
            a = self.node_arg(g)
            if a[0] == "NVal" and a[1] in nodes: a = ("NFresh", r.choice(NLS))
            return ("AddNode", (h, a))
        if k == "NewNode":
            if fail:
                if nodes and r.random() < 0.6:
                    c = [U.n_id(n)[1] for n in nodes if U.n_id(n)[0] == "Explicit"]
                    if c: return ("NewNode", (h, r.choice(NLS), ("IdStr", r.choice(c))))
                return ("NewNode", (h, r.choice(NLS), ("IdInt",)))
            s = self.fresh_nid(g)
            return ("NewNode", (h, r.choice(NLS), ("IdStr", s) if s is not None and r.random() < 0.6 else ("IdNone",)))
        if k == "RemoveNode":
            att = [n for n in nodes if any(n in U.e_nodes(e) for e in edges) or n in ext]
            free = [n for n in nodes if n not in att]
            if fail or not free:
                x = r.random()
                if att and x < 0.6: return ("RemoveNode", (h, r.choice(att)))
                if att and x < 0.8:     # id of an attached node, other label
                    n = r.choice(att)
                    if U.n_id(n)[0] == "Explicit":
                        return ("RemoveNode", (h, node((U.n_label(n) + 1) % 3, U.n_id(n))))
                return ("RemoveNode", (h, node(r.choice(NLS), EX(r.choice(NIDS + [7])))))
            return ("RemoveNode", (h, r.choice(free)))
        if k == "AddEdge":
            l = self.rand_label()
            mode = r.choice(["dupid", "type", "clash", "idint"]) if fail else "ok"
            if mode != "clash": l = self.consistent_label(h, l)
            else:
                b = [x for x in g[1][1]]
                if b:
                    x = r.choice(b)
                    l = elabel(U.el_name(x), U.el_ty(x), not U.el_term(x)) if r.random() < 0.5 else \
                        elabel(U.el_name(x), list(U.el_ty(x)) + [r.choice(NLS)], U.el_term(x))
                    if len(U.el_ty(l)) > 2: l = elabel(U.el_name(x), [], U.el_term(x)) if U.el_ty(x) else l
            bad = r.random() < (0.3 if fail else 0.05)
            nas = [self.node_arg(g, lab, bad=bad and i == 0) for i, lab in enumerate(U.el_ty(l))]
            if mode == "type":
                if nas and r.random() < 0.5: nas = nas[:-1]
                else: nas = nas + [self.node_arg(g)]
            i = self.idarg(g, EIDS, fail=(mode in ("dupid", "idint")))
            if mode == "idint": i = ("IdInt",)
            return ("AddEdge", (h, l, nas, i))
        if k == "NewEdge":
            nm = r.choice(ENAMES)
            mode = r.choice(["dupid", "flags", "clash", "idint"]) if fail else "ok"
            b = self.bound(h, nm)
            bad = r.random() < (0.3 if fail else 0.05)
            if b is not None and mode != "clash":
                nas = [self.node_arg(g, lab, bad=bad and i == 0) for i, lab in enumerate(U.el_ty(b))]
                t = U.el_term(b)
            else:
                nas = [self.node_arg(g, None, bad=bad and i == 0) for i in range(r.choice([0, 1, 1, 2]))]
                t = r.random() < 0.5
            flags = (t, not t)
            if mode == "flags": flags = r.choice([(True, True), (False, False)])
            i = self.idarg(g, EIDS, fail=(mode in ("dupid", "idint")))
            if mode == "idint": i = ("IdInt",)
            return ("NewEdge", (h, nm, nas, flags[0], flags[1], i))
        if k == "RemoveEdge":
            if edges and not fail: return ("RemoveEdge", (h, r.choice(edges)))
            return ("RemoveEdge", (h, edge(elabel(0, [], True), [], EX(r.choice(EIDS + [7])))))
        if k == "SetExt":
            bad = fail or r.random() < 0.05
            nas = [self.node_arg(g, None, bad=bad and i == 0) for i in range(r.choice([0, 1, 1, 2] if not fail else [1, 2]))]
            return ("SetExt", (h, nas))
        if k == "Copy": return ("Copy", h)
        if k == "AddNodeLabel": return ("AddNodeLabel", (h, r.choice(NLS)))
        if k == "AddEdgeLabel":
            l = self.rand_label()
            if not fail: l = self.consistent_label(h, l)
            return ("AddEdgeLabel", (h, l))
        if k == "EqOp": return ("EqOp", (h, r.randrange(len(self.obs))))
        if k == "MkRule":
            ty = [U.n_label(n) for n in ext]
            if fail: return ("MkRule", (r.choice([elabel(r.choice(ENAMES), ty, True), elabel(r.choice(ENAMES), ty + [0], False)]), h))
            return ("MkRule", (elabel(r.choice(ENAMES), ty, False), h))
        return self.choose_interp(h, g[1], g[2], k, fail)

    def upd_weights(self, h, interp, fail=False):
        """an in-place update of the weights of a factor of object h that CHANGES them (so that
        sharing with another object shows), by a random route; tags stay small (exact floats)"""
        r = self.rng
        facs = [(nm, f[1][1]) for nm, f in interp[1]]
        if fail or not facs:
            un = [x for x in ENAMES + [9] if x not in dict(facs)]
            return ("UpdWeights", (h, r.choice(un), ("WFill", r.choice(FILLS)), r.randrange(8)))
        nm, tag = r.choice(facs)
        c = [("WFill", v) for v in FILLS if v != tag] + [("WMul", m) for m in MULS if tag * m != tag and tag * m <= MAX_TAG]
        if r.random() < 0.1: c = [("WFill", tag), ("WMul", 1)]       # an update that changes nothing
        return ("UpdWeights", (h, nm, r.choice(c), r.randrange(8)))

    def choose_weights(self):
        """the weights-focused chooser: build up objects that carry factors, copy them, update the
        weights of copies and originals in place, look (==) -- or None when nothing applies"""
        r = self.rng
        c = [h for h, o in enumerate(self.obs) if o[1][0][0] in (1, 3)]
        if not c:
            return r.choice([("NewFactorGraph",), ("NewFGG", ("SName", r.choice(ENAMES)))])
        withf = [h for h in c if self.obs[h][1][2][1]]
        paired = [h for h in withf if any(h in p for p in self.pairs)]
        x = r.random()
        if withf and x < 0.5:
            h = r.choice(paired if paired and r.random() < 0.7 else withf)
            return self.upd_weights(h, self.obs[h][1][2])
        if withf and x < 0.7 and len(self.obs) < MAX_OBJS:
            return ("Copy", r.choice(withf))
        h = r.choice(c)
        o = self.obs[h][1]
        doms = dict(o[2][0])
        terms = [l for l in o[1][1] if U.el_term(l) and U.el_name(l) not in dict(o[2][1])]
        if terms and all(x in doms for l in terms[:1] for x in U.el_ty(l)):
            return self.choose_interp(h, o[1], o[2], r.choice(["AddFactor", "NewFiniteFactor"]), False)
        if terms:
            return ("AddDomain", (h, r.choice([x for x in U.el_ty(terms[0]) if x not in doms]), list(r.choice(DOMS))))
        return ("AddEdgeLabel", (h, self.consistent_label(h, self.rand_label(term=True))))

    def choose_interp(self, h, views, interp, k, fail):
        r = self.rng
        doms = dict(interp[0])
        if k == "UpdWeights": return self.upd_weights(h, interp, fail)
        if k in ("AddDomain", "NewFiniteDomain"):
            un = [l for l in NLS if l not in doms]
            if (fail and doms) or not un: l = r.choice(list(doms) or NLS)
            else: l = r.choice(un)
            return (k, (h, l, list(r.choice(DOMS))))
        terms = [l for l in views[1] if U.el_term(l)]
        if k == "AddFactor":
            l = r.choice(terms) if terms and r.random() < 0.6 else self.consistent_label(h, self.rand_label(term=True))
            ds = [list(doms.get(x, r.choice(DOMS))) for x in U.el_ty(l)]
            if fail:
                m = r.choice(["nonterm", "arity", "dom", "clash"])
                if m == "nonterm": l = elabel(U.el_name(l), U.el_ty(l), False)
                elif m == "arity": ds = ds + [list(DOMS[0])]
                elif m == "dom" and ds: ds[0] = [x for x in DOMS if x != ds[0]][0]
                elif m == "clash": l = elabel(U.el_name(l), list(U.el_ty(l))[1:] if U.el_ty(l) else [0], True)
            return ("AddFactor", (h, l, ("Fac", (ds, r.choice(TAGS)))))
        # NewFiniteFactor
        allv = list(views[1])
        if fail or not terms:
            m = r.choice(["unknown", "shape", "any"])
            if m == "unknown" or not allv: return ("NewFiniteFactor", (h, r.choice(ENAMES + [9]), [], 0))
            l = r.choice(allv)
            shape = [len(doms.get(x, DOMS[0])) for x in U.el_ty(l)]
            if m == "shape": shape = shape + [2] if len(shape) < 2 else shape[:-1]
            return ("NewFiniteFactor", (h, U.el_name(l), shape, r.choice(TAGS)))
        l = r.choice(terms)
        return ("NewFiniteFactor", (h, U.el_name(l), [len(doms.get(x, DOMS[0])) for x in U.el_ty(l)], r.choice(TAGS)))

    def choose_grammar(self, h, g, fail):
        r = self.rng
        fgg = g[0][0] == 3
        kinds = ["AddRule", "AddRule", "NewRule", "NewRule", "SetStart", "AddNodeLabel", "AddEdgeLabel", "Copy", "EqOp"]
        if fgg: kinds += ["AddDomain", "NewFiniteDomain", "AddFactor", "NewFiniteFactor", "UpdWeights", "UpdWeights"]
        elif fail and r.random() < 0.05: kinds = ["UpdWeights"]
        k = r.choice(kinds)
        gs = self.graphs()
        if k in ("AddRule", "NewRule"):
            if not gs or (fail and r.random() < 0.1):
                return ("AddRule", (h, self.rand_label(term=False), r.randrange(len(self.obs))))
            gh = r.choice(gs)
            go = self.obs[gh][1]
            ty = [U.n_label(n) for n in go[0][3]]
            nm = r.choice(ENAMES)
            if k == "NewRule": return ("NewRule", (h, nm, gh))
            l = elabel(nm, ty, False)
            if fail:
                l = r.choice([elabel(nm, ty, True), elabel(nm, ty + [r.choice(NLS)], False), l])
            else:
                b = self.bound(h, nm)
                if b is not None and b != l:
                    free = [x for x in ENAMES if self.bound(h, x) in (None, elabel(x, ty, False))]
                    if free: l = elabel(r.choice(free), ty, False)
            return ("AddRule", (h, l, gh))
        if k == "SetStart":
            if fail:
                terms = [l for l in g[1][1] if U.el_term(l)]
                c = [("SNone",), ("SLabel", self.rand_label(term=True)), ("SLabel", self.rand_label(term=False))]
                if terms: c.append(("SName", U.el_name(r.choice(terms))))
                return ("SetStart", (h, r.choice(c)))
            if r.random() < 0.5: return ("SetStart", (h, ("SName", r.choice(ENAMES))))
            return ("SetStart", (h, ("SLabel", self.consistent_label(h, self.rand_label(term=False)))))
        if k == "AddNodeLabel": return ("AddNodeLabel", (h, r.choice(NLS)))
        if k == "AddEdgeLabel":
            l = self.rand_label()
            if not fail: l = self.consistent_label(h, l)
            return ("AddEdgeLabel", (h, l))
        if k == "Copy": return ("Copy", h)
        if k == "EqOp": return ("EqOp", (h, r.randrange(len(self.obs))))
        return self.choose_interp(h, g[1], g[2], k, fail)

    def push(self, op):
        res = self.ex.step(op)
        self.obs = self.ex.observe()
        self.ops.append(op); self.trace.append((res, self.obs))
        return res

    def eq_pair(self, h):
        """an == call involving h and one of its copies / its original (either order)"""
        c = [p for p in self.pairs if h in p]
        if not c: return None
        a, b = self.rng.choice(c)
        return ("EqOp", (a, b)) if self.rng.random() < 0.5 else ("EqOp", (b, a))

    def generate(self, length):
        while len(self.ops) < length:
            op = self.choose()
            if op[0] == "EqOp" and self.pairs and self.rng.random() < 0.6:
                op = self.eq_pair(self.rng.choice(self.pairs)[0])
            n0 = len(self.obs)
            res = self.push(op)
            if op[0] == "Copy" and res == ("ROk",):
                self.pairs.append((op[1], n0))
                # the copies of the rhs graphs pair up with their originals
                if self.obs[n0][0] == "ObsH":
                    for r0, r1 in zip(self.obs[op[1]][1][0][1], self.obs[n0][1][0][1]):
                        self.pairs.append((r0[1][1], r1[1][1]))
                if len(self.ops) < length: self.push(self.eq_pair(n0))
            elif op[0] != "EqOp" and len(op) > 1 and isinstance(op[1], tuple) and len(self.ops) < length \
                    and self.rng.random() < (0.7 if op[0] == "SetExt" else 0.35):
                e = self.eq_pair(op[1][0])       # after touching an object that has a copy: compare them
                if e is not None: self.push(e)
        return self.ops, self.trace

# ------------------------------------------------------------------------------- exhaustive sequences
def reduced_universe(tier):
    """operations over handle 0 (a graph) and handle 1 (a grammar)"""
    A, B = 0, 1
    ax, bx, ay = node(A, EX(0)), node(B, EX(0)), node(A, EX(1))
    fA, fB, XA, X0 = elabel(0, [A], True), elabel(0, [B], True), elabel(1, [A], False), elabel(1, [], False)
    ops = [
        ("AddNode", (0, ("NVal", ax))), ("AddNode", (0, ("NVal", bx))),
        ("AddEdge", (0, fA, [("NVal", ax)], ("IdStr", 0))),
        ("AddEdge", (0, fB, [("NVal", bx)], ("IdStr", 1))),
        ("NewEdge", (0, 0, [("NVal", ax), ("NFresh", B)], True, False, ("IdStr", 0))),
        ("SetExt", (0, [("NVal", ax)])), ("SetExt", (0, [("NVal", bx)])), ("SetExt", (0, [])),
        ("RemoveNode", (0, ax)),
        ("RemoveEdge", (0, edge(fA, [ax], EX(0)))),
        ("Copy", 0), ("Copy", 1), ("EqOp", (0, 2)),
        ("AddRule", (1, XA, 0)), ("NewRule", (1, 1, 0)), ("AddRule", (1, X0, 0)),
        ("AddEdgeLabel", (1, fB)),
    ]
    if tier != "quick":
        ops += [
            ("NewNode", (0, A, ("IdNone",))), ("AddEdge", (0, XA, [("NVal", ay)], ("IdNone",))),
            ("SetStart", (1, ("SName", 0))),
            ("RemoveNode", (0, bx)), ("EqOp", (1, 2)), ("SetStart", (1, ("SLabel", XA))), ("AddEdgeLabel", (0, fB)),
            ("AddNode", (0, ("NFresh", B))),
            ("NewEdge", (0, 1, [], False, True, ("IdNone",))),
            ("NewEdge", (0, 0, [("NVal", ay)], True, True, ("IdStr", 2))),
            ("RemoveNode", (0, ay)),
            ("AddNodeLabel", (1, 2)),
            ("AddDomain", (0, A, [0, 1])), ("AddDomain", (1, A, [0, 1])),
            ("NewFiniteFactor", (0, 0, [2], 1)), ("NewFiniteFactor", (1, 0, [2], 1)),
            ("AddFactor", (0, fA, ("Fac", ([[0, 1], [0, 1]], 0)))),
            ("MkRule", (XA, 0)),
        ]
    return ops

PREFIXES = [[("NewGraph",), ("NewHRG", ("SName", 2))], [("NewFactorGraph",), ("NewFGG", ("SName", 2))]]

def exhaustive(tier, maxlen=3):
    ops = reduced_universe(tier)
    for pre in PREFIXES:
        for n in range(1, maxlen + 1):
            for seq in itertools.product(ops, repeat=n):
                # EqOp / Copy of handle 2 only make sense once a copy exists; a missing handle would
                # be an IndexError on both sides, which is outside the modelled universe: skip
                ok = True; nobj = 2
                if tier == "quick" and pre is PREFIXES[1] and not any(op[0] == "Copy" for op in seq):
                    continue        # quick: the FactorGraph/FGG set-up only where it differs (copies)
                for op in seq:
                    if op[0] == "EqOp" and max(op[1]) >= nobj: ok = False; break
                    if op[0] == "Copy": nobj += 1      # at least
                if ok: yield pre + list(seq)

# --- exhaustive histories of copies and in-place weight updates
def weights_universe(tier):
    """after the set-up: handles 0 (FactorGraph) and 1 (FGG, one rule whose rhs is graph 2) both
    carry domain L0 and a factor X0 of constant weight 1; copies get the handles 3, 4, ..."""
    ups = [(("WFill", 5), 0), (("WMul", 2), 0), (("WFill", 3), 3)]
    if tier != "quick":
        ups = [(("WFill", 5), v) for v in range(U.Exec.N_FILL)] + [(("WMul", 2), v) for v in range(U.Exec.N_MUL)] \
              + [(("WFill", 0), 2), (("WMul", 0), 0)]
    ops = [("Copy", 0), ("Copy", 1)]
    for h in (0, 1, 3, 4, 5):    # 3 = the first copy; 4 / 5 = the second copy (or the copy of the rhs graph: raises)
        ops += [("UpdWeights", (h, 0, u, v)) for u, v in ups]
    if tier != "quick":
        ops += [("Copy", 3), ("UpdWeights", (4, 0, ("WFill", 5), 0)), ("UpdWeights", (0, 1, ("WFill", 5), 0)),
                ("NewFiniteFactor", (3, 1, [], 1)), ("EqOp", (0, 3)), ("EqOp", (1, 3))]
    return ops

def weights_prefix():
    A = 0
    fA = elabel(0, [A], True)
    return [("NewFactorGraph",), ("NewFGG", ("SName", 2)), ("NewGraph",), ("NewRule", (1, 1, 2)),
            ("AddDomain", (0, A, [0, 1])), ("AddDomain", (1, A, [0, 1])),
            ("AddFactor", (0, fA, ("Fac", ([[0, 1]], 1)))), ("AddFactor", (1, fA, ("Fac", ([[0, 1]], 1))))]

def exhaustive_weights(tier, maxlen=3):
    """every history of <= maxlen copies / in-place weight updates (at least one update) after the
    set-up; calls on handles that do not exist yet are left out"""
    ops = weights_universe(tier)
    pre = weights_prefix()
    for n in range(1, maxlen + 1):
        for seq in itertools.product(ops, repeat=n):
            kinds = ["FG", "FGG", "G"]; ok = True; upd = False
            for op in seq:
                hs = [op[1]] if op[0] == "Copy" else list(op[1][:2]) if op[0] == "EqOp" else [op[1][0]]
                if max(hs) >= len(kinds): ok = False; break
                if op[0] == "Copy": kinds += ["FGG", "G"] if kinds[op[1]] == "FGG" else [kinds[op[1]]]
                upd = upd or op[0] == "UpdWeights"
            if ok and upd: yield pre + list(seq)

# ------------------------------------------------------------------------------- corpus
def load_corpus():
    if not os.path.exists(CORPUS): return []
    out = []
    for c in json.load(open(CORPUS)):
        out.append(dict(name=c["name"], expect=c.get("expect"), ops=[U.fromjson(o) for o in c["ops"]]))
    return out

# ------------------------------------------------------------------------------- verdicts
def classify(code, ops, trace, origin):
    """code (non-zero) -> Violation"""
    kind, i = code % 16, code // 16
    ops_l = tolist(ops)
    case = dict(ops=ops_l[:i + 1], failing_step=i, origin=origin)
    if kind == 15 or i >= len(ops):
        return Violation("malformed case (harness bug)", case=case, corr="harness", failing_input_found=False)
    op = ops_l[i]
    res = tolist(trace[i][0])
    pre = tolist(trace[i - 1][1]) if i > 0 else []
    post = tolist(trace[i][1])
    call = "%s%s" % (op[0], json.dumps(op[1]) if len(op) > 1 else "()")
    text = U.CODE_TEXT.get(kind, "code %d" % kind)
    if kind in U.KNOWN:
        key, pred = U.KNOWN[kind]
        okp = False
        try: okp = bool(pred(op, res, pre))
        except Exception: okp = False
        if okp:
            return Violation("%s: %s" % (text, pred.__doc__.strip().replace("\n", " ")), case=case, observed=dict(result=res, after=post),
                             oracle="wf_b (Model.GraphAPI)", corr="C16_inv_step (guard_wf = alias_ok fails)",
                             call=call, finding_key=key)
        return Violation("%s, and the Coq guard blames the known class, but the harness predicate %s does not hold for this step"
                         % (text, pred.__name__), case=case, observed=dict(result=res, after=post), call=call,
                         oracle="wf_b", corr="C16_inv_step")
    if kind in (1, 5, 9):
        return Violation(text, case=case, observed=dict(result=res, before=pre, after=post),
                         oracle={1: "wf_b", 5: "atomicity (C16_failure_atomic)", 9: "frame_ok / copy_match (C16_frame, C16_copy_observe)"}[kind],
                         corr="C16_inv_step / C16_failure_atomic / C16_copy_observe", call=call)
    return Violation(text + " although no oracle rejects the implementation's state", case=case,
                     observed=dict(result=res, after=post), corr="corr:api-seq (Model.GraphAPI.step / observe)",
                     failing_input_found=False, call=call)

def nontrivial(ops, trace):
    """>= 3 calls, at least one successful mutation of a graph that has a node, and at least one raising call or copy"""
    if len(ops) < 3: return False
    has_node = any(o[0] == "ObsG" and o[1][0][1] for o in trace[-1][1])
    return has_node and any(r[0] == "RErr" or op[0] == "Copy" for op, (r, _) in zip(ops, trace))

def run(tier, seed):
    t0 = time.time()
    rng = random.Random(seed)
    violations = []
    cases = []      # (ops, trace, origin)
    crashes = 0
    def add(ops, origin):
        nonlocal crashes
        try:
            tr, _ = U.run_sequence(ops)
            cases.append((ops, tr, origin))
        except Exception as e:
            crashes += 1
            violations.append(Violation("harness/implementation crashed outside the modelled exceptions: %r" % (e,),
                                        case=dict(ops=tolist(ops), origin=origin), corr="harness", failing_input_found=False))
    corpus = load_corpus()
    for c in corpus: add(c["ops"], "corpus:" + c["name"])
    n_corpus = len(cases)
    n_exh = 0
    for ops in exhaustive(tier):
        add(ops, "exhaustive"); n_exh += 1
    n_wexh = 0
    for ops in exhaustive_weights(tier):
        add(ops, "exhaustive-weights"); n_wexh += 1
    n_rand = 700 if tier == "quick" else 40000
    hist = {}
    fails = steps = 0
    for i in range(n_rand):
        g = SeqGen(rng, avoid=(i % 10 < 6), focus=(0.6 if i % 3 == 2 else 0.0))
        try:
            ops, tr = g.generate(rng.randint(1, 40))
        except Exception as e:
            crashes += 1
            violations.append(Violation("harness/implementation crashed outside the modelled exceptions: %r" % (e,),
                                        case=dict(ops=tolist(g.ops), origin="random"), corr="harness", failing_input_found=False))
            continue
        cases.append((ops, tr, "random/%d%s%s" % (i, "/avoid" if g.avoid else "", "/weights" if g.focus else "")))
        for op, (r, _) in zip(ops, tr):
            hist[op[0]] = hist.get(op[0], 0) + 1
            steps += 1; fails += (r[0] == "RErr")
    vals = [(ops, tr) for ops, tr, _ in cases]
    codes, nk = run_model(API, vals, seed=seed, tag="apiseq", coq_sample=(10 if tier == "quick" else 60))
    code_hist = {}
    for (ops, tr, origin), c in zip(cases, codes):
        if c == 0: continue
        code_hist[c % 16] = code_hist.get(c % 16, 0) + 1
        violations.append(classify(c, ops, tr, origin))
    # corpus expectations: each corpus entry must still be classified as recorded
    for (ops, tr, origin), c, ce in zip(cases[:n_corpus], codes[:n_corpus], corpus):
        exp = ce["expect"]
        got = U.KNOWN[c % 16][0] if (c % 16) in U.KNOWN else (None if c == 0 else "code%d" % (c % 16))
        if exp != got:
            violations.append(Violation("corpus entry %s is now classified %r, recorded %r" % (ce["name"], got, exp),
                                        case=dict(ops=tolist(ops), origin=origin), corr="corpus", failing_input_found=False))
    distinct = len({repr(ops) for ops, tr, _ in cases if nontrivial(ops, tr)})
    lens = {}
    for ops, _, o in cases:
        if o.startswith("random"): lens[len(ops) // 10 * 10] = lens.get(len(ops) // 10 * 10, 0) + 1
    samp = [c for c in cases if c[2].startswith("random")]
    cov = dict(evaluations=len(cases), distinct_nontrivial=distinct,
               rule="operation sequences over the small universe (3 node labels, 4 edge-label names x terminal/nonterminal x arity 0-2, 4 explicit node ids, 3 explicit edge ids, implicit ids, 2 domains, 2 factor tags, in-place weight updates fill(v in %s) / mul(c in %s) by 9 Python routes): corpus of minimised failing sequences first; every sequence of <= 3 calls from a reduced universe of %d calls after 2 set-up calls (2 set-ups: Graph+HRG, FactorGraph+FGG; in the quick tier the second set-up only for sequences containing a copy); every history of <= 3 calls (at least one in-place weight update) from %d calls {Copy of the FactorGraph / of the FGG, weight update of the original, of the first and of the second copy by several routes incl. the setter} after a set-up that gives a FactorGraph and an FGG (with a rule) a domain and a factor each; random sequences of 1-40 calls, ~30%% of calls designed to raise (re-used node ids, clashing labels, wrong types, duplicate ids, unmapped domains, weight updates of unbound names / of objects without factors, ...), 60%% of the sequences steering clear of the one known well-formedness finding (mutating a graph used as a rule's rhs); every third random sequence is weights-focused (60%% of its calls build objects with factors, copy them and update the weights of copies and originals in place, preferring objects that have a copy; an update always changes the weights except 10%% no-op updates).  After EVERY call the full observable state of every live object and the result / exception kind are compared with the model and judged by wf_b, the atomicity oracle and the frame / copy oracle.  non-trivial = >= 3 calls, some graph ends up with a node, and some call raised or copied; distinct by the call sequence" % (FILLS, MULS, len(reduced_universe(tier)), len(weights_universe(tier))),
               exhaustive_part="%d sequences" % n_exh, exhaustive_weights_part="%d histories" % n_wexh,
               weights_focused_random_sequences=sum(1 for c in cases if c[2].endswith("/weights")), corpus_cases=n_corpus, random_sequences=n_rand,
               random_steps=steps, random_steps_raising=fails, op_histogram=hist, random_length_histogram=lens,
               verdict_code_histogram=code_hist, kernel_reevaluated=nk, harness_crashes=crashes,
               samples=[dict(ops=tolist(c[0]), results=[tolist(r) for r, _ in c[1]]) for c in samp[:2]],
               finding_predicates=sorted({k for k, _ in U.KNOWN.values()}),
               open_items=OPEN_ITEMS)
    return cov, violations

OPEN_ITEMS = [
    "guard_wf (= alias_ok) remains on C16_inv_step / C16_inv_reachable: HRG.add_rule keeps a reference to the caller's rhs graph (known finding c16_rule_rhs_alias_mutation, not repaired); all other statements (atomicity, copy incl. label tables, frame, ==) are unguarded",
    "C16_eq_refl/_sym/_trans are stated for families satisfying inv (the key-discipline-only versions graph_eqb_*/hrg_eqb_* are lemmas in Proofs/GraphAPI_eq.v)",
]

def replay(path):
    """exit 1 iff a violation reproduces; a case that only hits a known finding exits 0"""
    r = json.load(open(path))
    ops = [U.fromjson(o) for o in r["case"]["ops"]]
    tr, _ = U.run_sequence(ops)
    code = run_coq(API, [(ops, tr)], tag="replay")[0]
    for op, (res, _) in zip(ops, tr): print(tolist(op), "->", tolist(res))
    print("verdict code", code, "(kind %d at step %d)" % (code % 16, code // 16), U.CODE_TEXT.get(code % 16, ""))
    if code == 0:
        print("no violation"); return 0
    v = classify(code, ops, tr, "replay")
    known = [k for k in load_known() if k.get("property") == PID and k.get("status") == "known"]
    if v.finding_key is not None and any(v.finding_key == k.get("match", {}).get("predicate") for k in known):
        print("KNOWN-FINDING: property=%s %s" % (PID, v.finding_key)); return 0
    print("VIOLATION reproduces:", v.what)
    return 1

MANIFEST = dict(
    level="proof",
    text="Coq state-machine model of the construction/mutation API of fggs/fggs.py (Graph, FactorGraph, HRG, FGG; step/observe/wf_b) with theorems: well-formedness is an invariant of every call, successful or raising, except successful mutations of a graph that a grammar uses as a rule's rhs (explicit guard; refuted without it: the grammar keeps a reference to the caller's graph); every raising call leaves all objects unchanged (unconditional); a copy is ==, shows exactly what its original shows (label tables, domains, factors, rules) and is frame-independent of it, in-place updates of factor weights included (UpdWeights: the copy owns its weights; C16_copy_update_weights); == is an equivalence that separates objects differing in nodes, edges, ext, rules or start. The model is tied to /repo by running both on the same call sequences (corpus, exhaustive <= 3 calls, exhaustive copy / in-place-weight-update histories, random 1-40 calls) and comparing the full observable state and result after every call; the extracted wf_b / atomicity / frame / copy oracles judge every implementation state.",
    note="Trusted: Coq kernel + vm_compute, extraction cross-checked on a sample, the Python executor that maps names and id()s to naturals. One known defect of /repo (rule rhs aliasing) is reported as KNOWN-FINDING through a specific predicate; the six classes repaired in /repo (349378f, 80c0f78, 068b525, 6c89611) are regression-checked: a recurrence is a VIOLATION.",
    technique="Coq proof (state-machine model + invariants) + model/implementation correspondence with verified oracles",
    design_ref="DESIGN.md section 6, C16")
