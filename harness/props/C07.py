"""C07 -- patterned einsum equals the semiring einsum of the dense operands.

Correspondence (DESIGN.md section 6, C07): every case is an einsum signature (inputs, output), one typed
patterned tensor per operand (typed pattern generator of _c06_util; physical storage with arbitrary torch
strides, stride-0 = expanded dimensions, offsets), a semiring, requires_grad flags and the grad mode.
`fggs.indices.einsum(...).to_dense()` (and `PatternedTensor.mv/mm`, `log_viterbi_einsum_forward`) is run on
it; the extracted check function (Model/EinsumCheck.v) judges the result with the dense specification
`einsum_dense` applied to the brute-force denotations of the operands (exact carriers) and compares it with the
Gallina model `einsum_model` of the algorithm, including the decisions of `reduce_equation` (observed by a spy).
A second check function evaluates the certificate under which C07_patterned_eq_dense applies to the case.
Two further streams: (6) operands with an EMPTY physical axis inside a non-empty virtual extent (a + K(0) + b: all-default
tensors) with defaults that are mostly not the semiring's zero; (7) HISTORIES: several calls (einsum / mv / mm /
log_viterbi_einsum_forward) on the same operand objects, with in-place updates of their contents in between (writes
through the storage, physical.mul_/add_/logical_not_, neg_(), *=), or equal-looking replacement objects (same axes
objects and other contents; the same physical tensor under a new PatternedTensor, possibly with another default); every
call is judged by the same check functions on the operands' contents at the time of the call; (8) REFINEMENTS: indices of
product type (flat atom lists) that different operands see through different factorisations (12 = 2x2x3 as 12 / 2*6 / 4*3 /
2*2*3), mostly >= 3 operands in random order, block axes shared between two indices of one operand (vaxes (P*Q, Q)) and
between operands: unify has to split factors that an earlier unification has already bound."""
import itertools, math, random, json, warnings, traceback
from fractions import Fraction
from harness.core import *
from harness.props import _c06_util as U
from harness.props._c06_util import AxisT, PnT

PID = "C07"
LEVEL = "proof"
_IMP = ["Model.Axis", "Model.Einsum"]

def _wten(W):
    return Tup(List(PnT), List(Nat), Nat, List(AxisT), W, List(W), Bool)
def _wres(WO):
    return Tup(Nat, List(Nat), List(WO))
SpyT = Tup(Nat, List(Nat), List(List(Nat)))
def _case(W, WO):
    return Tup(List(_wten(W)), List(List(Nat)), List(Nat), Bool, Pos, _wres(WO), SpyT)

RealW, RealWO = Option(QQ), Option(Tup(QQ, QQ))
TropW = Tup(Nat, QQ)
REAL = CheckFn("c07-real", "Model.EinsumCheck", "einsum_check_real", _case(RealW, RealWO), imports=_IMP)
TROP = CheckFn("c07-trop", "Model.EinsumCheck", "einsum_check_trop", _case(TropW, TropW), imports=_IMP)
BOOL = CheckFn("c07-bool", "Model.EinsumCheck", "einsum_check_bool", _case(Bool, Bool), imports=_IMP)
VIT = CheckFn("c07-vit", "Model.EinsumCheck", "viterbi_check_trop",
              Tup(List(_wten(TropW)), List(List(Nat)), List(Nat), Bool, Pos, _wres(TropW), Tup(List(Nat), List(Nat))),
              imports=_IMP)
def _cert(W):
    return Tup(List(_wten(W)), List(List(Nat)), List(Nat), Pos)
CERT_REAL = CheckFn("c07-cert-real", "Model.EinsumCert", "einsum_cert_real", _cert(RealW), imports=_IMP)
CERT_TROP = CheckFn("c07-cert-trop", "Model.EinsumCert", "einsum_cert_trop", _cert(TropW), imports=_IMP)
CERT_BOOL = CheckFn("c07-cert-bool", "Model.EinsumCert", "einsum_cert_bool", _cert(Bool), imports=_IMP)
def _rcase(W, WO):
    return Tup(List(Tup(List(Tup(Pos, Nat, Nat)), Nat, List(W))), List(PnT), Tup(List(Nat), List(List(Nat))), _wres(WO))
RED_REAL = CheckFn("c07-reduce-real", "Model.EinsumCheck", "reduce_check_real", _rcase(RealW, RealWO), imports=_IMP)
RED_TROP = CheckFn("c07-reduce-trop", "Model.EinsumCheck", "reduce_check_trop", _rcase(TropW, TropW), imports=_IMP)
CERT_VIT = CheckFn("c07-cert-vit", "Model.EinsumCert", "viterbi_cert_trop", _cert(TropW), imports=_IMP)
CHECKFNS = [REAL, TROP, BOOL, VIT, CERT_REAL, CERT_TROP, CERT_BOOL, CERT_VIT, RED_REAL, RED_TROP]

ASSUMPTIONS = [
    "PhysicalAxis objects are numbered by the harness (uid); fresh axes made by the library (freshen, default_to, unification splits) are only required to be fresh",
    "torch_semiring_einsum (with the multiply callbacks of fggs.semirings) is the dense einsum the property refers to; the check compares its results with the exact-carrier specification, so a defect there would surface as a violation as well",
    "Real: float64 on small dyadic values (exact); Log: the operands are log(x) of dyadic x and the result is read through exp with relative tolerance 1e-9; Viterbi: integer log-weights and +-inf (exact); Bool exact",
    "the torch strides of the physical tensors are passed to the model as data (stride 0 = expanded dimension); storage is read through (offset, strides) exactly as torch does",
    "histories: the contents of an operand after an in-place update are computed by the harness (new values written, x2, +1, negation, logical not) independently of the library and handed to the check function as the operand of that call; an update is performed under torch.no_grad() on the storage tensor the physical tensor is a view of (or through PatternedTensor.neg_ / *= on operands without expanded dimensions)",
]

INF = math.inf
CERT_LIMIT = 4000      # the counting criterion enumerates all physical environments of all operands
SEMS = ["real", "log", "vit", "bool"]

# ---------------------------------------------------------------------------- signatures
def canon_inputs(max_ops=3, max_rank=3, max_labels=4, max_total=5):
    """all input lists up to renaming (labels numbered by first appearance)"""
    out = []
    def rec(ops, used, total):
        out.append(([list(o) for o in ops], used))
        if len(ops) == max_ops: return
        for r in range(0, min(max_rank, max_total - total) + 1):
            def words(i, w, u):
                if i == r:
                    yield list(w), u; return
                for l in range(min(u + 1, max_labels)):
                    yield from words(i + 1, w + [l], max(u, l + 1))
            for w, u in words(0, [], used):
                rec(ops + [w], u, total + r)
    rec([], 0, 0)
    return out

def all_signatures():
    """(inputs, output): <= 3 operands, <= 4 indices, operand rank <= 3 with <= 5 index positions in total,
    or rank <= 2 with any number of positions; output = every ordered selection of distinct indices"""
    seen = {}
    for ins, used in canon_inputs(max_total=5) + canon_inputs(max_rank=2, max_total=6):
        key = repr(ins)
        if key in seen: continue
        seen[key] = (ins, used)
    sigs = []
    for ins, used in seen.values():
        for k in range(used + 1):
            for out in itertools.permutations(range(used), k):
                sigs.append((ins, list(out)))
    return sigs

# ---------------------------------------------------------------------------- values
def gen_reals(n, rng):
    base = list(range(1, n + 1)); rng.shuffle(base)
    vals = [b / 4.0 if b <= 12 else (b % 12 + 1) / 4.0 for b in base]
    for sp in (0.0, 0.0, INF):
        if n and rng.random() < 0.4: vals[rng.randrange(n)] = sp
    return vals
def gen_ints(n, rng):
    vals = [float(rng.randint(-6, 6)) for _ in range(n)]
    for sp in (-INF, -INF, INF):
        if n and rng.random() < 0.4: vals[rng.randrange(n)] = sp
    return vals
def gen_vals(sem, n, rng):
    if sem == "bool": return [rng.random() < 0.55 for _ in range(n)]
    if sem == "vit": return gen_ints(n, rng)
    return gen_reals(n, rng)
def gen_default(sem, rng, p_zero=None):
    """p_zero = probability of the semiring's own zero (None: the historical 0.75 for Bool, 0.7 otherwise)"""
    if sem == "bool": return rng.random() < (0.25 if p_zero is None else 1.0 - p_zero)
    if p_zero is None: p_zero = 0.7
    if sem == "vit": return -INF if rng.random() < p_zero else rng.choice([0.0, 3.0, INF, -2.0])
    return 0.0 if rng.random() < p_zero else rng.choice([1.0, 2.5, INF, 0.25])

def to_torch_val(sem, x):
    if sem == "log": return -INF if x == 0 else (INF if x == INF else math.log(x))
    return x
def wire_val(sem, x):
    if sem == "bool": return bool(x)
    if sem == "vit": return (0, 0) if x == -INF else ((2, 0) if x == INF else (1, Fraction(x)))
    return None if x == INF else Fraction(x)
def wire_out(sem, y):
    """reading of an implementation result cell; raises ValueError on NaN"""
    if sem == "bool": return bool(y)
    y = float(y)
    if y != y: raise ValueError("nan")
    if sem == "vit": return (0, 0) if y == -INF else ((2, 0) if y == INF else (1, Fraction(y)))
    if sem == "real":
        if y == INF: return None
        return (Fraction(y), Fraction(y))
    if y == INF: return None
    if y == -INF: return (Fraction(0), Fraction(0))
    v = Fraction(math.exp(y)); eps = Fraction(1, 10 ** 9)
    return (v * (1 - eps), v * (1 + eps))

# ---------------------------------------------------------------------------- operands
def gen_operand(rng, types, pool, sem, p_bc=0.15, p_zero_default=None, vaxes=None, **kw):
    if vaxes is None: vaxes, pool = U.gen_pattern(types, rng, pool, **kw)
    paxes = U.fv_list(vaxes); rng.shuffle(paxes)
    sizes = [n for _, n in paxes]
    bc = [rng.random() < p_bc for _ in paxes]
    kept = [i for i in range(len(paxes)) if not bc[i]]
    order = kept[:]
    if rng.random() < 0.3: rng.shuffle(order)
    strides = [0] * len(paxes); acc = 1
    for i in reversed(order):
        strides[i] = acc; acc *= max(sizes[i], 1)
    off = rng.choice([0, 0, 0, 1, 2])
    nstore = off + sum((n - 1) * s for n, s in zip(sizes, strides) if n > 0) + 1
    d = gen_default(sem, rng, p_zero_default)
    return dict(types=types, vaxes=vaxes, paxes=paxes, strides=strides, offset=off, default=d,
                storage=gen_vals(sem, nstore, rng), rg=False), pool

def torch_dtype(sem):
    import torch
    return torch.bool if sem == "bool" else torch.float64

def build_operand(spec, sem, world, with_storage=False):
    import torch
    from fggs.indices import PatternedTensor
    paxes = tuple(world.phys(k, n) for k, n in spec["paxes"])
    vaxes = tuple(world.build(e) for e in spec["vaxes"])
    st = torch.tensor([to_torch_val(sem, x) for x in spec["storage"]], dtype=torch_dtype(sem))
    phys = st.as_strided([n for _, n in spec["paxes"]], spec["strides"], spec["offset"])
    if spec["rg"]: phys = phys.detach().requires_grad_(True)
    assert list(phys.stride()) == list(spec["strides"]) or phys.numel() <= 1 or 0 in phys.shape, (phys.stride(), spec["strides"])
    t = PatternedTensor(phys, paxes, vaxes, to_torch_val(sem, spec["default"]))
    return (t, st) if with_storage else t

def wire_operand(spec, sem):
    return (list(spec["paxes"]), list(spec["strides"]), spec["offset"], spec["vaxes"],
            wire_val(sem, spec["default"]), [wire_val(sem, x) for x in spec["storage"]], bool(spec["rg"]))

def semiring_of(sem):
    import torch
    from fggs.semirings import RealSemiring, LogSemiring, ViterbiSemiring, BoolSemiring
    if sem == "real": return RealSemiring(dtype=torch.float64)
    if sem == "log": return LogSemiring(dtype=torch.float64)
    if sem == "vit": return ViterbiSemiring(dtype=torch.float64)
    return BoolSemiring()

# ---------------------------------------------------------------------------- label types
_TYPES = None
def label_types():
    global _TYPES
    if _TYPES is None:
        ts = U.all_types()
        _TYPES = dict(small=[t for t in ts[1:] if U.tsize(t) <= 6], all=ts[1:], unit=("prod", []), zero=("atom", 0))
    return _TYPES

def zero_sum_types():
    """sum types with a zero-size summand: the virtual extent is non-zero although an axis that chooses the
    zero-size summand has NO physical element (a + K(0) + b, a + (K(0) x J(2)) + b, ...): such a tensor is
    all-default.  Summands of size 1 (unit leaves) are included in a third of them."""
    z = ("atom", 0)
    out = []
    for a in (0, 1, 2, 3):
        for b in (0, 1, 2, 3):
            if a + b < 2: continue
            parts = ([("atom", a)] if a else []) + [z] + ([("atom", b)] if b else [])
            out.append(("sum", parts))
    out.append(("sum", [("atom", 2), ("prod", [z, ("atom", 2)])]))
    out.append(("sum", [("prod", [("atom", 2), z]), ("atom", 3)]))
    out.append(("sum", [("sum", [z, ("atom", 2)]), ("atom", 2)]))
    out.append(("prod", [("sum", [z, ("atom", 2)]), ("atom", 2)]))
    return out

def has_nested_zero(spec):
    """some physical axis of size 0 although every dimension has a non-zero virtual extent"""
    return any(n == 0 for _, n in spec["paxes"]) and all(U.a_numel(e) > 0 for e in spec["vaxes"])

def gen_label_types(rng, nlabels, budget, feature=None):
    T = label_types()
    for _ in range(200):
        ts = []
        for _l in range(nlabels):
            c = rng.random()
            if c < 0.08: ts.append(T["unit"])
            elif c < 0.75: ts.append(rng.choice(T["small"]))
            else: ts.append(rng.choice(T["all"]))
        if feature == "zero" and nlabels: ts[rng.randrange(nlabels)] = T["zero"] if rng.random() < 0.7 else ("prod", [("atom", 0), ("atom", 2)])
        if feature == "unit" and nlabels: ts[rng.randrange(nlabels)] = T["unit"]
        if feature == "zero-nested" and nlabels:
            zs = zero_sum_types()
            ts[rng.randrange(nlabels)] = rng.choice(zs)
            if nlabels > 1 and rng.random() < 0.3: ts[rng.randrange(nlabels)] = rng.choice(zs)
        if math.prod(max(U.tsize(t), 1) for t in ts) <= budget: return ts
    return [("atom", 2)] * nlabels

def gen_case(rng, sig, sem, budget=300, feature=None, variant="einsum", p_zero_default=None):
    """a case = plain data, JSON-able"""
    if feature == "zero-nested":
        # keep drawing until some operand has an empty physical tensor inside a non-empty virtual shape
        c = None
        for _ in range(40):
            c = _gen_case(rng, sig, sem, budget, feature, variant, p_zero_default)
            if any(has_nested_zero(s) for s in c["ops"]): break
        return c
    return _gen_case(rng, sig, sem, budget, feature, variant, p_zero_default)

def _gen_case(rng, sig, sem, budget=300, feature=None, variant="einsum", p_zero_default=None):
    inputs, output = sig
    nl = 1 + max([l for w in inputs for l in w] + [-1])
    ltypes = gen_label_types(rng, nl, budget, feature)
    if feature == "freshen-skip":
        t1 = rng.choice([t for t in label_types()["small"] if U.tsize(t) <= 4])
        ltypes = [t1] * nl
    share_pool = (rng.random() < 0.3 or feature == "freshen") and feature != "freshen-skip"
    pool = U.Pool()
    ops = []
    kw = dict(p_phys=rng.choice([0.2, 0.35, 0.6, 0.9]), p_share=rng.choice([0.2, 0.4, 0.7]))
    if feature == "chain": kw = dict(p_phys=rng.choice([0.7, 0.9, 1.0]), p_share=rng.choice([0.0, 0.2]))
    if feature == "zero-nested": kw = dict(p_phys=rng.choice([0.1, 0.2, 0.35]), p_share=rng.choice([0.2, 0.4]))
    if p_zero_default is not None: kw["p_zero_default"] = p_zero_default
    for w in inputs:
        for _ in range(50):
            spec, pl = gen_operand(rng, [ltypes[l] for l in w], pool.copy() if share_pool else U.Pool(pool.next), sem,
                                   p_bc=0.5 if feature == "broadcast" else 0.12, **kw)
            if math.prod(max(n, 1) for _, n in spec["paxes"]) <= 64: break
        if share_pool: pool = pl
        else: pool.next = pl.next
        ops.append(spec)
    if feature == "freshen" and len(ops) >= 2:
        # the same tensor twice when the types allow it
        for i in range(1, len(ops)):
            if repr(ops[i]["types"]) == repr(ops[0]["types"]) and rng.random() < 0.6:
                ops[i] = dict(ops[0])
    genabled = True
    if sem != "bool" and (feature == "grad" or rng.random() < 0.25):
        for s in ops:
            if rng.random() < 0.6: s["rg"] = True
        genabled = False                      # called under torch.no_grad(), as SumProduct.forward does
    elif rng.random() < 0.3:
        genabled = False
    if sem == "vit" and variant == "vit" and feature != "posinf":
        # log_viterbi_einsum_forward computes inf + -inf = nan (finding F23): +inf only in its own stream
        for s in ops:
            s["storage"] = [4.0 if x == INF else x for x in s["storage"]]
            if s["default"] == INF: s["default"] = 4.0
    return dict(inputs=inputs, output=output, sem=sem, ops=ops, genabled=genabled, variant=variant, feature=feature)

# ---------------------------------------------------------------------------- stream (8): refinements of product indices
# An index of PRODUCT type p1 x p2 x ... x pk (a flat list of small atoms) may be seen by every operand through a
# different factorisation: any grouping of CONSECUTIVE atoms into blocks, one PhysicalAxis per block (12 = 2x2x3 seen
# as 12, 2*6, 4*3, 2*2*3).  Any two such groupings have a common refinement, so Axis.unify must succeed by SPLITTING
# the larger last factor (the branches m < n and m > n of its product loop) -- also when that factor is ALREADY BOUND
# by an earlier unification.  A block axis is shared (same PhysicalAxis object) between positions whose blocks have the
# same atom list: between two indices of one operand (vaxes (P*Q, Q)), between operands when the pool is shared.
REFINE_BASES = U.REFINE_BASES
_blk_type = U.blk_type
gen_refine_axis = U.gen_refine_axis

def gen_refine_ltypes(rng, nl, budget):
    """atom lists of the labels: the first is a base list, the others are mostly consecutive sub-lists of it (so that a
    block of one index can be the whole of another: a factor axis shared between two indices)"""
    for _ in range(200):
        base = rng.choice(REFINE_BASES)
        ls = [base]
        for _l in range(1, nl):
            c = rng.random()
            if c < 0.6:
                i = rng.randrange(len(base)); j = rng.randint(i + 1, len(base))
                ls.append(base[i:j])
            elif c < 0.85: ls.append(rng.choice(REFINE_BASES))
            else: ls.append([rng.choice([2, 3, 4])])
        rng.shuffle(ls)
        if math.prod(math.prod(l) for l in ls) <= budget: return ls
    return [[2, 2]] * nl

def gen_refine_sig(rng):
    """>= 3 operands (sometimes 2) of rank 1-2 over 1-3 indices, every index attached at least twice when possible"""
    nl = rng.choice([1, 2, 2, 3])
    nops = rng.choice([2, 3, 3, 3, 4])
    for _ in range(100):
        ins = [[rng.randrange(nl) for _ in range(rng.choice([1, 1, 2, 2, 3] if nl > 1 else [1, 1, 2]))] for _ in range(nops)]
        cnt = [sum(w.count(l) for w in ins) for l in range(nl)]
        if all(c >= 1 for c in cnt) and sum(c >= 2 for c in cnt) >= max(1, nl - 1) and sum(len(w) for w in ins) <= 7: break
    else:
        ins = [[l % nl] for l in range(max(nops, nl))]
    out = rng.sample(range(nl), rng.randint(0, nl))
    return ins, out

def gen_refine_case(rng, sem, variant="einsum", budget=300, grad=False):
    inputs, output = gen_refine_sig(rng)
    nl = 1 + max(l for w in inputs for l in w)
    ltypes = gen_refine_ltypes(rng, nl, budget)
    share_pool = rng.random() < 0.35
    pool = U.Pool(); ops = []
    p_split = rng.choice([0.3, 0.5, 0.7]); p_share = rng.choice([0.3, 0.5, 0.8])
    for w in inputs:
        for _ in range(50):
            pl = pool.copy() if share_pool else U.Pool(pool.next)
            vaxes = [gen_refine_axis(ltypes[l], pl, rng, p_split, p_share) for l in w]
            spec, _ = gen_operand(rng, [_blk_type(ltypes[l]) for l in w], pl, sem, p_bc=0.1, p_zero_default=0.75, vaxes=vaxes)
            if math.prod(max(n, 1) for _, n in spec["paxes"]) <= 64: break
        if share_pool: pool = pl
        else: pool.next = pl.next
        ops.append(spec)
    genabled = True
    if sem != "bool" and (grad or rng.random() < 0.25):
        for s in ops:
            if rng.random() < 0.6: s["rg"] = True
        genabled = False
    elif rng.random() < 0.3: genabled = False
    if sem == "vit" and variant == "vit":
        for s in ops:
            s["storage"] = [4.0 if x == INF else x for x in s["storage"]]
            if s["default"] == INF: s["default"] = 4.0
    return dict(inputs=inputs, output=output, sem=sem, ops=ops, genabled=genabled, variant=variant, feature="refine",
                ltypes=ltypes)

def refine_profile(case):
    """(some index is seen through >= 2 different factorisations, some operand shares a factor axis between two of its indices)"""
    seen = {}
    for w, s in zip(case["inputs"], case["ops"]):
        for l, e in zip(w, s["vaxes"]):
            seen.setdefault(l, set()).add(tuple(n for _, n in ([e[1]] if e[0] == "Phys" else [x[1] for x in e[1]])))
    differ = any(len(v) > 1 for v in seen.values())
    shared = False
    for s in case["ops"]:
        per = [set(U.a_fv(e)) for e in s["vaxes"]]
        if any(per[i] & per[j] for i in range(len(per)) for j in range(i + 1, len(per))): shared = True
    return differ, shared

def has_both_infs(case):
    vals = [x for s in case["ops"] for x in list(s["storage"]) + [s["default"]]]
    return any(x == INF for x in vals) and (any(x == -INF for x in vals) or case["sem"] == "vit")

def next_uid(case):
    m = 0
    for s in case["ops"]:
        for k, _ in s["paxes"] + U.fv_list(s["vaxes"]): m = max(m, k)
    return m + 1

# ---------------------------------------------------------------------------- running the implementation
class Spy:
    def __init__(self): self.rec = None
    def install(self):
        from fggs import indices, equation
        if getattr(indices, "_c07_spy", None) is None:
            orig = equation.reduce_equation
            def wrapper(compiled, tensors):
                r = orig(compiled, tensors)
                sp = indices._c07_spy
                if sp is not None:
                    sp.rec = (1, [int(i) for i in r[2]], [[int(n) for n in t.shape] for t in r[0]])
                return r
            indices.reduce_equation = wrapper
        indices._c07_spy = self
SPY = Spy()

def run_impl(case):
    """returns (result wire, spy wire, pointer wire or None, exception text or None, operands changed)"""
    world = U.World()
    built = [build_operand(s, case["sem"], world, with_storage=True) for s in case["ops"]]
    return call_impl(case, [t for t, _ in built], [st for _, st in built])

def call_impl(case, ts, sts=None):
    """one call of the implementation on already built operand objects `ts` (`sts`: the storage tensors their
    physical tensors are views of; snapshotted in full before the call and compared afterwards)"""
    import torch
    from fggs import indices
    sem = case["sem"]
    before = [(t.physical, t.physical.detach().clone(), t.paxes, t.vaxes, t.default, tuple(t.physical.stride()), t.physical.storage_offset()) for t in ts]
    before_st = [st.detach().clone() for st in (sts or [])]
    sr = semiring_of(sem)
    SPY.install(); SPY.rec = None
    variant = case["variant"]
    ptr = None; exc = None
    try:
        with warnings.catch_warnings():
            warnings.simplefilter("ignore")
            ctx = torch.enable_grad() if case["genabled"] else torch.no_grad()
            with ctx:
                if variant == "einsum":
                    r = indices.einsum(ts, case["inputs"], case["output"], sr)
                elif variant == "mv":
                    r = ts[0].mv(ts[1], sr)
                elif variant == "mm":
                    r = ts[0].mm(ts[1], sr)
                else:
                    r, p = indices.log_viterbi_einsum_forward(ts, case["inputs"], case["output"], sr)
                    pd = p.to_dense()
                    ptr = ([int(n) for n in pd.shape], [int(x) for x in pd.flatten().tolist()])
                d = r.to_dense().detach()
        res = (0, [int(n) for n in d.shape], [wire_out(sem, y) for y in d.flatten().tolist()])
    except KeyError as e:
        res = (1, [], []); exc = repr(e)
    except Exception as e:
        res = (2, [], []); exc = repr(e) + " " + traceback.format_exc()[-600:]
    spy = SPY.rec if SPY.rec is not None else (0, [], [])
    # the operands must be unchanged: same physical tensor object, same contents (the whole storage, not only the
    # view), same strides / offset, same axes objects, same default
    changed = False
    for t, (ph, p0, pa, va, d0, str0, off0) in zip(ts, before):
        if t.physical is not ph or not U.same(t.physical.detach(), p0) or t.paxes is not pa or t.vaxes is not va or not (t.default == d0) \
           or tuple(t.physical.stride()) != str0 or t.physical.storage_offset() != off0:
            changed = True
    for st, s0 in zip(sts or [], before_st):
        if not U.same(st.detach(), s0): changed = True
    return res, spy, ptr, exc, changed

# ---------------------------------------------------------------------------- histories of calls on the same objects
HOWS = ("copy", "scale", "neg", "imul", "fresh", "alias", "alias-default")

def upd_values(sem, how, spec, rng):
    """(new storage, new default) of an in-place update, computed by the harness independently of the library"""
    st, d = spec["storage"], spec["default"]
    if how in ("copy", "fresh", "alias", "alias-default"):
        new = gen_vals(sem, len(st), rng)
        if sem == "vit": new = [4.0 if x == INF else x for x in new]          # +inf only in the F23 stream
        nd = d
        if how == "alias-default":
            for _ in range(20):
                nd = gen_default(sem, rng, 0.3)
                if sem == "vit" and nd == INF: nd = 4.0
                if nd != d: break
        return new, nd
    if how == "scale":
        if sem == "bool": return [not x for x in st], d
        if sem == "vit": return [x + 1.0 for x in st], d                      # physical.add_(1.)
        return [x * 2.0 for x in st], d                                        # Real: mul_(2.); Log: add_(log 2)
    if how == "neg":    return [-x for x in st], -d                            # PatternedTensor.neg_ (Viterbi only)
    if how == "imul":   return [x * 2.0 for x in st], d * 2.0                  # t *= 2. (Real, Viterbi)
    raise ValueError(how)

def how_allowed(sem, how, spec):
    plain = 0 not in spec["strides"] or not spec["paxes"]                      # torch refuses in-place ops on expanded views
    if how == "neg":  return sem == "vit" and plain
    if how == "imul": return sem in ("real", "vit") and plain
    return True

def gen_history(rng, case, ncalls):
    """steps[0] = the first call; every later step updates at least one operand IN PLACE (through the storage its
    physical tensor views, through physical.mul_/add_, neg_(), *=) or replaces the operand object by an equal-looking one
    (same axes objects, other contents; or the same physical tensor under a new PatternedTensor, possibly with another
    default), then calls again -- possibly through the other entry point"""
    sem = case["sem"]; n = len(case["ops"])
    def variants(cur):
        vs = ["einsum"]
        if case["inputs"] == [[0, 1], [1]] and case["output"] == [0]: vs += ["mv", "mv"]
        if case["inputs"] == [[0, 1], [1, 2]] and case["output"] == [0, 2]: vs += ["mm", "mm"]
        # log_viterbi_einsum_forward computes inf + -inf = nan (finding F23): not after +inf appeared
        if sem == "vit" and not any(x == INF for sp in cur for x in list(sp["storage"]) + [sp["default"]]): vs += ["vit"]
        return vs
    steps = [dict(variant=case["variant"], updates=[None] * n)]
    cur = [dict(sp) for sp in case["ops"]]
    for _ in range(ncalls - 1):
        ups = [None] * n
        idx = [i for i in range(n) if rng.random() < 0.6] or [rng.randrange(n)]
        for i in idx:
            how = rng.choice([h for h in HOWS if how_allowed(sem, h, cur[i])])
            new, nd = upd_values(sem, how, cur[i], rng)
            ups[i] = dict(how=how, storage=new, default=nd)
            cur[i] = dict(cur[i], storage=new, default=nd)
        steps.append(dict(variant=rng.choice(variants(cur)), updates=ups))
    return steps

def apply_update(sem, how, t, st, spec_new, world):
    """performs the update on the library objects; returns the (possibly new) operand object and storage tensor"""
    import torch
    from fggs.indices import PatternedTensor
    with torch.no_grad():
        if how == "copy":
            st.copy_(torch.tensor([to_torch_val(sem, x) for x in spec_new["storage"]], dtype=torch_dtype(sem)))
        elif how == "scale":
            if sem == "bool": st.logical_not_()
            elif sem == "vit": st.add_(1.0)
            elif sem == "log": st.add_(math.log(2.0))
            else: st.mul_(2.0)
        elif how == "neg": t.neg_()
        elif how == "imul": t *= 2.0
        elif how == "fresh":
            return build_operand(spec_new, sem, world, with_storage=True)
        elif how in ("alias", "alias-default"):
            st.copy_(torch.tensor([to_torch_val(sem, x) for x in spec_new["storage"]], dtype=torch_dtype(sem)))
            return PatternedTensor(t.physical, t.paxes, t.vaxes, to_torch_val(sem, spec_new["default"])), st
    return t, st

def run_history(case, upto=None):
    """runs the calls of case["history"] on the same operand objects; yields (derived case, res, spy, ptr, exc, changed)
    per call, the derived case carrying the operands' CURRENT contents (what the check function judges the call by)"""
    sem = case["sem"]
    world = U.World()
    specs = [dict(sp) for sp in case["ops"]]
    objs = [build_operand(sp, sem, world, with_storage=True) for sp in specs]
    base = dict(case); base.pop("history", None)
    for k, step in enumerate(case["history"]):
        if upto is not None and k > upto: return
        for i, u in enumerate(step["updates"]):
            if u is None: continue
            specs[i] = dict(specs[i], storage=list(u["storage"]), default=u["default"])
            objs[i] = apply_update(sem, u["how"], objs[i][0], objs[i][1], specs[i], world)
        derived = dict(base, ops=[dict(sp) for sp in specs], variant=step["variant"], call=k,
                       feature="history", hist_base=dict(case, ops=[dict(sp) for sp in case["ops"]]))
        res, spy, ptr, exc, changed = call_impl(derived, [o[0] for o in objs], [o[1] for o in objs])
        yield derived, res, spy, ptr, exc, changed

def wire_case(case, res, spy, ptr):
    sem = case["sem"]
    wts = [wire_operand(s, sem) for s in case["ops"]]
    if case["variant"] == "vit":
        return (wts, case["inputs"], case["output"], case["genabled"], next_uid(case), res, ptr or ([], []))
    return (wts, case["inputs"], case["output"], case["genabled"], next_uid(case), res, spy)

def checkfn_of(case):
    if case["variant"] == "vit": return VIT
    return {"real": REAL, "log": REAL, "vit": TROP, "bool": BOOL}[case["sem"]]
def certfn_of(case):
    return {"real": CERT_REAL, "log": CERT_REAL, "vit": CERT_TROP, "bool": CERT_BOOL}[case["sem"]]

VERDICTS = {1: "result has the wrong shape", 2: "result differs from the semiring einsum of the dense operands",
            3: "exception (or NaN) where the dense einsum is defined", 4: "pointer tensor has the wrong shape",
            5: "a pointer tuple does not attain the reported maximum (argmax_ok)",
            10: "shape differs from the model", 11: "values differ from the model", 12: "model to_dense failed",
            13: "model failed (fuel / KeyError)", 14: "reduce_equation called / not called unlike the model",
            15: "unsqueeze_index differs from the model", 16: "shapes of the reduced views differ from the model",
            17: "the model's own pointers fail argmax_ok", 20: "malformed wire tensor", 21: "malformed signature"}

def nontrivial(case):
    if case.get("variant") == "reduce":
        return any(d[2] == 0 or d[1] == 1 for v in case["views"] for d in v["dims"])
    for s in case["ops"]:
        if any(e[0] != "Phys" for e in s["vaxes"]): return True
        if len({e[1][0] for e in s["vaxes"]}) < len(s["vaxes"]): return True
        if 0 in s["strides"] and s["paxes"]: return True
    return False

def is_dup_output(case):
    return len(set(case["output"])) < len(case["output"])

# ---------------------------------------------------------------------------- reduce_equation called directly
def gen_reduce_case(rng, sem):
    """strided torch tensors (stride-0 and size-1 dimensions, summed or not) and an equation over them"""
    nv = rng.randint(1, 4)
    sizes = [rng.choice([1, 1, 2, 3, 2]) for _ in range(nv)]
    views = []
    for _ in range(rng.randint(1, 3)):
        vars_ = rng.sample(range(nv), rng.randint(0, min(nv, 3)))
        dims = []; acc = 1
        for v in reversed(vars_):
            st = 0 if rng.random() < 0.3 else acc
            if st: acc *= sizes[v]
            dims.insert(0, (v + 1, sizes[v], st))
        off = rng.choice([0, 0, 1])
        n = off + sum((m - 1) * st for _, m, st in dims) + 1
        views.append(dict(dims=dims, offset=off, storage=gen_vals(sem, n, rng)))
    used = sorted({d[0] for v in views for d in v["dims"]})
    if rng.random() < 0.6: out = list(used)
    else: out = rng.sample(used, rng.randint(0, len(used)))
    rng.shuffle(out)
    return dict(sem=sem, views=views, out=[(k, sizes[k - 1]) for k in out], variant="reduce")

def run_reduce_impl(case):
    import torch, torch_semiring_einsum
    from fggs.equation import reduce_equation, post_einsum
    sem = case["sem"]; sr = semiring_of(sem)
    ts = []
    for v in case["views"]:
        st = torch.tensor([to_torch_val(sem, x) for x in v["storage"]], dtype=torch_dtype(sem))
        ts.append(st.as_strided([d[1] for d in v["dims"]], [d[2] for d in v["dims"]], v["offset"]))
    eq = ",".join("".join(chr(96 + d[0]) for d in v["dims"]) for v in case["views"]) + "->" + "".join(chr(96 + k) for k, _ in case["out"])
    exc = None; spy = ([], [])
    try:
        compiled = torch_semiring_einsum.compile_equation(eq)
        rv, req, unsq, oshape = reduce_equation(compiled, ts)
        spy = ([int(i) for i in unsq], [[int(n) for n in t.shape] for t in rv])
        out = post_einsum(sr.einsum(req, *rv), unsq, oshape)
        res = (0, [int(n) for n in out.shape], [wire_out(sem, y) for y in out.flatten().tolist()])
    except Exception as e:
        res = (2, [], []); exc = repr(e) + " " + traceback.format_exc()[-400:]
    wv = [([(d[0], d[1], d[2]) for d in v["dims"]], v["offset"], [wire_val(sem, x) for x in v["storage"]]) for v in case["views"]]
    return (wv, [tuple(kn) for kn in case["out"]], spy, res), exc

# ---------------------------------------------------------------------------- driver
def make_cases(tier, seed):
    rng = random.Random(seed * 7907 + 7)
    quick = tier == "quick"
    sigs = all_signatures()
    n_sigs = len(sigs)
    cases = []
    def add(sig, sem, **kw):
        cases.append(gen_case(rng, sig, sem, **kw))
    # (1) the enumerated signatures: all of them in thorough, a sample in quick
    pick = sigs if not quick else rng.sample(sigs, 450)
    for i, sig in enumerate(pick):
        add(sig, SEMS[(i + seed) % 4], budget=200 if not quick else 300)
        if not quick: add(sig, SEMS[(i + seed + 2) % 4], budget=150)
    # (2) forced features on random enumerated signatures
    nf = 45 if quick else 1500
    for feature in ("broadcast", "freshen", "zero", "unit", "grad"):
        for i in range(nf):
            sig = rng.choice(sigs)
            if feature == "zero" and not sig[0]: continue
            add(sig, SEMS[i % 4], feature=feature)
    # (3) exhaustive patterns at small size: "i,i->" / "i,i->i" / "ij,j->i" over every pair of axes of small types
    small = [t for t in label_types()["small"] if U.tsize(t) <= 6]
    exh = []
    for t in small:
        axes = [a for a, _ in U.enum_axes(t, U.Pool())]
        for a in axes:
            for b in axes:
                exh.append((t, a, b))
    if quick and len(exh) > 110: exh = rng.sample(exh, 110)
    def shift(e, k):
        if e[0] == "Phys": return ("Phys", (e[1][0] + k, e[1][1]))
        if e[0] == "Prod": return ("Prod", [shift(x, k) for x in e[1]])
        return ("Sum", (e[1][0], shift(e[1][1], k), e[1][2]))
    for j, (t, a, b) in enumerate(exh):
        sem = SEMS[j % 4]
        c = gen_case(rng, ([[0], [0]], [0] if j % 2 else []), sem)
        for s, ax in zip(c["ops"], ([a], [shift(b, 20)])):
            s["types"] = [t]; s["vaxes"] = ax; s["paxes"] = U.fv_list(ax)
            sizes = [n for _, n in s["paxes"]]
            st = [0] * len(sizes); acc = 1
            for i in reversed(range(len(sizes))): st[i] = acc; acc *= sizes[i]
            s["strides"] = st; s["offset"] = 0; s["storage"] = gen_vals(sem, max(acc, 1), rng)
            s["default"] = gen_default(sem, rng) if rng.random() < 0.3 else {"bool": False, "vit": -INF}.get(sem, 0.0)
        c["feature"] = "exhaustive-pair"
        cases.append(c)
    # (4) the empty operand list, mv / mm, the Viterbi variant, repeated output indices
    for sem in SEMS: cases.append(dict(inputs=[], output=[], sem=sem, ops=[], genabled=True, variant="einsum", feature="empty"))
    cases.append(dict(inputs=[], output=[], sem="vit", ops=[], genabled=True, variant="vit", feature="empty"))
    for i in range(30 if quick else 1000):
        c = gen_case(rng, ([[0, 1], [1]], [0]), SEMS[i % 4]); c["variant"] = "mv"; cases.append(c)
        c = gen_case(rng, ([[0, 1], [1, 2]], [0, 2]), SEMS[i % 4], budget=200); c["variant"] = "mm"; cases.append(c)
    for i in range(180 if quick else 8000):
        sig = rng.choice(sigs)
        cases.append(gen_case(rng, sig, "vit", variant="vit", feature=rng.choice([None, None, "broadcast", "unit", "zero", "grad", "freshen", "posinf"]) if sig[0] else None))
    with_out = [s for s in sigs if s[1]]
    for i in range(36 if quick else 600):
        ins, out = rng.choice(with_out)
        out = out + [rng.choice(out)]
        if rng.random() < 0.4: rng.shuffle(out)
        if i % 3 == 0: cases.append(gen_case(rng, (ins, out), SEMS[i % 4], variant="einsum", feature="dup-output"))
        else: cases.append(gen_case(rng, (ins, out), "vit", variant="vit", feature="dup-output"))
    # (4') an index with >= 4 attachments (chains of bound axes in the substitution; 4-5 operands)
    for i in range(40 if quick else 1200):
        nops = rng.choice([3, 4, 4, 5])
        ins = [[0] + ([1] if rng.random() < 0.3 else []) for _ in range(nops)]
        if nops == 3: ins = [[0, 0], [0] + ([1] if rng.random() < 0.5 else []), [0, 0] if rng.random() < 0.5 else [0, 1, 0]]
        used = 1 + max(l for w in ins for l in w)
        out = rng.sample(range(used), rng.randint(0, used))
        var = "vit" if i % 5 == 4 else "einsum"
        c = gen_case(rng, (ins, out), "vit" if var == "vit" else SEMS[i % 4], budget=60, variant=var, feature="chain")
        cases.append(c)
    # (4'') the third operand shares its physical axes with the first one but not with the second
    for i in range(40 if quick else 1000):
        a = rng.choice([[0], [0, 1], [0, 0], [0, 1, 2], [1, 0]])
        mid = rng.choice([[1], [0], [2], [1, 2], [0, 2], []])
        # the third operand is the first tensor again, under other index labels (all labels get the same type)
        a2 = rng.choice([list(a), list(reversed(a)), [(l + 1) % 3 for l in a], [2 - l for l in a], [1] * len(a)])
        ins = [list(a), mid, a2]
        present = sorted({l for w in ins for l in w})
        out = rng.sample(present, rng.randint(0, len(present)))
        var = "vit" if i % 6 == 5 else "einsum"
        c = gen_case(rng, (ins, out), "vit" if var == "vit" else SEMS[i % 4], variant=var, feature="freshen-skip")
        c["ops"][2] = dict(c["ops"][0])
        if rng.random() < 0.5: c["ops"][2]["storage"] = list(reversed(c["ops"][0]["storage"]))
        cases.append(c)
    # (5) larger random signatures (up to 3 operands of rank 3)
    for i in range(50 if quick else 4000):
        nops = rng.choice([1, 2, 2, 3, 3]); used = 0; ins = []
        for _ in range(nops):
            w = []
            for _ in range(rng.choice([1, 2, 2, 3, 3])):
                l = rng.randrange(min(used + 1, 4)); used = max(used, l + 1); w.append(l)
            ins.append(w)
        k = rng.randint(0, used); out = rng.sample(range(used), k)
        add((ins, out), SEMS[i % 4], budget=250)
    # (6) an EMPTY physical axis inside a non-empty virtual extent (a + K(0) + b, ...): the operand is all-default, which
    # is the semiring's zero only if its default is; defaults differ from the semiring's zero in most of these
    nonempty = [s for s in sigs if s[0]]
    for i in range(70 if quick else 2500):
        var = "vit" if i % 6 == 5 else "einsum"
        sem = "vit" if var == "vit" else SEMS[i % 4]
        r = i % 10
        if r == 0: c = gen_case(rng, ([[0, 1], [1]], [0]), sem, feature="zero-nested", p_zero_default=0.35); c["variant"] = "mv"
        elif r == 1: c = gen_case(rng, ([[0, 1], [1, 2]], [0, 2]), sem, budget=200, feature="zero-nested", p_zero_default=0.35); c["variant"] = "mm"
        else: c = gen_case(rng, rng.choice(nonempty), sem, feature="zero-nested", variant=var, p_zero_default=0.35)
        cases.append(c)
    # (7) histories: several calls on the SAME operand objects with in-place updates of their contents (or equal-looking
    # replacement objects) in between; every call is judged on the contents at the time of the call
    for i in range(75 if quick else 2500):
        sem = SEMS[i % 4]
        r = i % 5
        feat = rng.choice([None, None, "broadcast", "freshen", "unit", "zero-nested"])
        if r == 0: c = gen_case(rng, ([[0, 1], [1]], [0]), sem, feature=feat, p_zero_default=0.3); c["variant"] = "mv"
        elif r == 1: c = gen_case(rng, ([[0, 1], [1, 2]], [0, 2]), sem, budget=200, feature=feat, p_zero_default=0.3); c["variant"] = "mm"
        else:
            var = "vit" if sem == "vit" and rng.random() < 0.5 else "einsum"
            c = gen_case(rng, rng.choice(nonempty), sem, feature=feat, variant=var, p_zero_default=0.3)
        if i % 3 and c["sem"] != "bool":          # requires_grad operands only in a third of the histories
            for sp in c["ops"]: sp["rg"] = False
        c["history"] = gen_history(rng, c, rng.choice([2, 2, 3]))
        cases.append(c)
    # (8) refinements: indices of product type seen through DIFFERENT factorisations by different operands (12 = 2x2x3 as
    # 12 / 2*6 / 4*3 / 2*2*3), >= 3 operands mostly, a factor axis shared between two indices of one operand, random
    # operand order: unify has to split factors that are already bound by an earlier unification
    for i in range(170 if quick else 6000):
        r = i % 10
        if r == 9: c = gen_refine_case(rng, "vit", variant="vit")
        else: c = gen_refine_case(rng, SEMS[i % 4], grad=(r == 7))
        cases.append(c)
    return cases, n_sigs

def run_jobs(jobs, seed):
    from concurrent.futures import ThreadPoolExecutor
    def one(j):
        cf, vals, tag, sample = j
        return run_model(cf, vals, seed=seed, tag=tag, coq_sample=sample) if vals else ([], 0)
    with ThreadPoolExecutor(max_workers=7) as ex:
        return list(ex.map(one, jobs))

def run(tier, seed):
    violations = []
    cases, n_sigs = make_cases(tier, seed)
    by = {}                 # check fn kind -> [(case index, wire value)]
    certs = {}
    hist = dict(semiring={}, variant={}, feature={}, operands={}, exceptions={})
    results = []
    gen_cases = cases; cases = []           # `cases` = one entry per evaluated call (a history contributes one per call)
    def record(case, res, spy, ptr, exc, changed, cert=True):
        ci = len(cases); cases.append(case)
        results.append((ci, res, exc))
        for k, v in (("semiring", case["sem"]), ("variant", case["variant"]), ("feature", str(case["feature"])), ("operands", len(case["ops"]))):
            hist[k][v] = hist[k].get(v, 0) + 1
        if exc: hist["exceptions"][exc.split("(")[0]] = hist["exceptions"].get(exc.split("(")[0], 0) + 1
        if any(has_nested_zero(sp) for sp in case["ops"]): hist.setdefault("empty_physical_in_nonempty_shape", {"n": 0})["n"] += 1
        if any(sp["default"] != {"bool": False, "vit": -INF}.get(case["sem"], 0.0) for sp in case["ops"]):
            hist.setdefault("some_default_not_semiring_zero", {"n": 0})["n"] += 1
        if case.get("feature") == "refine":
            differ, shared = refine_profile(case)
            h = hist.setdefault("refine", dict(cases=0, factorisations_differ=0, factor_shared_between_indices=0, both=0, operands_ge3=0))
            h["cases"] += 1; h["factorisations_differ"] += differ; h["factor_shared_between_indices"] += shared; h["both"] += differ and shared
            h["operands_ge3"] += len(case["ops"]) >= 3
        if changed:
            violations.append(Violation("einsum modified one of its operands", case=case, corr="corr:einsum (operands unchanged)", call="fggs.indices.einsum"))
        cf = checkfn_of(case)
        by.setdefault(cf.kind, (cf, []))[1].append((ci, wire_case(case, res, spy, ptr), res, exc))
        nenv = math.prod(max(n, 1) for sp in case["ops"] for _, n in sp["paxes"])
        if case["ops"] and nenv > CERT_LIMIT:
            hist.setdefault("certificate_skipped_too_large", {"n": 0})["n"] += 1
        if cert and case["ops"] and nenv <= CERT_LIMIT:
            ccf = CERT_VIT if case["variant"] == "vit" else certfn_of(case)
            certs.setdefault(ccf.kind, (ccf, []))[1].append((ci, (wire_case(case, res, spy, ptr)[0], case["inputs"], case["output"], next_uid(case))))
    for case in gen_cases:
        try:
            if "history" in case:
                for derived, res, spy, ptr, exc, changed in run_history(case):
                    hist.setdefault("history_call", {})[derived["call"]] = hist.setdefault("history_call", {}).get(derived["call"], 0) + 1
                    for u in case["history"][derived["call"]]["updates"]:
                        if u: hist.setdefault("history_update", {})[u["how"]] = hist.setdefault("history_update", {}).get(u["how"], 0) + 1
                    record(derived, res, spy, ptr, exc, changed, cert=(derived["call"] == 0))
            else:
                record(case, *run_impl(case))
        except Exception as ex:
            violations.append(Violation("harness could not build / run the case: %r" % (ex,), case=case, observed=traceback.format_exc()[-1500:],
                                        corr="harness", failing_input_found=False))
            continue
    # reduce_equation / post_einsum called directly
    rrng = random.Random(seed * 7919 + 77)
    rcases = [gen_reduce_case(rrng, "real" if i % 2 else "vit") for i in range(150 if tier == "quick" else 6000)]
    for rc in rcases:
        v, exc = run_reduce_impl(rc)
        cf = RED_REAL if rc["sem"] == "real" else RED_TROP
        by.setdefault(cf.kind, (cf, []))[1].append((len(cases), v, v[3], exc)); cases.append(rc)
        results.append((len(cases) - 1, v[3], exc))
        hist["variant"]["reduce"] = hist["variant"].get("reduce", 0) + 1
    jobs = []; order = []
    for kind, (cf, l) in list(by.items()) + list(certs.items()):
        jobs.append((cf, [v[1] for v in l], kind.replace("-", ""), 10 if tier == "quick" else 25)); order.append((cf, l))
    outs = run_jobs(jobs, seed)
    kern = 0; verdicts = {}; cert_hist = {}; vcert_hist = {}
    for (cf, l), (codes, nk) in zip(order, outs):
        kern += nk
        if cf.kind.startswith("c07-cert"):
            for (ci, v), c in zip(l, codes):
                if cf is CERT_VIT: vcert_hist[c] = vcert_hist.get(c, 0) + 1
                else: cert_hist[c] = cert_hist.get(c, 0) + 1
            continue
        for (ci, v, res, exc), c in zip(l, codes):
            verdicts[c] = verdicts.get(c, 0) + 1
            if c == 0: continue
            case = cases[ci]
            call = {"reduce": "fggs.equation.reduce_equation + semiring.einsum + post_einsum", "einsum": "fggs.indices.einsum(tensors, inputs, output, semiring).to_dense()", "mv": "PatternedTensor.mv", "mm": "PatternedTensor.mm",
                    "vit": "fggs.indices.log_viterbi_einsum_forward"}[case["variant"]]
            key = None
            if c == 3 and case["variant"] == "vit" and exc and exc.startswith("ValueError('nan')") and has_both_infs(case):
                key = "viterbi_forward_posinf_plus_neginf_nan"
            what = "%s [%s]: %s (verdict %d)%s" % (case["variant"], case["sem"], VERDICTS.get(c, "?"), c, (" -- " + exc[:200]) if exc else "")
            if case.get("call") is not None:
                ups = [u["how"] for st in case["hist_base"]["history"][1:case["call"] + 1] for u in st["updates"] if u]
                what += " -- call %d of a history on the same operand objects (judged on their contents at the time of the call; updates before it: %s)" % (case["call"], ", ".join(ups) or "none")
            if c < 10:
                violations.append(Violation(what, case=case, observed=dict(result=res), oracle="einsum_dense on brute-force denotations (spec_verdict / argmax_ok)",
                                            corr="C07 check function " + cf.fn, call=call, finding_key=key))
            else:
                violations.append(Violation(what, case=case, observed=dict(result=res), corr="corr:%s (Model.Einsum vs fggs.indices)" % cf.fn,
                                            failing_input_found=False, call=call))
    n_cert = sum(cert_hist.values())
    distinct = len({json.dumps(_jsonable_case(c), sort_keys=True) for c in cases if nontrivial(c)})
    samples = [_jsonable_case(cases[i]) for i in (0, len(cases) // 2, len(cases) - 1) if i < len(cases)]
    cov = dict(evaluations=len(results), distinct_nontrivial=distinct,
               rule="cases = einsum signature x one typed patterned tensor per operand x semiring x requires_grad / grad mode; "
                    "signatures: all %d signatures with <= 3 operands, <= 4 indices (operand rank <= 3 and <= 5 index positions, or rank <= 2 and <= 6 positions; every ordered "
                    "selection of distinct output indices), all of them in thorough and a sample in quick, plus random larger ones, repeated output indices, an index with >= 4 attachments, the empty list, mv, mm, the Viterbi variant, and reduce_equation/post_einsum called directly on strided tensors with stride-0 and size-1 dimensions; "
                    "patterns from the typed generator (exhaustive pairs of axes for the small types on i,i-> / i,i->i); "
                    "stream (6): index types with a zero-size summand (a + 0 + b, a + (0 x 2), (0 + 2) x 2, ...), some operand choosing the empty summand (an empty physical axis inside a non-empty virtual extent), default != semiring zero in about 2/3 of the operands, einsum / mv / mm / Viterbi; "
                    "stream (7): histories of 2-3 calls on the same operand objects (default != semiring zero in about 70%% of the operands), before every later call at least one operand is updated in place "
                    "(copy into the storage, scale, neg_, *=) or replaced by an equal-looking object (fresh object over the same axes; same physical tensor under a new PatternedTensor, also with another default), the entry point may change between calls; every call is one evaluation judged on the contents at that time; "
                    "stream (8): refinements -- every index has a product type given as a flat list of atoms (2x2, 2x3, 2x2x3, 2x3x2, 2x2x2x2, 2x3x3, 2x2x5, ...; the other indices mostly consecutive sub-lists of the first), every operand sees it through a random grouping of consecutive atoms into blocks, one PhysicalAxis per block (12 as 12 / 2*6 / 4*3 / 2*2*3), a block axis is reused with probability 0.3-0.8 wherever the same atom list occurs (two indices of one operand: (P*Q, Q); other operands when the pool is shared), 2-4 operands (>= 3 in most) of rank 1-3 in random order, 4 semirings, requires_grad, the Viterbi variant in a tenth; histogram.refine counts the cases whose factorisations differ / share a factor between indices; "
                    "the whole storage, strides, offset and identity of the physical tensor, axes and default of every operand are compared before/after each call; non-trivial = some operand has a non-physical axis, a diagonal or an expanded (stride-0) dimension; distinct by full case data" % n_sigs,
               signatures_enumerated=n_sigs, histogram=hist, verdicts=verdicts, kernel_reevaluated=kern,
               theorem_certificate=dict(cases=n_cert, verdicts=cert_hist,
                                        meaning="0 = the decidable premises of C07_patterned_eq_dense_partial / C07_zero_result_partial hold for the case (soundness and completeness); 1 = only those of the soundness half; other = the theorem does not apply (see notes). Run-time cross-check of C07_cert_premises_typed, which proves verdict 0 for every run on operands typed over good index types",
                                        viterbi_cases=sum(vcert_hist.values()), viterbi_verdicts=vcert_hist,
                                        viterbi_meaning="as above for the Viterbi variant, plus the premises of C07_argmax (5 = pointer premises fail)"),
               samples=samples, open_items=OPEN_ITEMS)
    return cov, violations

def _jsonable_case(c):
    from harness.core import _jsonable
    return _jsonable(c)

OPEN_ITEMS = [
    "C07_patterned_eq_dense_typed is premise-free for operands typed over GOOD index types (every atom >= 1, every sum type of size >= 2; size-1 atoms are erased as __post_init__ does). Not covered by it, and still only covered by the per-case certificate (coverage.theorem_certificate) together with C07_patterned_eq_dense_partial / C07_zero_result_partial: operands with a zero-size index (the zero-size exit), index types with a sum type of size 1 (C06_unify_size1_sum_refuted), and operands that are not typed alike at a shared index",
    "the typed theorems are stated for runs on which the model answers (einsum_model ... = Ok p): 'the model never answers Fail OutOfFuel on typed operands' is open (the fuel formulas efuel / sfuel of the model versus the type-derived bound tyfuel; same open item as C06/C13, notes/UNIFY.md section 3.1). A divergence would show as verdict 13 / 9; fuel monotonicity (C06_unify_fuel_monotone) makes every theorem about answers independent of the fuel",
    "the link between the harness's typed generator and the judgement ty of Proofs/Axis_typed.v is by construction of the generator and the sound checker ty_b on the enumerated universes (C06_typed_universe_upto12); no check function evaluates ty_b per einsum case, the per-case certificate remains the run-time cross-check",
]

def _fix(x):
    if isinstance(x, list):
        if len(x) == 2 and x[0] == "Phys": return ("Phys", (x[1][0], x[1][1]))
        if len(x) == 2 and x[0] == "Prod" and isinstance(x[1], list): return ("Prod", [_fix(y) for y in x[1]])
        if len(x) == 2 and x[0] == "Sum": return ("Sum", (x[1][0], _fix(x[1][1]), x[1][2]))
        return [_fix(y) for y in x]
    if x == "inf": return INF
    if x == "-inf": return -INF
    return x

def case_of_json(c):
    c = dict(c)
    ops = []
    for s in c["ops"]:
        s = dict(s)
        s["vaxes"] = [_fix(e) for e in s["vaxes"]]
        s["paxes"] = [tuple(p) for p in s["paxes"]]
        s["storage"] = [_fix(v) for v in s["storage"]]
        s["default"] = _fix(s["default"])
        ops.append(s)
    c["ops"] = ops
    if "history" in c:
        c["history"] = [dict(variant=st["variant"], updates=[None if u is None else dict(how=u["how"], storage=[_fix(v) for v in u["storage"]], default=_fix(u["default"]))
                                                              for u in st["updates"]]) for st in c["history"]]
    return c

def replay(path):
    r = json.load(open(path))
    if r["case"].get("variant") == "reduce":
        c = dict(r["case"]); c["views"] = [dict(dims=[tuple(d) for d in v["dims"]], offset=v["offset"], storage=[_fix(x) for x in v["storage"]]) for v in c["views"]]
        v, exc = run_reduce_impl(c)
        code = run_coq(RED_REAL if c["sem"] == "real" else RED_TROP, [v], tag="replay")[0]
        print("case:", c); print("implementation now:", v[2], v[3], exc); print("verdict code:", code, VERDICTS.get(code, ""))
        return 1 if code else 0
    if r["case"].get("hist_base") is not None:
        # a call of a history: re-run the whole history up to that call on the same objects
        k = r["case"]["call"]
        case, res, spy, ptr, exc, changed = list(run_history(case_of_json(r["case"]["hist_base"]), upto=k))[k]
    else:
        case = case_of_json(r["case"])
        res, spy, ptr, exc, changed = run_impl(case)
    cf = checkfn_of(case)
    code = run_coq(cf, [wire_case(case, res, spy, ptr)], tag="replay")[0]
    print("case:", json.dumps(_jsonable_case(case))[:3000])
    print("implementation result now:", res, "exception:", exc, "spy:", spy, "pointers:", ptr)
    print("verdict code (vm_compute in the kernel):", code, VERDICTS.get(code, ""))
    return 1 if code or changed else 0

MANIFEST = dict(
    level="proof",
    text="Coq theorems about a Gallina model of fggs.indices.einsum / log_viterbi_einsum_forward / project and fggs.equation.reduce_equation / post_einsum: the dense specification (empty list = one, zero-size summed index = zero, permutation invariance), the patterned algorithm equals the specification on the operands' denotations (re-indexing of the sum over virtual indices by the injective physical parametrisation; soundness half without the completeness premise; under decidable premises evaluated per case; WITHOUT premises for operands typed in a common context over good index types: C07_patterned_eq_dense_typed, all exits, any defaults, shared axes, __post_init__ included -- every certificate premise is derived from typing (C07_cert_premises_typed: the substitution is well typed and acyclic, unify is complete along the loop, default_to/freshen preserve the denotation), also mv/mm (C07_mv_typed, C07_mm_typed) and the Viterbi pointers (C07_argmax_typed)), reduce_equation is sound, the Viterbi pointers attain the maximum and are eval of the summed axes at the physical argmax (also for repeated output indices, repaired in /repo 3f6a623), mv/mm are instances. An operand with an empty physical axis is all-default whatever its virtual shape (C07_empty_physical_is_all_default / _denote). The model is tied to /repo by running both on generated signatures x typed patterns x 4 semirings x requires_grad, on operands with an empty physical axis inside a non-empty virtual extent and defaults other than the semiring zero, and on histories of calls on the same operand objects with in-place updates in between (each call judged on the contents at that time), and on >= 3 operands whose product-typed indices are factorised differently per operand with factor axes shared between indices (unify splits axes that are already bound: C07_unify_keeps_bindings -- the model's unify only ever extends the substitution); the specification applied to brute-force denotations judges every implementation output inside Coq (exact carriers).",
    note="Known finding F23: log_viterbi_einsum_forward computes +inf + -inf = nan (torch_semiring_einsum's plain addition). Trusted: Coq kernel + vm_compute, extraction cross-checked against vm_compute, the Python harness (numbering of PhysicalAxis objects, reading of torch storage/strides, exp reading of the Log semiring within 1e-9), torch_semiring_einsum as the dense einsum under test.",
    technique="Coq proof (model + theorems) + model/implementation correspondence with a verified dense-specification oracle + per-case evaluation of the theorem's decidable premises",
    design_ref="DESIGN.md section 6, C07; section 7; Appendix A.6")
