"""C14 -- JSON serialisation round-trips grammars and weights.

Streams
  grammar : random HRGs / FGGs (gen.random_spec) with mixed implicit/explicit ids, finite and range
            domains, dense and patterned weights, infinite entries, arity-0 and arity>0 start:
            fgg_to_json -> json.dumps -> json.loads -> json_to_fgg (and a second round trip); a history
            variant writes the grammar, updates some weights IN PLACE and writes it again (the second
            document must round-trip to the updated weights),
            judged by Model.JsonCheck.c14_fgg_check (oracle hrg_iso_b + exact comparison with the model).
            The model's view of the original grammar takes its rules from the add_rule calls the harness made
            (b.ref), not from g._rules.  Extra cases with REPEATED rules (add_dups): the same rule object
            added twice, r.copy(), a rebuilt equal rule (same explicit ids, new objects), a near copy (one id
            renamed), an isomorphic copy; and documents in which a rule is listed 2-3 times verbatim
            (rule count, verbatim second round trip, sum-product invariant under renaming the copy's ids;
            with all ids explicit also judged by c14_fgg_check against a reference read off the document).
  weights : patterned weight specifications (physical/expand/vaxes/default) fed to json_to_weights,
            judged against the denotational reading spec_denote (c14_weights_check); PatternedTensors
            built with fggs.indices written out with weights_to_json (c14_wtojson_check).
  malformed: one defect injected into a valid document; exception kinds compared with the model's
            error enum, out-of-range numbers judged by the oracle has_oor (c14_malformed_check).
  sumprod : fggs.sum_product before/after the round trip on non-recursive FGGs (Real semiring).
"""
import json, math, random, copy, itertools
from fractions import Fraction
from harness.core import *
from harness import gen

PID = "C14"
LEVEL = "proof"

# ----------------------------------------------------------------------------
# wire types
class _Str(List):
    """list of code points; rendered for Coq as a string literal (sl "...") when printable ASCII"""
    def __init__(self): List.__init__(self, Nat)
    def coq(self, v):
        if all(32 <= c < 127 for c in v):
            return '(sl "%s"%%string)' % "".join(chr(c) for c in v).replace('"', '""')
        return List.coq(self, v)
StrT = _Str()
NumT = Sum("num", "Json", {"NFin": QQ, "NPInf": None, "NNInf": None})
JsonT = Sum("json", "Json", {})
_JsonR = Rec("json", "d_json", lambda: JsonT)
JsonT.ctors.update({"JNull": None, "JBool": Bool, "JInt": ZZ, "JNum": NumT, "JStr": StrT,
                    "JList": List(_JsonR), "JDict": List(Tup(StrT, _JsonR))})
ErrT = Enum("err", "Json", ["ValueErr", "KeyErr", "TypeErr", "IndexErr", "AssertErr", "AttrErr", "OtherErr", "Unmodelled"])
NidT = Sum("nid", "Json", {"Explicit": StrT, "Implicit": Nat})
NodeT = Tup(StrT, NidT)
ELabelT = Tup(StrT, List(StrT), Bool)
EdgeT = Tup(ELabelT, List(NodeT), NidT)
GraphT = Tup(List(NodeT), List(EdgeT), List(NodeT))
RuleT = Tup(ELabelT, GraphT)
HrgT = Tup(List(ELabelT), ELabelT, List(Tup(ELabelT, List(RuleT))))
AxisT = Sum("axis", "Json", {})
_AxisR = Rec("axis", "d_jaxis", lambda: AxisT)
AxisT.ctors.update({"APhys": Tup(Nat, Nat), "AProd": List(_AxisR), "ASum": Tup(Nat, _AxisR, Nat)})
TensT = Sum("tens", "Json", {})
_TensR = Rec("tens", "d_tens", lambda: TensT)
TensT.ctors.update({"TS": NumT, "TL": List(_TensR)})
VspecT = Sum("vspec", "Json", {})
_VspecR = Rec("vspec", "d_vspec", lambda: VspecT)
VspecT.ctors.update({"VInt": ZZ, "VList": List(_VspecR), "VDict": Tup(Nat, _VspecR, Nat)})
DomainT = Sum("domain", "Json", {"DFinite": List(JsonT), "DRange": Nat})
FactorWT = Sum("factor_w", "JsonCheck", {"WConstant": JsonT, "WFinite": Tup(TensT, List(Nat), List(AxisT), NumT)})
FggT = Tup(HrgT, List(Tup(StrT, DomainT)), List(Tup(StrT, FactorWT)))
PermsT = List(Tup(List(Nat), List(Nat)))
RtObsT = Sum("rt_obs", "JsonCheck", {"ObsToErr": ErrT, "ObsFromErr": Tup(JsonT, ErrT),
                                     "ObsOk": Tup(JsonT, FggT, PermsT, Option(JsonT))})
WObsT = Sum("w_obs", "JsonCheck", {"WDense": TensT, "WErr": ErrT})

class _RecordSum(Sum):
    """a Coq Record with constructor [ctor]: OCaml side is a record value"""
    def __init__(self, coqname, mod, ctor, fields, tys):
        Sum.__init__(self, coqname, mod, {ctor: Tup(*tys)})
        self.ctor, self.fields, self.tys = ctor, fields, tys
    def dec(self):
        n = len(self.tys)
        vs = ["x%d" % i for i in range(n)]
        pat = vs[0]
        for x in vs[1:]: pat = "(%s, %s)" % (pat, x)
        rec = "; ".join("%s.%s = %s" % (self.mod, f, v) for f, v in zip(self.fields, vs))
        return '(function L [Atom "%s"; p] -> (match %s p with %s -> { %s }) | _ -> failwith "rec %s")' % (
            self.ctor, Tup(*self.tys).dec(), pat, rec, self.coqname)
WspecT = _RecordSum("wspec", "Json", "mkWS", ["ws_phys", "ws_expand", "ws_vaxes", "ws_default"],
                    [TensT, List(Nat), Option(List(VspecT)), NumT])

GLUE_PREAMBLE = ("let rec d_json (s : sexp) : Json.json = %s s\n"
                 "let rec d_jaxis (s : sexp) : Json.axis = %s s\n"
                 "let rec d_tens (s : sexp) : Json.tens = %s s\n"
                 "let rec d_vspec (s : sexp) : Json.vspec = %s s\n") % (JsonT.dec(), AxisT.dec(), TensT.dec(), VspecT.dec())

FGGCHK = CheckFn("c14-fgg", "Model.JsonCheck", "c14_fgg_check", Tup(List(StrT), FggT, Bool, RtObsT), imports=["Model.Json", "Model.StrLit"])
MALCHK = CheckFn("c14-mal", "Model.JsonCheck", "c14_malformed_check", Tup(JsonT, Bool, Option(ErrT)), imports=["Model.Json", "Model.StrLit"])
WCHK = CheckFn("c14-w", "Model.JsonCheck", "c14_weights_check", Tup(Option(WspecT), JsonT, WObsT), imports=["Model.Json", "Model.StrLit"])
WJCHK = CheckFn("c14-wj", "Model.JsonCheck", "c14_wtojson_check", Tup(FactorWT, JsonT), imports=["Model.Json", "Model.StrLit"])
CHECKFNS = [FGGCHK, MALCHK, WCHK, WJCHK]

ASSUMPTIONS = [
    "json.dumps / json.loads are run for real on every case but not modelled: the model works on the loaded document (dicts as association lists in insertion order, int vs float kept apart)",
    "str(id) of an implicit id (the decimal string of an object address) is an oracle argument of the model, supplied by the harness from the live objects; the theorems quantify over every such function",
    "weights_to_json is modelled by its result (the dense nested list of the PatternedTensor's denotation), not through PatternedTensor.__iter__/dim_to_dense (that machinery belongs to C06); it is compared with the implementation on every pattern kind",
    "finite float weights are passed as exact rationals (Fraction(float)); NaN is not generated",
    "PatternedTensor.__post_init__'s squeezing of size-1 physical axes is not modelled (it does not change the denotation); the harness reads physical/paxes/vaxes/default off the live object after it",
    "the original grammar handed to the model has the rules the harness passed to HRG.add_rule, in call order per left-hand side (an HRG is a list of rules per lhs; repeated rules count twice); for documents with a repeated rule the reference grammar is read off the document by the harness (Graph/Node/Edge only) and c14_fgg_check verifies that the model writes exactly that document for it",
    "documents with a repeated rule: the rule count and the invariance of sum_product under renaming the ids of the copy are compared in Python (metamorphic smoke test, tolerance 1e-6 relative); the Coq-judged part is the isomorphism / second-round-trip verdict",
    "sum_product before/after the round trip is compared in Python (|a-b| <= 1e-9, inf exactly): an end-to-end smoke test on top of the dense-weights comparison, not a verified oracle",
]

def run_model_c14(cf, values, coq_sample, seed, tag, max_bad=12, shard=3):
    """core.run_model with a smaller in-kernel sample: the case terms of this property are whole JSON
    documents and Coq needs ~1 s to elaborate each, so the sample is cut into shards of 3 cases that
    coqc checks in parallel.  Every case goes through the extracted code; the kernel re-evaluates
    a random sample of the accepted cases and the (up to max_bad, smallest first) non-zero verdicts."""
    codes = run_ocaml(cf, values)
    rng = random.Random(seed * 7919 + 13)
    idx = list(range(len(values)))
    bad = sorted([i for i in idx if codes[i] != 0], key=lambda i: len(cf.ty.sexp(values[i])))[:max_bad]
    rest = [i for i in idx if codes[i] == 0]
    rng.shuffle(rest)
    pick = sorted(set(bad + rest[:coq_sample]))
    if pick:
        ccodes = run_coq(cf, [values[i] for i in pick], tag=tag, shard=shard, jobs=12)
        for i, c in zip(pick, ccodes):
            if c != codes[i]:
                raise BuildError("extracted code and vm_compute disagree on %s case %d: %d vs %d" % (cf.kind, i, codes[i], c))
    return codes, len(pick)

# ----------------------------------------------------------------------------
# Python -> wire
def S(s):
    return [ord(c) for c in s]

def numw(x):
    if isinstance(x, bool): raise ValueError("bool as number")
    if isinstance(x, float):
        if x != x: raise ValueError("nan")
        if x == math.inf: return ("NPInf",)
        if x == -math.inf: return ("NNInf",)
    return ("NFin", Fraction(x))

def jw(x):
    if x is None: return ("JNull",)
    if isinstance(x, bool): return ("JBool", x)
    if isinstance(x, int): return ("JInt", x)
    if isinstance(x, float): return ("JNum", numw(x))
    if isinstance(x, str): return ("JStr", S(x))
    if isinstance(x, (list, tuple)): return ("JList", [jw(y) for y in x])
    if isinstance(x, dict): return ("JDict", [(S(k), jw(v)) for k, v in x.items()])
    raise ValueError("not JSON: %r" % (x,))

def tensw(x):
    if isinstance(x, list): return ("TL", [tensw(y) for y in x])
    return ("TS", numw(x))

class IdNum:
    """numbers implicit (int) ids in order of first appearance; remembers str(id)"""
    def __init__(self): self.num = {}; self.dec = []
    def nid(self, i):
        if isinstance(i, str): return ("Explicit", S(i))
        if i not in self.num:
            self.num[i] = len(self.num); self.dec.append(S(str(i)))
        return ("Implicit", self.num[i])

def elw(l): return (S(l.name), [S(nl.name) for nl in l.type], bool(l.is_terminal))
def nodew(v, idn): return (S(v.label.name), idn.nid(v.id))
def graphw(g, idn):
    ns = [nodew(v, idn) for v in g.nodes()]
    es = [(elw(e.label), [nodew(v, idn) for v in e.nodes], idn.nid(e.id)) for e in g.edges()]
    return (ns, es, [nodew(v, idn) for v in g.ext])
def hrgw(h, idn, rules=None):
    """rules: the reference rule table {lhs: [HRGRule]} kept by the harness (the add_rule calls it made, in
    order); None = read the rules off the object (only for objects the implementation returned)"""
    labels = [elw(l) for l in h.edge_labels()]
    rules = [(elw(lhs), [(elw(r.lhs), graphw(r.rhs, idn)) for r in rs]) for lhs, rs in (h._rules if rules is None else rules).items()]
    return (labels, elw(h.start), rules)

def axisw(e, paxes):
    from fggs.indices import PhysicalAxis, ProductAxis, SumAxis
    if isinstance(e, PhysicalAxis):
        for k, p in enumerate(paxes):
            if p is e: return ("APhys", (k, e.numel()))
        raise ValueError("axis not among paxes")
    if isinstance(e, ProductAxis): return ("AProd", [axisw(f, paxes) for f in e.factors])
    if isinstance(e, SumAxis): return ("ASum", (e.before, axisw(e.term, paxes), e.after))
    raise ValueError(e)

def flatten(x):
    if isinstance(x, list):
        out = []
        for y in x: out.extend(flatten(y))
        return out
    return [x]

def ptw(w):
    """a live PatternedTensor -> WFinite payload"""
    phys = w.physical
    return (tensw(phys.tolist()), [int(n) for n in phys.size()],
            [axisw(e, w.paxes) for e in w.vaxes], numw(float(w.default)))

def domw(d):
    import fggs
    if isinstance(d, fggs.FiniteDomain): return ("DFinite", [jw(v) for v in d.values])
    if isinstance(d, fggs.RangeDomain): return ("DRange", int(d.size()))
    raise ValueError(d)

def facw(f):
    import fggs
    if isinstance(f, fggs.ConstantFactor): return ("WConstant", jw(f.weight))
    if isinstance(f, fggs.FiniteFactor): return ("WFinite", ptw(f.weights))
    raise ValueError(f)

def fggw(g, idn, is_fgg, rules=None):
    if is_fgg:
        return (hrgw(g, idn, rules), [(S(k), domw(d)) for k, d in g.domains.items()], [(S(k), facw(f)) for k, f in g.factors.items()])
    return (hrgw(g, idn, rules), [], [])

def errkind(e):
    if isinstance(e, AssertionError): return "AssertErr"
    if isinstance(e, KeyError): return "KeyErr"
    if isinstance(e, IndexError): return "IndexErr"
    if isinstance(e, ValueError): return "ValueErr"
    if isinstance(e, TypeError): return "TypeErr"
    if isinstance(e, AttributeError): return "AttrErr"
    if type(e) is Exception: return "OtherErr"
    return None          # unexpected: reported by the caller

# ----------------------------------------------------------------------------
# generators
GRID = [0.0, 0.5, 1.0, 2.0, 3.0, 0.25, 1.5, 0.125, math.inf]
GRID_P = [0.15, 0.15, 0.15, 0.1, 0.08, 0.1, 0.1, 0.09, 0.08]

def prune_spec(spec):
    """drop edge labels that are neither the start symbol, nor a left-hand side, nor used in a rule"""
    used = {spec["start"]}
    for r in spec["rules"]:
        used.add(r["lhs"])
        for el, _ in r["edges"]: used.add(el)
    keep = [i for i in range(len(spec["elabels"])) if i in used]
    ren = {old: new for new, old in enumerate(keep)}
    s = dict(spec)
    s["elabels"] = [spec["elabels"][i] for i in keep]
    s["start"] = ren[spec["start"]]
    s["rules"] = [dict(r, lhs=ren[r["lhs"]], edges=[(ren[el], att) for el, att in r["edges"]]) for r in spec["rules"]]
    s["weights"] = {ren[k]: v for k, v in spec["weights"].items() if k in ren}
    return s

def unused_labels(spec):
    used = {spec["start"]}
    for r in spec["rules"]:
        used.add(r["lhs"])
        for el, _ in r["edges"]: used.add(el)
    return [i for i in range(len(spec["elabels"])) if i not in used]

def factorizations(n):
    return [(a, n // a) for a in range(2, n) if n % a == 0]

def gen_axis(rng, n, phys, depth=0):
    """a random axis expression with n values; phys: list of PhysicalAxis created so far (appended to)"""
    from fggs.indices import PhysicalAxis, ProductAxis, SumAxis, productAxis, unitAxis
    opts = ["fresh"]
    if n == 1: opts += ["unit", "unit", "unit"]
    if any(k.numel() == n for k in phys): opts += ["reuse"]
    if depth < 2:
        if n >= 2: opts += ["sum"]
        if factorizations(n): opts += ["prod", "prod"]
    c = rng.choice(opts)
    if c == "unit": return unitAxis, "unit"
    if c == "fresh":
        k = PhysicalAxis(n); phys.append(k); return k, "phys"
    if c == "reuse":
        return rng.choice([k for k in phys if k.numel() == n]), "shared"
    if c == "sum":
        m = rng.randint(1, n); b = rng.randint(0, n - m)
        t, _ = gen_axis(rng, m, phys, depth + 1)
        return SumAxis(b, t, n - m - b), "sum"
    a, b = rng.choice(factorizations(n))
    e, _ = gen_axis(rng, a, phys, depth + 1); f, _ = gen_axis(rng, b, phys, depth + 1)
    if rng.random() < 0.5: return productAxis((e, f)), "prod"
    return ProductAxis((e, f)), "prod"

def gen_patterned(rng, shape, kinds):
    """a random PatternedTensor with the given virtual shape"""
    import torch
    from fggs.indices import PatternedTensor
    if len(shape) >= 2 and 0 not in shape and rng.random() < 0.15:
        # a dense tensor seen through a permutation of its axes (PatternedTensor(t).T and the like)
        perm = list(range(len(shape))); rng.shuffle(perm)
        inv = [perm.index(i) for i in range(len(shape))]
        base_shape = [shape[inv[i]] for i in range(len(shape))]          # permute(perm) of it has `shape`
        vals = gen.nested(base_shape, lambda: rng.choices(GRID, GRID_P)[0])
        kinds.add("permuted-dense")
        return PatternedTensor(torch.tensor(vals, dtype=torch.get_default_dtype())).permute(perm)
    units = [i for i, n in enumerate(shape) if n == 1 and i + 1 < len(shape) and any(m >= 2 for m in shape[i + 1:])]
    if units and 0 not in shape and rng.random() < 0.5:
        # a size-1 dimension written as unitAxis, followed by a part that is still sparse, with a
        # non-zero default: the off-pattern cells below the unit dimension must come out as the default
        from fggs.indices import PhysicalAxis, SumAxis, unitAxis
        i0 = rng.choice(units)
        phys = []; vaxes = []
        for i, n in enumerate(shape):
            if i < i0:
                e, _ = gen_axis(rng, n, phys)
            elif i == i0 or n == 1:
                e = unitAxis
            else:
                same = [a for a in vaxes[i0 + 1:] if isinstance(a, PhysicalAxis) and a.numel() == n]
                if same and rng.random() < 0.7:
                    e = same[0]                                   # diagonal with an earlier dimension after the unit one
                elif rng.random() < 0.5 or n < 2:
                    e = PhysicalAxis(n); phys.append(e)
                else:
                    m = rng.randint(1, n - 1); b = rng.randint(0, n - m)
                    k = PhysicalAxis(m); phys.append(k); e = SumAxis(b, k, n - m - b)
            vaxes.append(e)
        after = vaxes[i0 + 1:]
        sparse = any(isinstance(a, SumAxis) for a in after) or len([a for a in after if isinstance(a, PhysicalAxis)]) != len({id(a) for a in after if isinstance(a, PhysicalAxis)})
        if not sparse:
            # force a sum axis on the last dimension of size >= 2 after the unit one
            j = max(i for i in range(i0 + 1, len(shape)) if shape[i] >= 2)
            if isinstance(vaxes[j], PhysicalAxis) and sum(1 for a in vaxes if a is vaxes[j]) == 1: phys.remove(vaxes[j])
            n = shape[j]; m = rng.randint(1, n - 1); b = rng.randint(0, n - m)
            k = PhysicalAxis(m); phys.append(k); vaxes[j] = SumAxis(b, k, n - m - b)
        paxes = list(dict.fromkeys(phys)); rng.shuffle(paxes)
        psize = [k.numel() for k in paxes]
        vals = gen.nested(psize, lambda: rng.choices(GRID, GRID_P)[0])
        t = torch.tensor(vals, dtype=torch.get_default_dtype()) if psize else torch.tensor(float(vals), dtype=torch.get_default_dtype())
        kinds.update(["unit-then-sparse", "default!=0"])
        return PatternedTensor(t, tuple(paxes), tuple(vaxes), rng.choice([0.5, 1.0, 2.0, math.inf]))
    phys = []
    vaxes = []
    for n in shape:
        e, kind = gen_axis(rng, n, phys)
        vaxes.append(e); kinds.add(kind)
    paxes = list(phys); rng.shuffle(paxes)
    psize = [k.numel() for k in paxes]
    vals = gen.nested(psize, lambda: rng.choices(GRID, GRID_P)[0])
    t = torch.tensor(vals, dtype=torch.get_default_dtype()) if psize else torch.tensor(float(vals), dtype=torch.get_default_dtype())
    if psize and rng.random() < 0.2:
        # broadcast along one physical axis (stride 0)
        d = rng.randrange(len(psize))
        t = t.select(d, 0).unsqueeze(d).expand(psize)
        kinds.add("expanded")
    default = rng.choice([0.0, 0.0, 0.0, 1.0, 0.5, math.inf])
    if default != 0.0: kinds.add("default!=0")
    return PatternedTensor(t, tuple(paxes), tuple(vaxes), default)

DUP_KINDS = ["same-object", "copy", "rebuilt-equal", "rebuilt-equal", "near", "iso"]

def add_dups(rng, spec, max_dups=2):
    """Append to the spec rules that repeat an earlier rule: entries {dup_of: index of the original in the new
    rule list, dup_kind}.  Kinds (see build_hrg_c14): 'same-object' add_rule(r) a second time; 'copy'
    add_rule(r.copy()) (equal, same Node/Edge objects, also with implicit ids); 'rebuilt-equal' a new Graph of new
    Node/Edge objects carrying the same explicit ids (equal but not identical when every id is explicit);
    'near' the same with ONE explicit id renamed (not equal); 'iso' the same shape under fresh ids.
    The copy is placed right after the original, later among the rules of the same left-hand side, or
    after all rules (an HRG is a list of rules per left-hand side: a repeated rule counts twice)."""
    s = dict(spec)
    rules = [dict(r) for r in spec["rules"]]
    if not rules: return s
    feats = set(spec["features"])
    for _ in range(rng.randint(1, max_dups)):
        k = rng.randrange(len(rules))
        src = rules[k]
        while "dup_of" in src and src["dup_kind"] in ("same-object", "copy"):   # copy of a copy: refer to the original
            k = src["dup_of"]; src = rules[k]
        kind = rng.choice(DUP_KINDS)
        d = dict(lhs=src["lhs"], nodes=list(src["nodes"]), edges=[(el, list(att)) for el, att in src["edges"]], ext=list(src["ext"]),
                 dup_of=k, dup_kind=kind)
        where = rng.choice(["adjacent", "end", "end"])
        if where == "adjacent":
            pos = k + 1
            for r in rules:
                if r.get("dup_of", -1) >= pos: r["dup_of"] += 1
            rules.insert(pos, d)
        else:
            rules.append(d)
        feats.add("dup_rule:" + kind)
    s["rules"] = rules
    s["features"] = sorted(feats)
    return s

ID_POOL = ["n%d", "v%d", "Z%d", "%d", "a%d", "%d0", "x", "y", "b", "9", "10", "1", "2"]

def build_hrg_c14(spec, ids, rng, cls):
    """gen.build_hrg with explicit ids drawn from a shuffled pool of names (ext order and creation order
    then differ from the str(id) order; digit-only ids interleave with the addresses of implicit ids)"""
    import fggs
    b = gen.Built()
    b.nls = [fggs.NodeLabel(gen.nl_name(i)) for i in range(len(spec["nlabels"]))]
    b.els = [fggs.EdgeLabel(gen.el_name(spec, i), [b.nls[nl] for nl in e["type"]], is_terminal=e["term"], is_nonterminal=not e["term"])
             for i, e in enumerate(spec["elabels"])]
    h = cls(b.els[spec["start"]])
    for nl in b.nls: h.add_node_label(nl)
    for el in b.els: h.add_edge_label(el)
    b.rules = []
    def names(n):
        out = []
        pool = list(ID_POOL); rng.shuffle(pool)
        k = 0
        while len(out) < n:
            for pat in pool:
                nm = pat % k if "%" in pat else (pat if k == 0 else None)
                if nm is not None and nm not in out: out.append(nm)
                if len(out) >= n: break
            k += 1
        rng.shuffle(out)
        return out
    built = []       # per spec rule: (rule, nodes, edges, node names, edge names, node-explicit flags, edge-explicit flags)
    b.ref = {}       # the reference rule table: lhs -> rules in the order of the add_rule calls made here
    for r in spec["rules"]:
        def expl():
            return ids == "explicit" or (ids == "mixed" and rng.random() < 0.5)
        kind = r.get("dup_kind")
        src = built[r["dup_of"]] if kind else None
        if kind == "same-object":
            rule, nodes, edges, nn, en, nx, ex = src
        elif kind == "copy":
            rule, nodes, edges, nn, en, nx, ex = (src[0].copy(),) + src[1:]
        else:
            if kind in ("rebuilt-equal", "near"):
                nn, en, nx, ex = list(src[3]), list(src[4]), list(src[5]), list(src[6])
                if kind == "near":
                    cand = [("n", i) for i, x in enumerate(nx) if x] + [("e", i) for i, x in enumerate(ex) if x]
                    if cand:
                        t, i = rng.choice(cand)
                        if t == "n": nn[i] = nn[i] + "'"
                        else: en[i] = en[i] + "'"
            else:
                nn = names(len(r["nodes"])); en = names(len(r["edges"]))
                nx = [expl() for _ in r["nodes"]]; ex = [expl() for _ in r["edges"]]
            g = fggs.Graph()
            nodes = [fggs.Node(b.nls[nl], id=nn[k] if nx[k] else None) for k, nl in enumerate(r["nodes"])]
            for n in nodes: g.add_node(n)
            edges = []
            for k, (el, att) in enumerate(r["edges"]):
                e = fggs.Edge(b.els[el], [nodes[i] for i in att], id=en[k] if ex[k] else None)
                g.add_edge(e); edges.append(e)
            g.ext = [nodes[i] for i in r["ext"]]
            rule = fggs.HRGRule(b.els[r["lhs"]], g)
        h.add_rule(rule)
        built.append((rule, nodes, edges, nn, en, nx, ex))
        b.rules.append((rule, nodes, edges))
        b.ref.setdefault(b.els[r["lhs"]], []).append(rule)
    b.hrg = h
    return b

def build_case(rng, spec, is_fgg, ids):
    """build the fggs object for a spec; returns (grammar, info)"""
    import fggs, torch
    info = dict(ids=ids, is_fgg=is_fgg, domains=[], weights=[], kinds=set())
    b = build_hrg_c14(spec, ids, rng, fggs.FGG if is_fgg else fggs.HRG)
    g = b.hrg
    info["ref"] = b.ref
    if not is_fgg:
        return g, info
    for i, size in enumerate(spec["nlabels"]):
        c = rng.random()
        if c < 0.4:
            d = fggs.FiniteDomain(["v%d_%d" % (i, k) for k in range(size)]); info["domains"].append("finite-str")
        elif c < 0.6:
            d = fggs.FiniteDomain([k * 10 for k in range(size)]); info["domains"].append("finite-int")
        else:
            d = fggs.RangeDomain(size); info["domains"].append("range")
        g.add_domain(b.nls[i], d)
    unused = set(unused_labels(spec))
    for el, e in enumerate(spec["elabels"]):
        if not e["term"]: continue
        if el in unused:
            # a terminal that occurs in no rule, with or without a factor (the situation of the repaired
            # defect F20: FGG.from_hrg used to drop such labels)
            if rng.random() < 0.5: continue
            info["factor_on_unused"] = True
        doms = [g.domains[b.nls[nl].name] for nl in e["type"]]
        shape = [spec["nlabels"][nl] for nl in e["type"]]
        c = rng.random()
        if 0 in shape:
            # an empty domain: the (empty) weights as a dense tensor of the right shape
            fac = fggs.FiniteFactor(doms, torch.zeros(shape, dtype=torch.get_default_dtype())); info["weights"].append("empty")
            if any(n == 0 for n in shape[:-1]): info["kinds"].add("empty-dim-then-more")
        elif c < 0.08:
            fac = fggs.ConstantFactor(doms, rng.choice([1.5, 2, math.inf, 0.0])); info["weights"].append("constant")
        elif c < 0.45:
            vals = gen.nested(shape, lambda: rng.choices(GRID, GRID_P)[0])
            if rng.random() < 0.5:
                fac = fggs.FiniteFactor(doms, vals)
            else:
                fac = fggs.FiniteFactor(doms, torch.tensor(vals, dtype=torch.get_default_dtype()))
            info["weights"].append("dense")
        else:
            fac = fggs.FiniteFactor(doms, gen_patterned(rng, shape, info["kinds"])); info["weights"].append("patterned")
        g.add_factor(b.els[el], fac)
    return g, info

def _rank_positions(r):
    ns = list(r.rhs.nodes()); es = list(r.rhs.edges())
    sn = sorted(range(len(ns)), key=lambda i: str(ns[i].id))
    se = sorted(range(len(es)), key=lambda i: str(es[i].id))
    pn = [0] * len(ns); pe = [0] * len(es)
    for rank, i in enumerate(sn): pn[i] = rank
    for rank, i in enumerate(se): pe[i] = rank
    return pn, pe

def _idkey(i): return i if isinstance(i, str) else None

def _check_iso(r, r2, pn, pe):
    """Python mirror of graph_iso_b (only used to pick the witness handed to the verified checker)"""
    ns, es, ns2, es2 = list(r.rhs.nodes()), list(r.rhs.edges()), list(r2.rhs.nodes()), list(r2.rhs.edges())
    if len(ns) != len(ns2) or len(es) != len(es2): return False
    img = {}
    for i, v in enumerate(ns):
        w = ns2[pn[i]]
        if v.label != w.label or _idkey(v.id) != _idkey(w.id) or isinstance(v.id, str) != isinstance(w.id, str): return False
        img[v.id] = w.id
    if [img.get(v.id) for v in r.rhs.ext] != [w.id for w in r2.rhs.ext]: return False
    for i, e in enumerate(es):
        f = es2[pe[i]]
        if e.label != f.label or _idkey(e.id) != _idkey(f.id) or isinstance(e.id, str) != isinstance(f.id, str): return False
        if [img.get(v.id) for v in e.nodes] != [w.id for w in f.nodes]: return False
    return True

def _search_iso(r, r2, limit=5000):
    """look for some bijection (nodes, edges) under which r2 is isomorphic to r; None if none found"""
    ns, es, ns2, es2 = list(r.rhs.nodes()), list(r.rhs.edges()), list(r2.rhs.nodes()), list(r2.rhs.edges())
    if len(ns) != len(ns2) or len(es) != len(es2): return None
    cands = []
    for v in ns:
        cands.append([j for j, w in enumerate(ns2) if w.label == v.label and
                      (w.id == v.id if isinstance(v.id, str) else not isinstance(w.id, str))])
    tried = [0]
    def edges_for(pn):
        img = {v.id: ns2[pn[i]].id for i, v in enumerate(ns)}
        used = set(); pe = []
        for e in es:
            want = [img[v.id] for v in e.nodes]
            hit = None
            for j, f in enumerate(es2):
                if j in used or f.label != e.label or [w.id for w in f.nodes] != want: continue
                if isinstance(e.id, str):
                    if f.id != e.id: continue
                elif isinstance(f.id, str): continue
                hit = j; break
            if hit is None: return None
            used.add(hit); pe.append(hit)
        return pe
    def go(i, pn, used):
        if tried[0] > limit: return None
        if i == len(ns):
            tried[0] += 1
            img = {v.id: ns2[pn[k]].id for k, v in enumerate(ns)}
            if [img[v.id] for v in r.rhs.ext] != [w.id for w in r2.rhs.ext]: return None
            pe = edges_for(pn)
            return (list(pn), pe) if pe is not None else None
        for j in cands[i]:
            if j in used: continue
            used.add(j); pn.append(j)
            res = go(i + 1, pn, used)
            if res is not None: return res
            used.discard(j); pn.pop()
        return None
    return go(0, [], set())

def inplace_update(rng, g):
    """Update the weights of some finite factors IN PLACE (same FiniteFactor, same PatternedTensor object,
    as an optimizer step or weights.physical.mul_() would), under torch.no_grad().  Returns the number
    of factors touched.  Exact in float32 on the dyadic grid."""
    import fggs, torch
    n = 0
    with torch.no_grad():
        for fac in g.factors.values():
            if not isinstance(fac, fggs.FiniteFactor) or rng.random() < 0.3: continue
            w = fac.weights
            op = rng.choice(["mul2", "half", "add1", "copy", "default"])
            try:
                if w.physical.numel() == 0 or op == "default":
                    w.default = {0.0: 1.0, 1.0: 0.5}.get(w.default, 0.0)
                elif op == "mul2": w.physical.mul_(2.0)
                elif op == "half": w.physical.mul_(0.5)
                elif op == "add1": w.physical.add_(1.0)
                else: w.physical.copy_(torch.full_like(w.physical, 0.25) + w.physical)
            except RuntimeError:
                # physical is a broadcast (stride-0) view: not writable in place; change the default instead
                w.default = {0.0: 1.0, 1.0: 0.5}.get(w.default, 0.0)
            n += 1
    return n

def positions(g, g2, rules=None):
    """For every pair of rules (all_rules order) the bijection (node positions, edge positions) handed to
    the verified checker hrg_iso_b.  The candidate read off the code (rank in sorted(str(id)) order) is
    tried first; if the Python mirror of the checker does not like it, any other bijection is searched
    for, so that an implementation which merely orders nodes/edges differently is not accused of
    breaking the property (it will still differ from the model: a 'no failing input' report)."""
    out = []
    for lhs, rs in (g._rules if rules is None else rules).items():
        rs2 = g2.rules(lhs)                 # the checker aligns the rules of g2 to the key order of g
        for k, r in enumerate(rs):
            pn, pe = _rank_positions(r)
            if k < len(rs2) and not _check_iso(r, rs2[k], pn, pe):
                alt = _search_iso(r, rs2[k])
                if alt is not None: pn, pe = alt
            out.append((pn, pe))
    return out

def roundtrip(g, is_fgg, second, rules=None):
    """returns the rt_obs wire value (and the live objects for further use)"""
    import fggs
    to_json = fggs.fgg_to_json if is_fgg else fggs.hrg_to_json
    from_json = fggs.json_to_fgg if is_fgg else fggs.json_to_hrg
    try:
        j = json.loads(json.dumps(to_json(g)))
    except Exception as e:
        k = errkind(e)
        if k is None: raise
        return ("ObsToErr", k), None, None
    try:
        g2 = from_json(j)
    except Exception as e:
        k = errkind(e)
        if k is None: raise
        return ("ObsFromErr", (jw(j), k)), j, None
    j2 = None
    if second:
        j2 = json.loads(json.dumps(to_json(g2)))
    idn2 = IdNum()
    return ("ObsOk", (jw(j), fggw(g2, idn2, is_fgg), positions(g, g2, rules), None if j2 is None else jw(j2))), j, (g2, j2)

def doc_rules(jg, g):
    """the rules of a grammar document as {lhs: [HRGRule]} in document order, built with Graph/Node/Edge
    only (no HRG container involved); labels are looked up in g"""
    import fggs
    out = {}
    for r in jg["rules"]:
        rhs = fggs.Graph(); nodes = []
        for n in r["rhs"]["nodes"]:
            v = fggs.Node(g.get_node_label(n["label"]), id=n.get("id")); nodes.append(v); rhs.add_node(v)
        for e in r["rhs"]["edges"]:
            rhs.add_edge(fggs.Edge(g.get_edge_label(e["label"]), [nodes[i] for i in e["attachments"]], id=e.get("id")))
        rhs.ext = [nodes[i] for i in r["rhs"]["externals"]]
        lhs = g.get_edge_label(r["lhs"])
        out.setdefault(lhs, []).append(fggs.HRGRule(lhs, rhs))
    return out

def all_explicit(g, rules=None):
    rs = list(g.all_rules()) if rules is None else [r for l in rules.values() for r in l]
    return all(isinstance(v.id, str) for r in rs for v in r.rhs.nodes()) and \
           all(isinstance(e.id, str) for r in rs for e in r.rhs.edges())

def dense_equal(a, b, tol=0.0):
    import torch
    if a.shape != b.shape: return False
    fin = torch.isfinite(a) & torch.isfinite(b)
    if not bool(((a == b) | fin).all()): return False
    return bool(((a - b)[fin].abs() <= tol).all())

# ---- patterned weight specifications (JSON level)
def gen_vspec(rng, n, psh, kinds, depth=0):
    """a vaxes entry with n values over physical axes of sizes psh (list, may be appended to)"""
    opts = ["fresh"]
    if n in psh: opts += ["reuse", "reuse"]
    if depth < 2:
        if n >= 2: opts += ["sum"]
        if factorizations(n): opts += ["prod", "prod"]
        if n == 1: opts += ["unit"]
    c = rng.choice(opts)
    if c == "fresh":
        psh.append(n); kinds.add("int"); return ("VInt", len(psh) - 1)
    if c == "reuse":
        kinds.add("shared"); return ("VInt", rng.choice([k for k, m in enumerate(psh) if m == n]))
    if c == "unit":
        kinds.add("unit"); return ("VList", [])
    if c == "sum":
        m = rng.randint(1, n); b = rng.randint(0, n - m)
        kinds.add("sum"); return ("VDict", (b, gen_vspec(rng, m, psh, kinds, depth + 1), n - m - b))
    a, b = rng.choice(factorizations(n))
    kinds.add("prod")
    l = [gen_vspec(rng, a, psh, kinds, depth + 1), gen_vspec(rng, b, psh, kinds, depth + 1)]
    if rng.random() < 0.3:
        l.append(("VList", [])); kinds.add("nested-unit")
    return ("VList", l)

def vspec_json(v):
    if v[0] == "VInt": return v[1]
    if v[0] == "VList": return [vspec_json(x) for x in v[1]]
    b, t, a = v[1]
    return {"before": b, "term": vspec_json(t), "after": a}

def vspec_negate(rng, v, np):
    """randomly rewrite axis numbers k as k - np (Python negative indexing)"""
    if v[0] == "VInt": return ("VInt", v[1] - np) if rng.random() < 0.25 else v
    if v[0] == "VList": return ("VList", [vspec_negate(rng, x, np) for x in v[1]])
    b, t, a = v[1]
    return ("VDict", (b, vspec_negate(rng, t, np), a))

def gen_wspec(rng, kinds):
    if rng.random() < 0.12:
        # no "vaxes" entry: the virtual axes are the physical axes ("expand" ones first)
        pshape = [rng.choice([1, 2, 3]) for _ in range(rng.choice([0, 1, 2, 2, 3]))]
        expand = [rng.choice([1, 2, 3]) for _ in range(rng.choice([0, 0, 1, 2]))]
        phys = gen.nested(pshape, lambda: rng.choices(GRID, GRID_P)[0])
        default = rng.choice([0.0, 1.0, math.inf])
        kinds.add("no-vaxes")
        if expand: kinds.add("expand")
        j = {"physical": phys, "expand": expand, "default": default}
        return ("mkWS", (tensw(phys), expand, None, numw(default))), j, expand + pshape
    nd = rng.choice([0, 1, 1, 2, 2, 2, 3])
    shape = [rng.choice([1, 2, 2, 3, 3, 4, 6]) for _ in range(nd)]
    psh = []
    vs = [gen_vspec(rng, n, psh, kinds) for n in shape]
    np_ = len(psh)
    # permute the physical axes
    perm = list(range(np_)); rng.shuffle(perm)          # new position of old axis k is perm[k]
    def ren(v):
        if v[0] == "VInt": return ("VInt", perm[v[1]])
        if v[0] == "VList": return ("VList", [ren(x) for x in v[1]])
        b, t, a = v[1]; return ("VDict", (b, ren(t), a))
    vs = [ren(v) for v in vs]
    psh2 = [0] * np_
    for k, n in enumerate(psh): psh2[perm[k]] = n
    if rng.random() < 0.3 and np_:
        vs = [vspec_negate(rng, v, np_) for v in vs]; kinds.add("negative-axis-number")
    # leading axes come from "expand"
    nex = 0
    if np_ and rng.random() < 0.3:
        nex = rng.randint(1, np_); kinds.add("expand")
    expand, pshape = psh2[:nex], psh2[nex:]
    phys = gen.nested(pshape, lambda: rng.choices(GRID, GRID_P)[0])
    if rng.random() < 0.15:
        phys = gen.nested_map(phys, lambda x: int(x) if math.isfinite(x) and x == int(x) else x) if pshape else phys
    default = rng.choice([0.0, 0.0, 1.0, 0.5, math.inf, -math.inf])
    wire = ("mkWS", (tensw(phys), expand, vs, numw(default)))      # vs: Some list
    j = {"physical": phys, "expand": expand, "vaxes": [vspec_json(v) for v in vs], "default": default}
    return wire, j, shape

def run_weights_impl(j):
    import fggs
    try:
        w = fggs.json_to_weights(j)
        d = w.to_dense()
        return ("WDense", tensw(d.tolist()))
    except Exception as e:
        k = errkind(e)
        if k is None: raise
        return ("WErr", k)

# ---- malformed documents
def base_doc(rng):
    """a valid FGG document to damage"""
    import fggs
    while True:
        spec = prune_spec(gen.random_spec(rng, recursive=rng.random() < 0.5))
        if any(r["edges"] for r in spec["rules"]) and any(r["ext"] for r in spec["rules"]): break
    b = gen.build_fgg(spec, lambda x: math.inf if x == "inf" else float(x), ids=rng.choice(["explicit", "implicit", "mixed"]), rng=rng)
    return json.loads(json.dumps(fggs.fgg_to_json(b.fgg)))

def damage(rng, j):
    """inject one defect; returns (kind, expected exception kind by the property or None)"""
    jg = j["grammar"]
    rules = jg["rules"]
    with_edges = [r for r in rules if any(e["attachments"] for e in r["rhs"]["edges"])]
    with_ext = [r for r in rules if r["rhs"]["externals"]]
    kind = rng.choice(["att-big", "att-neg-wrap", "att-neg-far", "ext-big", "ext-neg-wrap", "ext-neg-far",
                       "unknown-edge-label", "unknown-lhs", "unknown-start", "terminal-start", "wrong-arity",
                       "wrong-node-label", "dup-node-id", "dup-edge-id", "bad-domain-class", "bad-factor-function",
                       "att-not-int", "no-externals-key", "missing-rules", "id-not-str", "terminal-lhs",
                       "unknown-factor-label", "wrong-weights-shape", "ext-wrong-arity", "att-eq-n", "ext-eq-n"])
    def pick_edge():
        r = rng.choice(with_edges)
        e = rng.choice([e for e in r["rhs"]["edges"] if e["attachments"]])
        return r, e, rng.randrange(len(e["attachments"]))
    if kind.startswith("att-") and kind != "att-not-int":
        if not with_edges: return None
        r, e, p = pick_edge(); n = len(r["rhs"]["nodes"])
        e["attachments"][p] = {"att-big": n + rng.randint(0, 3), "att-eq-n": n, "att-neg-wrap": -rng.randint(1, n),
                               "att-neg-far": -n - rng.randint(1, 3)}[kind]
    elif kind in ("ext-big", "ext-neg-wrap", "ext-neg-far", "ext-eq-n"):
        if not with_ext: return None
        r = rng.choice(with_ext); n = len(r["rhs"]["nodes"]); p = rng.randrange(len(r["rhs"]["externals"]))
        r["rhs"]["externals"][p] = {"ext-big": n + rng.randint(0, 3), "ext-eq-n": n, "ext-neg-wrap": -rng.randint(1, n),
                                    "ext-neg-far": -n - rng.randint(1, 3)}[kind]
    elif kind == "unknown-edge-label":
        if not with_edges: return None
        r, e, p = pick_edge(); e["label"] = "nosuch"
    elif kind == "unknown-lhs": rng.choice(rules)["lhs"] = "nosuch"
    elif kind == "unknown-start": jg["start"] = "nosuch"
    elif kind in ("terminal-start", "terminal-lhs") and not jg["terminals"]: return None
    elif kind == "terminal-start": jg["start"] = next(iter(jg["terminals"]))
    elif kind == "terminal-lhs": rng.choice(rules)["lhs"] = next(iter(jg["terminals"]))
    elif kind == "wrong-arity":
        if not with_edges: return None
        r, e, p = pick_edge()
        if rng.random() < 0.5: e["attachments"].append(e["attachments"][p])
        else: del e["attachments"][p]
    elif kind == "wrong-node-label":
        rs = [r for r in rules if r["rhs"]["nodes"]]
        if not rs: return None
        rng.choice(rng.choice(rs)["rhs"]["nodes"])["label"] = "NX"
    elif kind == "dup-node-id":
        rs = [r for r in rules if len(r["rhs"]["nodes"]) >= 2]
        if not rs: return None
        ns = rng.choice(rs)["rhs"]["nodes"]; ns[0]["id"] = "dup"; ns[-1]["id"] = "dup"
    elif kind == "dup-edge-id":
        rs = [r for r in rules if len(r["rhs"]["edges"]) >= 2]
        if not rs: return None
        es = rng.choice(rs)["rhs"]["edges"]; es[0]["id"] = "dup"; es[-1]["id"] = "dup"
    elif kind == "bad-domain-class":
        d = rng.choice(list(j["interpretation"]["domains"].values())); d["class"] = "continuous"
        if rng.random() < 0.5: d["type"] = "x"
    elif kind == "bad-factor-function":
        if not j["interpretation"]["factors"]: return None
        rng.choice(list(j["interpretation"]["factors"].values()))["function"] = "gaussian"
    elif kind == "att-not-int":
        if not with_edges: return None
        r, e, p = pick_edge(); e["attachments"][p] = rng.choice([0.0, "0", None, [0]])
    elif kind == "no-externals-key":
        r = rng.choice(rules); del r["rhs"]["externals"]
    elif kind == "missing-rules": del jg["rules"]
    elif kind == "id-not-str":
        rs = [r for r in rules if r["rhs"]["nodes"]]
        if not rs: return None
        rng.choice(rng.choice(rs)["rhs"]["nodes"])["id"] = rng.choice([3, 1.5, ["a"]])
    elif kind == "unknown-factor-label":
        j["interpretation"]["factors"]["nosuch"] = {"function": "finite", "weights": 1.0}
    elif kind == "wrong-weights-shape":
        fs = [f for f in j["interpretation"]["factors"].values() if isinstance(f.get("weights"), list)]
        if not fs: return None
        f = rng.choice(fs); f["weights"] = f["weights"] + [f["weights"][0]] if f["weights"] else [1.0]
    elif kind == "ext-wrong-arity":
        if not with_ext: return None
        r = rng.choice(with_ext); r["rhs"]["externals"].pop()
    return kind

# ----------------------------------------------------------------------------
FGG_CODES = {
    1: "the round-tripped grammar is not isomorphic to the original (verified oracle hrg_iso_b rejects the bijection by position)",
    2: "generated grammar is not well formed (harness bug)",
    3: "all ids are explicit but the second round trip does not reproduce the JSON",
    4: "the round trip raised an exception on a well-formed grammar",
    5: "the edge-label table changed in the round trip",
    6: "domains or factors differ after the round trip (as dense tensors)",
    7: "the round trip raised an exception on a well-formed grammar (the model does not raise it)",
    10: "fgg_to_json differs from the model's JSON",
    11: "json_to_fgg differs from the model's grammar (up to numbering of implicit ids)",
    12: "the second JSON differs from the model's",
    13: "exception kind differs from the model's (or only one side raised)",
}

def run(tier, seed):
    import fggs, torch, warnings, time
    warnings.filterwarnings("ignore", category=UserWarning)
    rng = random.Random(seed)
    violations = []
    quick = tier == "quick"
    timings = {}
    t_last = [time.time()]
    def lap(name):
        now = time.time(); timings[name] = round(now - t_last[0], 1); t_last[0] = now
    hist = dict(ids={}, kind={}, domains={}, weights={}, pattern_kinds={}, features={}, malformed={}, wspec_kinds={},
                verdicts={}, start_arity={})
    def bump(h, k, n=1): hist[h][k] = hist[h].get(k, 0) + n
    samples = []

    # ---------------- grammar stream
    n_g0 = 420 if quick else 6000
    n_g = n_g0 + (80 if quick else 1200)        # the last ones with repeated rules (add_dups)
    vals, metas, lives = [], [], []
    for i in range(n_g):
        is_fgg = rng.random() < 0.6
        spec = gen.random_spec(rng, recursive=rng.random() < 0.5, max_dom=rng.choice([3, 4, 6]), p_feature=0.2)
        if rng.random() < (0.9 if is_fgg else 0.5): spec = prune_spec(spec)
        if is_fgg and rng.random() < 0.05:
            spec["nlabels"][rng.randrange(len(spec["nlabels"]))] = 0      # an empty domain
            spec["features"] = sorted(set(spec["features"]) | {"empty_domain"})
        if is_fgg and len(spec["nlabels"]) >= 2 and rng.random() < 0.2:
            k1 = rng.randrange(len(spec["nlabels"]))
            if spec["nlabels"][k1] != 0:
                spec["nlabels"][k1] = 1                                   # a domain with a single value
                spec["features"] = sorted(set(spec["features"]) | {"singleton_domain"})
        ids = rng.choice(["explicit", "explicit", "implicit", "mixed", "mixed"])
        if i >= n_g0:
            # repeated rules: the same rule object added twice, equal copies (identical ids), near copies
            spec = add_dups(rng, spec)
            ids = rng.choice(["explicit", "explicit", "explicit", "implicit", "mixed"])
        try:
            g, info = build_case(rng, spec, is_fgg, ids)
            ref = info.pop("ref")
        except Exception as e:
            violations.append(Violation("harness could not build the grammar: %r" % (e,), case=gen.spec_jsonable(spec),
                                        corr="harness", failing_input_found=False)); continue
        history = False
        if is_fgg and rng.random() < 0.3:
            # history: a first fgg_to_json, then in-place weight updates; everything below (the model's
            # view of g, the document written, the round trip) is taken AFTER the update, from the live
            # tensors -- never from a copy of g made before it
            try:
                fggs.fgg_to_json(g)
                history = inplace_update(rng, g) > 0
            except Exception as e:
                violations.append(Violation("first fgg_to_json / in-place update raised %r" % (e,), case=gen.spec_jsonable(spec),
                                            call="fgg_to_json", corr="corr:roundtrip", failing_input_found=False)); continue
        idn = IdNum()
        # the model's view of the grammar: the rules are the ones the harness passed to add_rule (ref), in
        # that order -- not what the container chose to keep
        gw = fggw(g, idn, is_fgg, ref)
        all_x = all_explicit(g, ref)
        second = all_x or rng.random() < 0.3
        try:
            obs, j, extra = roundtrip(g, is_fgg, second, ref)
        except Exception as e:
            violations.append(Violation("round trip raised an unexpected exception %r" % (e,), case=gen.spec_jsonable(spec),
                                        call="fgg_to_json/json_to_fgg", corr="corr:roundtrip")); continue
        vals.append((idn.dec, gw, is_fgg, obs))
        unused = unused_labels(spec)
        meta = dict(spec=gen.spec_jsonable(spec), ids=ids, is_fgg=is_fgg, json=j, info=dict(info, kinds=sorted(info["kinds"])),
                    unused_labels=[gen.el_name(spec, u) for u in unused],
                    factor_on_unused_terminal=bool(info.get("factor_on_unused")), history=history)
        metas.append(meta); lives.append((all_x, extra))
        bump("ids", ids); bump("kind", "fgg" if is_fgg else "hrg")
        bump("start_arity", len(spec["elabels"][spec["start"]]["type"]))
        for d in info["domains"]: bump("domains", d)
        for w in info["weights"]: bump("weights", w)
        for k in info["kinds"]: bump("pattern_kinds", k)
        for f in spec["features"]: bump("features", f)
        if all_x: bump("features", "all_ids_explicit")
        n_equal = sum(1 for rs in ref.values() for a in range(len(rs)) for b2 in range(a) if rs[a] == rs[b2])
        if n_equal:
            bump("features", "equal_rules_same_lhs"); meta["equal_rule_pairs"] = n_equal
            if all_x: bump("features", "equal_rules_same_lhs,all_ids_explicit")
        if history: bump("features", "history:write,update-in-place,write")
    # ---------------- repeated rules in the DOCUMENT: a rule listed twice counts twice
    # A rule of the written document is repeated verbatim (same node and edge ids: an exact duplicate when
    # every id is explicit) inside the block of its left-hand side; the reference document repeats it
    # with the explicit ids of the copy renamed.  Renaming ids changes neither the number of rules nor the
    # sum-product, so both documents must load to grammars with one more rule and the same sum-product,
    # and the exact-duplicate document must be reproduced verbatim by a second round trip.
    def sp(gg):
        z = fggs.sum_product(gg, method="fixed-point", semiring=fggs.RealSemiring())
        return z.to_dense() if hasattr(z, "to_dense") else z
    n_dd = 40 if quick else 400
    dd_done = 0; dd_exact = 0
    for i in range(n_dd):
        spec = prune_spec(gen.random_spec(rng, recursive=False, max_dom=rng.choice([2, 3, 4]), allow_inf=False))
        ids = rng.choice(["explicit", "explicit", "explicit", "mixed"])
        case = dict(spec=gen.spec_jsonable(spec), ids=ids)
        try:
            g, info = build_case(rng, spec, True, ids)
            info.pop("ref")
            if any(isinstance(f, fggs.ConstantFactor) for f in g.factors.values()): continue
            j = json.loads(json.dumps(fggs.fgg_to_json(g)))
            rules = j["grammar"]["rules"]
            k = rng.randrange(len(rules))
            times = rng.choice([1, 1, 2])
            same_lhs = [q for q, r in enumerate(rules) if r["lhs"] == rules[k]["lhs"]]
            pos = rng.choice([k + 1, same_lhs[-1] + 1])
            def renamed(r, tag):
                r = copy.deepcopy(r)
                for x in r["rhs"]["nodes"] + r["rhs"]["edges"]:
                    if "id" in x: x["id"] = x["id"] + tag
                return r
            j_dup = copy.deepcopy(j); j_ren = copy.deepcopy(j)
            for t in range(times):
                j_dup["grammar"]["rules"].insert(pos, copy.deepcopy(rules[k]))
                j_ren["grammar"]["rules"].insert(pos, renamed(rules[k], "~%d" % t))
            exact = all("id" in x for x in rules[k]["rhs"]["nodes"] + rules[k]["rhs"]["edges"])
            case.update(json=j_dup, repeated_rule=k, times=times, exact_duplicate=exact)
            g_dup = fggs.json_to_fgg(copy.deepcopy(j_dup)); g_ren = fggs.json_to_fgg(copy.deepcopy(j_ren))
            n_dup = len(list(g_dup.all_rules())); n_ren = len(list(g_ren.all_rules()))
            z_dup = sp(g_dup); z_ren = sp(g_ren)
            j_dup2 = json.loads(json.dumps(fggs.fgg_to_json(g_dup)))
        except Exception as e:
            violations.append(Violation("round trip / sum_product of a document with a repeated rule raised %r" % (e,), case=case,
                                        corr="corr:sum_product-after-roundtrip", failing_input_found=False)); continue
        dd_done += 1; dd_exact += bool(exact)
        if ids == "explicit":
            # every id explicit: also judged in Coq.  The reference grammar is read off the DOCUMENT (rule graphs
            # built here with Graph/Node/Edge, never stored in an HRG; labels, domains, factors of the grammar the
            # document was written from); c14_fgg_check first checks that the model writes exactly this document
            # for it (else verdict 10), then judges json_to_fgg(doc) with the oracle hrg_iso_b.
            try:
                ref = doc_rules(j_dup["grammar"], g)
                val = ([], fggw(g, IdNum(), True, ref), True,
                       ("ObsOk", (jw(j_dup), fggw(g_dup, IdNum(), True), positions(g, g_dup, ref), jw(j_dup2))))
            except Exception as e:
                violations.append(Violation("harness could not encode a document with a repeated rule: %r" % (e,), case=case, corr="harness", failing_input_found=False))
            else:
                vals.append(val); metas.append(dict(case, is_fgg=True, history=False, info={}, document_first=True)); lives.append((True, (g_dup, j_dup2)))
        bump("features", "document_with_repeated_rule" + (",exact_duplicate" if exact else ""))
        want = len(rules) + times
        if n_dup != want or n_ren != want:
            violations.append(Violation("json_to_fgg did not keep every rule of a document in which a rule is listed more than once (rules kept: observed, rules listed: expected)",
                                        case=case, observed=n_dup, expected=want, corr="C14_roundtrip_rule_counts (a repeated rule is kept)", call="json_to_fgg(doc)"))
        elif len(j_dup2["grammar"]["rules"]) != want or (all_explicit(g_dup) and j_dup2["grammar"]["rules"] != j_dup["grammar"]["rules"]):
            violations.append(Violation("fgg_to_json(json_to_fgg(doc)) does not reproduce the rule list of a document with a repeated rule",
                                        case=case, observed=j_dup2["grammar"]["rules"], expected=j_dup["grammar"]["rules"],
                                        corr="C14_second_roundtrip_verbatim", call="fgg_to_json(json_to_fgg(doc))"))
        if not dense_equal(z_dup, z_ren, 1e-6 * (1.0 + float(z_ren[torch.isfinite(z_ren)].abs().max()) if bool(torch.isfinite(z_ren).any()) else 0.0)):
            violations.append(Violation("sum_product changes when the ids of a repeated rule are renamed (a rule listed twice must count twice)",
                                        case=case, observed=z_dup.tolist(), expected=z_ren.tolist(), corr="C14 (same sum-product)",
                                        call="sum_product(json_to_fgg(doc))"))
    lap('grammar-impl')
    from concurrent.futures import ThreadPoolExecutor
    pool = ThreadPoolExecutor(4)
    fut_g = pool.submit(run_model_c14, FGGCHK, vals, 8 if quick else 60, seed, "c14fgg", 8 if quick else 12)
    # ---------------- sum_product before / after
    # The round-tripped grammar has dense weights.  It is compared with the original grammar whose
    # weights were densified in place (same denotation, checked exactly in the grammar stream): equal
    # factors must give the same sum-product.  sum_product of the original *patterned* weights is also
    # computed; where it differs from the densified one the defect is in the patterned einsum/unify
    # (properties C06/C07: e.g. SumAxis(0, e, 0) does not unify with e), not in the serialisation; it is
    # counted in the evidence (sum_product_pattern_sensitive) and printed as a NOTE.
    n_sp = 40 if quick else 400
    sp_done = 0; sp_sensitive = []
    for i in range(n_sp):
        spec = prune_spec(gen.random_spec(rng, recursive=False, max_dom=rng.choice([2, 3, 4]), allow_inf=False))
        try:
            g, info = build_case(rng, spec, True, rng.choice(["explicit", "implicit", "mixed"]))
            info.pop("ref")
            if any(isinstance(f, fggs.ConstantFactor) for f in g.factors.values()): continue
            g2 = fggs.json_to_fgg(json.loads(json.dumps(fggs.fgg_to_json(g))))
            g3 = g.copy()
            for f in g3.factors.values():
                f.weights = f.weights.to_dense().clone()
            z3 = sp(g3); z2 = sp(g2)
        except Exception as e:
            violations.append(Violation("sum_product before/after round trip raised %r" % (e,), case=gen.spec_jsonable(spec),
                                        corr="corr:sum_product-after-roundtrip", failing_input_found=False)); continue
        sp_done += 1
        if not dense_equal(z3, z2, 1e-9):
            violations.append(Violation("sum_product differs after the JSON round trip", case=gen.spec_jsonable(spec),
                                        observed=z2.tolist(), expected=z3.tolist(), corr="C14 (same sum-product)", call="sum_product(json_to_fgg(fgg_to_json(g)))"))
        try:
            z1 = sp(g)
            if not dense_equal(z1, z3, 1e-9): sp_sensitive.append(dict(spec=gen.spec_jsonable(spec), patterned=z1.tolist(), densified=z3.tolist()))
        except Exception as e:
            sp_sensitive.append(dict(spec=gen.spec_jsonable(spec), patterned="raised %s" % type(e).__name__, densified=z3.tolist()))
    if sp_sensitive:
        print("NOTE property=C14 sum_product of %d grammar(s) with patterned weights differs from the same grammar with densified weights (patterned einsum/unify, see C06/C07); the JSON round trip itself agrees with the densified value" % len(sp_sensitive))

    lap('sumprod')
    # ---------------- weights stream
    n_w = 500 if quick else 8000
    wvals, wmetas = [], []
    for i in range(n_w):
        kinds = set()
        wire, j, shape = gen_wspec(rng, kinds)
        j = json.loads(json.dumps(j))
        try:
            obs = run_weights_impl(j)
        except Exception as e:
            violations.append(Violation("json_to_weights raised an unexpected exception %r" % (e,), case=dict(spec=j), call="json_to_weights", corr="corr:json_to_weights")); continue
        wvals.append((wire, jw(j), obs)); wmetas.append(dict(spec=j, shape=shape, kinds=sorted(kinds)))
        for k in kinds: bump("wspec_kinds", k)
    # hand-made documents (no denotational spec given: model vs implementation only), incl. F19
    hand = [
        [[1.0, 2.0], [3.0, math.inf]], 1.5, [], [[], []], [1, 2.5, 3],
        {"physical": [1.0, 2.0]},                                              # F19
        {"physical": [[1.0, 2.0], [3.0, 4.0]], "default": 7.0},                # F19
        {"physical": [1.0, 2.0], "vaxes": [0, 0]},
        {"physical": [1.0, 2.0], "vaxes": [-1, {"before": 1, "term": 0, "after": 0}], "default": math.inf},
        {"physical": [1.0, 2.0], "vaxes": [1]},                                # IndexError
        {"physical": [1.0, 2.0], "vaxes": [-3]},                               # IndexError
        {"physical": [[1.0, 2.0], [3.0, 4.0]], "vaxes": [0]},                  # axis 1 unused: ValueError at to_dense
        {"physical": [[1.0, 2.0]], "vaxes": [1]},                              # unused axis of size 1: fine
        {"physical": [1.0, 2.0], "vaxes": [{"term": 0, "after": 0}]},          # KeyError
        {"physical": [[1.0], [2.0, 3.0]], "vaxes": [0, 1]},                    # ragged
        {"physical": [1.0, 2.0], "expand": [3], "vaxes": [[0, 1]]},
        {"physical": 5.0, "expand": [2, 2], "vaxes": [0, 1, 0]},
        {"physical": [1.0, 2.0, 3.0, 4.0], "vaxes": [[{"before": 0, "term": [], "after": 0}, 0]]},
        {"vaxes": [0]},
    ]
    for j in hand:
        j = json.loads(json.dumps(j))
        try:
            obs = run_weights_impl(j)
        except Exception as e:
            violations.append(Violation("json_to_weights raised an unexpected exception %r" % (e,), case=dict(spec=j), call="json_to_weights", corr="corr:json_to_weights")); continue
        wvals.append((None, jw(j), obs)); wmetas.append(dict(spec=j, hand=True))
    lap('weights-impl')
    fut_w = pool.submit(run_model_c14, WCHK, wvals, 16 if quick else 90, seed, "c14w", 8 if quick else 12, 8)
    # PatternedTensors built with fggs.indices -> weights_to_json
    n_pt = 300 if quick else 4000
    pvals, pmetas = [], []
    from fggs.factors import weights_to_json
    for i in range(n_pt):
        kinds = set()
        shape = [rng.choice([1, 2, 2, 3, 4, 6]) for _ in range(rng.choice([0, 1, 2, 2, 3]))]
        try:
            w = gen_patterned(rng, shape, kinds)
            wire = ("WFinite", ptw(w))
            j = json.loads(json.dumps({"function": "finite", "weights": weights_to_json(w)}))
        except Exception as e:
            violations.append(Violation("weights_to_json raised %r" % (e,), case=dict(shape=shape, kinds=sorted(kinds)), call="fggs.factors.weights_to_json", corr="corr:weights_to_json")); continue
        pvals.append((wire, jw(j))); pmetas.append(dict(shape=shape, kinds=sorted(kinds), json=j))
        for k in kinds: bump("pattern_kinds", k)
    lap('pt-impl')
    fut_p = pool.submit(run_model_c14, WJCHK, pvals, 16 if quick else 90, seed, "c14wj", 8 if quick else 12, 8)
    # ---------------- malformed stream
    n_m = 260 if quick else 3000
    mvals, mmetas = [], []
    for i in range(n_m):
        j = base_doc(rng)
        kind = damage(rng, j)
        if kind is None: continue
        is_fgg = rng.random() < 0.6 or kind in ("bad-domain-class", "bad-factor-function", "unknown-factor-label", "wrong-weights-shape")
        doc = j if is_fgg else j["grammar"]
        doc = json.loads(json.dumps(doc))
        try:
            (fggs.json_to_fgg if is_fgg else fggs.json_to_hrg)(doc)
            obs = None
        except Exception as e:
            obs = errkind(e)
            if obs is None:
                violations.append(Violation("unexpected exception %r on malformed input (%s)" % (e, kind), case=dict(json=doc, defect=kind),
                                            call="json_to_fgg" if is_fgg else "json_to_hrg", corr="corr:errors")); continue
        mvals.append((jw(doc), is_fgg, obs)); mmetas.append(dict(defect=kind, is_fgg=is_fgg, json=doc, observed=obs))
        bump("malformed", kind)
    lap('mal-impl')
    mcodes, nk4 = run_model_c14(MALCHK, mvals, 8 if quick else 60, seed, "c14mal", 8 if quick else 12)
    codes, nk = fut_g.result(); wcodes, nk2 = fut_w.result(); pcodes, nk3 = fut_p.result()
    pool.shutdown()
    lap('model')
    byte_checked = 0
    for v, m, c, (all_x, extra) in zip(vals, metas, codes, lives):
        bump("verdicts", "fgg:%d" % c)
        # byte comparison of the second round trip (all ids explicit)
        if c == 0 and extra is not None and extra[1] is not None and all_x:
            byte_checked += 1
            if json.dumps(m["json"], sort_keys=True) != json.dumps(extra[1], sort_keys=True):
                violations.append(Violation("second round trip is not byte-identical (json.dumps, sort_keys) although the structural comparison passed",
                                            case=m, corr="C14_second_roundtrip_verbatim", call="fgg_to_json(json_to_fgg(j))"))
        if c == 0: continue
        key = None
        violations.append(Violation(FGG_CODES.get(c, "verdict %d" % c), case=dict(m, verdict=c), observed=v[3][0],
                                    oracle="hrg_iso_b / interp_same_b" if c < 10 else None,
                                    corr="C14_roundtrip_iso / corr:hrg_to_json,json_to_hrg,json_to_fgg (code %d)" % c,
                                    failing_input_found=(c < 10), call="json_to_fgg(json.loads(json.dumps(fgg_to_json(g))))" if m["is_fgg"] else "json_to_hrg(json.loads(json.dumps(hrg_to_json(g))))",
                                    finding_key=key))
    if metas: samples.append(dict(stream="grammar", ids=metas[0]["ids"], is_fgg=metas[0]["is_fgg"], json=metas[0]["json"], info=metas[0]["info"]))
    distinct_g = len({json.dumps(m["json"], sort_keys=True) for m in metas if m["json"] is not None and len(m["json"].get("grammar", m["json"])["rules"]) >= 2})

    WC = {1: "json_to_weights(spec).to_dense() is not the tensor the specification denotes (verified spec_denote disagrees)",
          2: "harness bug: specification not well formed or JSON mismatch", 4: "a well-formed patterned specification was rejected",
          7: "a well-formed patterned specification was rejected (the model accepts it)",
          10: "dense result differs from the model's", 13: "exception kind differs from the model's"}
    for v, m, c in zip(wvals, wmetas, wcodes):
        bump("verdicts", "w:%d" % c)
        if c == 0: continue
        violations.append(Violation(WC.get(c, "verdict %d" % c), case=dict(m, verdict=c), observed=repr(v[2])[:500],
                                    oracle="spec_dense" if c < 10 else None, corr="C14_patterned_weights / corr:json_to_weights (code %d)" % c,
                                    failing_input_found=(c < 10), call="fggs.json_to_weights(spec).to_dense()"))
    if wmetas: samples.append(dict(stream="weights", **wmetas[0])); samples.append(dict(stream="weights", **wmetas[len(wmetas) // 2]))
    distinct_w = len({json.dumps(m["spec"], sort_keys=True) for m in wmetas if isinstance(m["spec"], dict) and
                      any(k in m.get("kinds", []) for k in ("sum", "prod", "shared", "expand"))})

    for v, m, c in zip(pvals, pmetas, pcodes):
        bump("verdicts", "wj:%d" % c)
        if c == 0: continue
        violations.append(Violation("weights_to_json of a PatternedTensor differs from the model's dense content (code %d)" % c, case=dict(m, wire=repr(v[0])[:800]),
                                    corr="corr:weights_to_json", failing_input_found=False, call="fggs.factors.weights_to_json(w)"))
    distinct_p = len({json.dumps(m["json"]) + repr(m["kinds"]) for m in pmetas if set(m["kinds"]) - {"phys", "unit"}})

    for v, m, c in zip(mvals, mmetas, mcodes):
        bump("verdicts", "mal:%d" % c)
        if c == 0: continue
        key = None
        violations.append(Violation("out-of-range attachment/external node number not rejected with ValueError (observed: %s)" % (m["observed"],) if c == 1
                                    else "exception kind on malformed input differs from the model's (code %d, observed %s)" % (c, m["observed"]),
                                    case=m, observed=m["observed"], expected="ValueError" if c == 1 else None, oracle="has_oor" if c == 1 else None,
                                    corr="C14_out_of_range_rejected" if c == 1 else "corr:errors", failing_input_found=(c == 1),
                                    call="json_to_fgg(doc)" if m["is_fgg"] else "json_to_hrg(doc)", finding_key=key))
    if mmetas: samples.append(dict(stream="malformed", defect=mmetas[0]["defect"], observed=mmetas[0]["observed"], json=mmetas[0]["json"]))

    cov = dict(timings=timings, evaluations=len(vals) + len(wvals) + len(pvals) + len(mvals) + sp_done + dd_done,
               distinct_nontrivial=distinct_g + distinct_w + distinct_p,
               rule="grammar stream: gen.random_spec grammars (pruned of unused labels with prob. 0.9 for FGGs / 0.5 for HRGs) built with explicit/implicit/mixed ids, finite(str/int)/range domains, constant/dense/patterned factors; non-trivial = >= 2 rules, distinct by the JSON written; the model's original grammar = the add_rule calls made; plus cases with repeated rules (same object / copy() / rebuilt equal / near / iso copy, adjacent or last) and documents with a rule listed 2-3 times (all-explicit ones also through c14_fgg_check). weights stream: random patterned specifications; non-trivial = uses a sum, product, shared or expand axis, distinct by JSON. PatternedTensor stream: non-trivial = some non-dense axis kind. Malformed and sum-product cases are counted in evaluations only.",
               samples=samples, histograms=hist, kernel_reevaluated=nk + nk2 + nk3 + nk4,
               second_roundtrip_byte_compared=byte_checked, sum_product_compared=sp_done,
               repeated_rule_documents=dd_done, repeated_rule_documents_exact_duplicate=dd_exact, sum_product_pattern_sensitive=len(sp_sensitive),
               sum_product_pattern_sensitive_sample=sp_sensitive[:1],
               streams=dict(grammar=len(vals), weights=len(wvals), patterned_tensors=len(pvals), malformed=len(mvals), sum_product=sp_done, repeated_rule_documents=dd_done),
               known_finding_predicates=[],
               open_items=OPEN_ITEMS)
    return cov, violations

OPEN_ITEMS = [
    "completeness of the oracle hrg_iso_b is not proved (only soundness, C14_iso_oracle_sound): a rejected bijection does not by itself prove non-isomorphism; the harness first tries the bijection read off the code, then searches for any other one before handing a witness to the checker",
    "weights_to_json is modelled by its result (dense nested list of the denotation); PatternedTensor.__iter__/dim_to_dense are not modelled here (C06)",
    "'hence the same sum-product' presupposes that sum_product depends only on the denoted tensors (C06/C07); the check compares the round-tripped grammar with the densified original (always equal so far) and only counts/prints a NOTE where the patterned original differs (SumAxis(0, e, 0) vs e in unify)",
    "json.dumps acceptance is by construction of the model's json type (null/bool/int/float incl. infinities/str/list/dict with str keys); NaN weights are outside the model",
    "rounding of weight literals that are not exactly representable in the default dtype (float32) is not modelled; the generators use dyadic rationals",
]

def replay(path):
    import fggs
    r = json.load(open(path))
    c = r["case"]
    if "defect" in c:
        doc = c["json"]
        try:
            (fggs.json_to_fgg if c["is_fgg"] else fggs.json_to_hrg)(doc); obs = None
        except Exception as e:
            obs = errkind(e)
        code = run_coq(MALCHK, [(jw(doc), c["is_fgg"], obs)], tag="replay")[0]
        print("defect", c["defect"], "observed", obs, "verdict code", code)
        return 1 if code else 0
    if "repeated_rule" in c:
        doc = c["json"]; want = len(doc["grammar"]["rules"])
        g2 = fggs.json_to_fgg(copy.deepcopy(doc)); n = len(list(g2.all_rules()))
        j2 = json.loads(json.dumps(fggs.fgg_to_json(g2)))
        print("document lists %d rules; json_to_fgg kept %d; written again: %d" % (want, n, len(j2["grammar"]["rules"])))
        same = j2["grammar"]["rules"] == doc["grammar"]["rules"] if c.get("exact_duplicate") and c.get("ids") == "explicit" else True
        return 1 if n != want or len(j2["grammar"]["rules"]) != want or not same else 0
    if "spec" in c and "ids" not in c:
        j = c["spec"]
        def unstr(x):
            if isinstance(x, list): return [unstr(y) for y in x]
            if isinstance(x, dict): return {k: unstr(v) for k, v in x.items()}
            if x == "inf": return math.inf
            if x == "-inf": return -math.inf
            return x
        j = unstr(j)
        obs = run_weights_impl(j)
        code = run_coq(WCHK, [(None, jw(j), obs)], tag="replay")[0]
        print("spec", j, "observed", obs, "model-vs-implementation verdict code", code)
        return 1 if code or obs[0] == "WErr" else 0
    if "spec" in c:
        spec = gen.spec_from_json(c["spec"])
        rng = random.Random(0)
        bad = 0
        for k in range(20):
            g, info = build_case(rng, spec, c["is_fgg"], c["ids"])
            ref = info.pop("ref")
            if c.get("history"):
                fggs.fgg_to_json(g); inplace_update(rng, g)
            idn = IdNum(); gw = fggw(g, idn, c["is_fgg"], ref)
            obs, j, extra = roundtrip(g, c["is_fgg"], True, ref)
            code = run_coq(FGGCHK, [(idn.dec, gw, c["is_fgg"], obs)], tag="replay")[0]
            print("attempt", k, "observation", obs[0], "verdict code", code)
            if code: bad = 1; break
        return bad
    print("cannot replay this case; re-run bin/check C14 with the same seed")
    return 1

MANIFEST = dict(
    level="proof",
    text="Coq theorems about a Gallina model that follows fggs/formats.py statement by statement (as repaired by 2f3a5c1, fe13a06, 450bcaa, 38f8bd3): json_to_hrg(hrg_to_json g) is isomorphic to g for every well-formed g and every str() of the implicit ids (C14_roundtrip_iso); at the FGG level, through FGG.from_hrg, with equal domains and factors equal as dense tensors (C14_fgg_roundtrip, for every well-formed FGG: unused labels and empty dimensions included); with explicit ids the second round trip reproduces the JSON (C14_second_roundtrip, _verbatim); the round trip keeps the number of rules of every left-hand side, repeated (equal) rules included, and the oracle rejects any result with another rule count whatever witness it is given (C14_roundtrip_rule_counts, C14_iso_oracle_rejects_count_mismatch, C14_check_rejects_dropped_rule); every attachment/external node number outside 0..n-1, negative ones included, is rejected with ValueError (C14_out_of_range_rejected, C14_out_of_range_is_ValueError); the strided to_dense of json_to_weights' result is the tensor the patterned specification denotes, with or without a 'vaxes' entry (C14_patterned_weights). The model is tied to /repo on every run by comparing JSON, grammars, dense weights and exception kinds exactly, and every implementation output is judged by the extracted oracles hrg_iso_b / spec_dense / has_oor (hrg_iso_b sound by C14_iso_oracle_sound; spec_dense is the definition C14_patterned_weights equates the model with).",
    note="Trusted: Coq kernel + vm_compute, extraction (ExtrOcamlBasic) cross-checked against vm_compute on a sample and on the non-zero verdicts, the Python harness mapping live fggs objects to model values. weights_to_json is modelled by its dense result; json.dumps/loads run but are not modelled. Defects F10, F19, F20 and F21 found by this check were repaired in /repo (known_findings.json: fixed; no known finding is left for C14); the behaviour before the repair of F21 is kept as *_old definitions with its refutation.",
    technique="Coq proof (model + theorems) + model/implementation correspondence with verified oracles",
    design_ref="DESIGN.md section 6, C14")
